"""gen/extract_pagetree.py — values of the page-tree code regenerated from the Rust source on every run (C07).

  page_depth        PageTree::page            the depth budget handed to page_limited
  page_pos_init     PageTree::page_limited    initial value of `pos`
  page_leaf_step    PageTree::page_limited    increment of `pos` for a leaf
  page_depth_step   PageTree::page_limited    decrement of `depth` per level
  pagesnode_types   PagesNode::from_primitive /Type name -> 0 (Leaf/Page) | 1 (Tree/PageTree)
  pagetree_keys     struct PageTree           (dictionary key, field) of every field
  page_inh_keys     struct Page               (dictionary key, field) of parent / resources / media_box / crop_box
  num_pages_field   File::num_pages           the field path read from the catalog
"""
import re


def cstr(s):
    return "[" + "; ".join(str(b) for b in s.encode()) + "]"


def struct_fields(X, src, name):
    body = X.item_body(src, r"pub\s+struct\s+" + name + r"\s*\{", "struct " + name)
    out = []
    for m in re.finditer(r'#\[pdf\(key\s*=\s*"([^"]+)"[^\]]*\)\]\s*pub\s+(\w+)\s*:', body):
        out.append((m.group(1), m.group(2)))
    if not out:
        raise ValueError("no #[pdf(key=..)] fields in struct " + name)
    return out


def extract(g, X):
    types = X.source("pdf/src/object/types.rs")
    filers = X.source("pdf/src/file.rs")

    def impl_pagetree():
        return X.item_body(types, r"impl\s+PageTree\s*\{", "impl PageTree")

    def depth():
        b = X.fn_body(impl_pagetree(), "page")
        m = re.fullmatch(r"\s*self\s*\.\s*page_limited\s*\(\s*\w+\s*,\s*\w+\s*,\s*(\d+)\s*\)\s*", b)
        return str(X.lit(m.group(1)))
    g.attempt([("page_depth", "N")], "types.rs:PageTree::page", depth)

    def limited():
        imp = impl_pagetree()
        sig = re.search(r"fn\s+page_limited\s*\(([^)]*)\)", imp)
        params = [p.split(":")[0].strip() for p in sig.group(1).split(",") if ":" in p]
        dname = params[-1]                              # the depth budget is the last parameter
        b = X.fn_body(imp, "page_limited")
        inits = re.findall(r"let\s+mut\s+(\w+)\s*=\s*(\d+)\s*;", b)
        if len(inits) != 1:
            raise ValueError("page_limited: expected one `let mut <pos> = <n>;`, found %r" % (inits,))
        pname, init = inits[0]
        steps = re.findall(r"\b" + pname + r"\s*\+=\s*(\d+)\s*;", b)
        dsteps = re.findall(r"\b" + dname + r"\s*-\s*(\d+)", b)
        zero = re.findall(r"if\s+" + dname + r"\s*==\s*(\d+)\s*\{", b)
        if len(steps) != 1 or len(dsteps) != 1 or zero != ["0"]:
            raise ValueError("page_limited changed shape: steps=%r depth steps=%r zero test=%r" % (steps, dsteps, zero))
        return init, steps[0], dsteps[0]
    g.attempt([("page_pos_init", "N"), ("page_leaf_step", "N"), ("page_depth_step", "N")], "types.rs:PageTree::page_limited", limited)

    def node_types():
        imp = X.item_body(types, r"impl\s+Object\s+for\s+PagesNode\s*\{", "impl Object for PagesNode")
        b = X.fn_body(imp, "from_primitive")
        key = re.search(r'dict\s*\.\s*require\(\s*"PagesNode"\s*,\s*"(\w+)"\s*\)', b)
        if not key or key.group(1) != "Type":
            raise ValueError("PagesNode is not selected by /Type")
        out = []
        for m in re.finditer(r'"(\w+)"\s*=>\s*Ok\(\s*PagesNode::(Leaf|Tree)\(\s*t!\(\s*(Page|PageTree)::from_dict', b):
            if (m.group(2), m.group(3)) not in (("Leaf", "Page"), ("Tree", "PageTree")):
                raise ValueError("variant / struct mismatch in " + m.group(0))
            out.append((m.group(1), 0 if m.group(2) == "Leaf" else 1))
        if not out:
            raise ValueError("no arms")
        # string patterns are disjoint: the order of the arms is immaterial
        out = X.ordered_by_key(out, ["Page", "Pages"])
        return "[" + "; ".join("(%s, %d)" % (cstr(n), c) for n, c in out) + "]"
    g.attempt([("pagesnode_types", "list (list N * N)")], "types.rs:PagesNode::from_primitive", node_types)

    def keys(name, only=None):
        def f():
            fs = struct_fields(X, types, name)
            if only is not None:
                fs = [(k, fld) for k, fld in fs if fld in only]
            return "[" + "; ".join("(%s, %s)" % (cstr(k), cstr(fld)) for k, fld in fs) + "]"
        return f
    g.attempt([("pagetree_keys", "list (list N * list N)")], "types.rs:struct PageTree", keys("PageTree"))
    g.attempt([("page_inh_keys", "list (list N * list N)")], "types.rs:struct Page",
              keys("Page", ("parent", "resources", "media_box", "crop_box")))

    def numpages():
        b = X.fn_body(filers, "num_pages")
        m = re.fullmatch(r"\s*self\s*\.\s*([\w.\s]+?)\s*", b)
        return cstr(re.sub(r"\s+", "", m.group(1)))
    g.attempt([("num_pages_field", "list N")], "file.rs:File::num_pages", numpages)
