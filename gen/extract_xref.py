"""gen/extract_xref.py — constants and tables of the cross-reference reader (backend.rs, xref.rs,
parse_xref.rs, lexer/mod.rs) regenerated from the Rust source for XRef/Model.v (properties C02, C17)."""
import re

BITS = {"u8": 8, "u16": 16, "u32": 32, "u64": 64, "usize": 64, "i32": 31}


def bstr(tok):
    """b"..." literal -> list of byte values (no escapes other than \\n \\r \\t \\\\ expected)"""
    m = re.fullmatch(r'b"((?:\\.|[^"\\])*)"', tok.strip())
    if not m:
        raise ValueError("not a byte string: " + tok)
    s = m.group(1)
    out, i = [], 0
    esc = {"n": 10, "r": 13, "t": 9, "\\": 92, '"': 34, "0": 0}
    while i < len(s):
        if s[i] == "\\":
            out.append(esc[s[i + 1]])
            i += 2
        else:
            out.append(ord(s[i]))
            i += 1
    return out


def strs(s):
    return [ord(c) for c in s]


def extract(g, X):
    cl = X.cl
    backend = X.strip_comments(X.read("pdf/src/backend.rs"))
    xref = X.strip_comments(X.read("pdf/src/xref.rs"))
    pxr = X.strip_comments(X.read("pdf/src/parser/parse_xref.rs"))
    lexer = X.strip_comments(X.read("pdf/src/parser/lexer/mod.rs"))
    objmod = X.strip_comments(X.read("pdf/src/object/mod.rs"))

    def alias_bits(name):
        if name in BITS:
            return BITS[name]
        m = re.search(r"pub\s+type\s+" + re.escape(name) + r"\s*=\s*(\w+)\s*;", objmod)
        return BITS[m.group(1)]

    def max_id():
        m = re.search(r"pub\s+const\s+MAX_ID\s*:\s*u32\s*=\s*([0-9_xa-fA-F]+)\s*;", backend)
        return str(X.lit(m.group(1)))
    g.attempt([("xr_max_id", "N")], "backend.rs:MAX_ID", max_id)

    def header():
        b = X.fn_body(backend, "locate_start_offset")
        h = re.search(r"const\s+HEADER\s*:\s*&\[u8\]\s*=\s*(b\"[^\"]*\")\s*;", b)
        w = re.search(r"self\.read\(\s*\.\.\s*std::cmp::min\(\s*(\d[\d_]*)\s*,\s*self\.len\(\)\s*\)\s*\)", b)
        if not re.search(r"\.windows\(HEADER\.len\(\)\)\s*\.position\(\|window\|\s*window\s*==\s*HEADER\)", b):
            raise ValueError("search is no longer windows().position(== HEADER)")
        return cl(bstr(h.group(1))), str(X.lit(w.group(1)))
    g.attempt([("xr_header", "list N"), ("xr_header_window", "N")], "backend.rs:locate_start_offset", header)

    def startxref():
        b = X.fn_body(backend, "locate_xref_offset")
        k = re.search(r"seek_substr_back\(\s*(b\"[^\"]*\")\s*\)", b)
        e = re.search(r"set_pos_from_end\(\s*(\d+)\s*\)", b)
        t = re.search(r"\.to::<(\w+)>\(\)", b)
        return cl(bstr(k.group(1))), str(X.lit(e.group(1))), str(alias_bits(t.group(1)))
    g.attempt([("xr_startxref_kw", "list N"), ("xr_from_end", "N"), ("xr_startxref_bits", "N")],
              "backend.rs:locate_xref_offset", startxref)

    def newtab():
        b = X.fn_body(xref, "new")
        m = re.search(r"entries\.push\(\s*XRef::Free\s*\{\s*next_obj_nr\s*:\s*([0-9a-fA-Fx_]+)\s*,\s*gen_nr\s*:\s*([0-9a-fA-Fx_]+)\s*\}\s*\)", b)
        if not re.search(r"entries\.resize\(\s*num_objects\s+as\s+usize\s*,\s*XRef::Invalid\s*\)", b):
            raise ValueError("resize(num_objects, Invalid) not found")
        return str(X.lit(m.group(1))), str(X.lit(m.group(2)))
    g.attempt([("xr_new_free_next", "N"), ("xr_new_free_gen", "N")], "xref.rs:XRefTable::new", newtab)

    def codes():
        b = X.fn_body(pxr, "parse_xref_section_from_stream")
        kinds = {"Free": 0, "Raw": 1, "Stream": 2}
        out = []
        for m in re.finditer(r"(\d+)\s*=>\s*XRef::(\w+)\s*\{\s*(\w+)\s*:\s*(field\d)[^,]*,\s*(\w+)\s*:\s*(field\d)", b):
            out.append((int(m.group(1)), kinds[m.group(2)], int(m.group(4)[-1]), int(m.group(6)[-1])))
        if len(out) != 3:
            raise ValueError("expected three entry kinds, found %d" % len(out))
        d = re.search(r"let\s+_type\s*=\s*if\s+w0\s*==\s*0\s*\{\s*(\d+)\s*\}", b)
        return X.ctuples(out), str(X.lit(d.group(1)))
    g.attempt([("xr_type_codes", "list (N * N * N * N)"), ("xr_default_type", "N")],
              "parse_xref.rs:parse_xref_section_from_stream", codes)

    def width():
        b = X.fn_body(pxr, "read_u64_from_stream")
        m = re.search(r"if\s+width\s*>\s*std::mem::size_of::<(\w+)>\(\)", b)
        s = re.search(r"let\s+base\s*=\s*(\d+)\s*\*\s*i\s*;", b)
        return str(BITS[m.group(1)] // 8), str(X.lit(s.group(1)))
    g.attempt([("xr_u64_width", "N"), ("xr_byte_bits", "N")], "parse_xref.rs:read_u64_from_stream", width)

    def tablekw():
        b = X.fn_body(pxr, "parse_xref_table_and_trailer")
        tr = re.search(r"while\s+lexer\.peek\(\)\?\s*!=\s*\"(\w+)\"", b)
        tr2 = re.search(r"if\s+w1\s*==\s*\"(\w+)\"", b)
        tr3 = re.search(r"lexer\.next_expect\(\"(\w+)\"\)", b)
        if not (tr.group(1) == tr2.group(1) == tr3.group(1)):
            raise ValueError("the three trailer keywords differ")
        f = re.search(r"if\s+w3\s*==\s*\"(\w+)\"\s*\{\s*section\.add_free_entry\(t!\(w1\.to::<(\w+)>\(\)\)\s*,\s*t!\(w2\.to::<(\w+)>\(\)\)\)", b)
        n = re.search(r"else\s+if\s+w3\s*==\s*\"(\w+)\"\s*\{\s*section\.add_inuse_entry\(t!\(w1\.to::<(\w+)>\(\)\)\s*,\s*t!\(w2\.to::<(\w+)>\(\)\)\)", b)
        hdr = re.findall(r"let\s+(?:start_id|num_ids)\s*=\s*t!\(lexer\.next_as::<(\w+)>\(\)\)", b)
        if len(hdr) != 2:
            raise ValueError("subsection header reads changed")
        b2 = X.fn_body(pxr, "read_xref_and_trailer_at")
        x = re.search(r"if\s+next_word\s*==\s*\"(\w+)\"", b2)
        return (cl(strs(tr.group(1))), cl(strs(f.group(1))), cl(strs(n.group(1))), cl(strs(x.group(1))),
                str(alias_bits(hdr[0])), str(alias_bits(hdr[1])),
                str(alias_bits(f.group(2))), str(alias_bits(f.group(3))), str(alias_bits(n.group(2))), str(alias_bits(n.group(3))))
    g.attempt([("xr_kw_trailer", "list N"), ("xr_kw_f", "list N"), ("xr_kw_n", "list N"), ("xr_kw_xref", "list N"),
               ("xr_bits_first", "N"), ("xr_bits_count", "N"), ("xr_bits_free_next", "N"), ("xr_bits_free_gen", "N"),
               ("xr_bits_pos", "N"), ("xr_bits_gen", "N")], "parse_xref.rs:parse_xref_table_and_trailer", tablekw)

    # the lexer tables (lex_ws, lex_delims, lex_comment, lex_comment_ends) are generated by gen/extract_syn.py

