"""gen/extract_xref.py — constants and tables of the cross-reference reader (backend.rs, xref.rs,
parse_xref.rs, lexer/mod.rs) regenerated from the Rust source for XRef/Model.v (properties C02, C17)."""
import re

BITS = {"u8": 8, "u16": 16, "u32": 32, "u64": 64, "usize": 64, "i32": 31}


def bstr(tok):
    """b"..." literal -> list of byte values (no escapes other than \\n \\r \\t \\\\ expected)"""
    m = re.fullmatch(r'b"((?:\\.|[^"\\])*)"', tok.strip())
    if not m:
        raise ValueError("not a byte string: " + tok)
    s = m.group(1)
    out, i = [], 0
    esc = {"n": 10, "r": 13, "t": 9, "\\": 92, '"': 34, "0": 0}
    while i < len(s):
        if s[i] == "\\":
            out.append(esc[s[i + 1]])
            i += 2
        else:
            out.append(ord(s[i]))
            i += 1
    return out


def strs(s):
    return [ord(c) for c in s]


def extract(g, X):
    cl = X.cl
    backend = X.source("pdf/src/backend.rs")
    xref = X.source("pdf/src/xref.rs")
    pxr = X.source("pdf/src/parser/parse_xref.rs")
    lexer = X.source("pdf/src/parser/lexer/mod.rs")
    objmod = X.source("pdf/src/object/mod.rs")

    def alias_bits(name):
        if name in BITS:
            return BITS[name]
        m = re.search(r"pub\s+type\s+" + re.escape(name) + r"\s*=\s*(\w+)\s*;", objmod)
        return BITS[m.group(1)]

    def max_id():
        return str(X.int_value(X.const_expr(backend, "MAX_ID")))
    g.attempt([("xr_max_id", "N")], "backend.rs:MAX_ID", max_id)

    B, iv = X.BYTE, X.int_value

    def header():
        b = X.fn_body(backend, "locate_start_offset")
        h = X.byte_string("HEADER", b, backend)
        # the search window: min(N, self.len()) in any spelling, used (directly or through a local) as the end of the read
        (w,) = [cap for _, cap in X.min_consts(b, r"self\.len\(\)")]
        # the marker is searched with windows(<marker>.len()).position(|w| w == <marker>) — the marker named or written out
        H = r'(HEADER|b"(?:\\.|[^"\\])*"|&?\[[^\]]*\])'
        ms = re.search(r"\.windows\(\s*(?:" + H + r"\.len\(\)|(\d+))\s*\)\s*\.position\(\s*\|(\w+)\|\s*\3\s*==\s*" + H + r"\s*\)", b)
        wlen = ms and (int(ms.group(2)) if ms.group(2) else len(X.byte_string(ms.group(1), b, backend)))
        if not ms or wlen != len(h) or X.byte_string(ms.group(4), b, backend) != h:
            raise ValueError("search is no longer windows().position(== HEADER)")
        return cl(h), str(w)
    g.attempt([("xr_header", "list N"), ("xr_header_window", "N")], "backend.rs:locate_start_offset", header)

    def startxref():
        b = X.fn_body(backend, "locate_xref_offset")
        k = re.search(r"seek_substr_back\(\s*(b\"[^\"]*\"|&?\[[^\]]*\]|\w+)\s*\)", b)
        e = re.search(r"set_pos_from_end\(\s*(\d+)\s*\)", b)
        t = re.search(r"\.to::<(\w+)>\(\)", b)
        return cl(X.byte_string(k.group(1), b, backend)), str(iv(e.group(1))), str(alias_bits(t.group(1)))
    g.attempt([("xr_startxref_kw", "list N"), ("xr_from_end", "N"), ("xr_startxref_bits", "N")],
              "backend.rs:locate_xref_offset", startxref)

    def newtab():
        b = X.fn_body(xref, "new")
        (n,) = X.fn_params(xref, "new")
        m = re.search(r"\w+\.push\(\s*XRef::Free\s*\{\s*next_obj_nr\s*:\s*(" + B + r")\s*,\s*gen_nr\s*:\s*(" + B + r")\s*,?\s*\}\s*\)", b)
        # `num_objects` invalid entries in front of it: Vec::new + resize, or vec![Invalid; n]
        if not (re.search(r"\w+\.resize\(\s*" + n + r"\s+as\s+usize\s*,\s*XRef::Invalid\s*\)", b) or
                re.search(r"vec!\[\s*XRef::Invalid\s*;\s*" + n + r"\s+as\s+usize\s*\]", b)):
            raise ValueError("resize(num_objects, Invalid) not found")
        return str(iv(m.group(1))), str(iv(m.group(2)))
    g.attempt([("xr_new_free_next", "N"), ("xr_new_free_gen", "N")], "xref.rs:XRefTable::new", newtab)

    def codes():
        b = X.fn_body(pxr, "parse_xref_section_from_stream")
        kinds = {"Free": 0, "Raw": 1, "Stream": 2}
        ws = re.search(r"let\s*\[\s*(\w+)\s*,\s*(\w+)\s*,\s*(\w+)\s*\]", b).groups()
        # the type field: `let T = if w0 == 0 { D } else { read(w0) }`; the two other fields: `let F = read(w1|w2)`
        # the type field: `let T = if w0 == 0 { D } else { read(w0) }` (or a match on w0, …): the initialiser is evaluated for
        # w0 = 0 (-> the default D) and w0 = 1 (-> a read of w0 bytes)
        tname = None
        for m in re.finditer(r"let\s+(\w+)\s*(?::\s*\w+)?\s*=\s*", b):
            init = X.let_expr(b[m.start():], m.group(1)) or ""
            if re.search(r"\b" + ws[0] + r"\b", init) and "read_u64_from_stream" in init and not init.startswith("read_u64_from_stream"):
                tname, tinit = m.group(1), init
                break
        at0 = X.tabulate(tinit, ws[0], pxr, scopes=[b], domain=(0, 1))
        if at0[0].how != "value" or isinstance(at0[0].value, bool) or not isinstance(at0[0].value, int) or at0[0].effects:
            raise ValueError("default type")
        v1 = at0[1].value
        if not (isinstance(v1, X.rsx.Opaque) and re.match(r"read_u64_from_stream\(\s*" + ws[0] + r"\s*,", v1.text)):
            raise ValueError("type field is not read with its width: %r" % (v1,))
        d = re.match(r"(\w+) (\d+)", "%s %d" % (tname, at0[0].value))
        field = {}
        for m in re.finditer(r"let\s+(\w+)\s*=\s*read_u64_from_stream\(\s*(\w+)\s*,", b):
            if m.group(2) in ws[1:]:
                field[m.group(1)] = ws.index(m.group(2))
        out = []
        for arm in X.match_arms(b, re.escape(d.group(1))):
            m = re.fullmatch(r"XRef::(\w+)\s*\{\s*(\w+)\s*:\s*(\w+)[^,]*,\s*(\w+)\s*:\s*(\w+)[^,}]*,?\s*\}", arm.expr)
            if m and arm.guard is None and all(re.fullmatch(B, p) for p in arm.pats):
                for p in arm.pats:
                    out.append((iv(p), kinds[m.group(1)], field[m.group(3)], field[m.group(5)]))
        if len(out) != 3:
            raise ValueError("expected three entry kinds, found %d" % len(out))
        return X.ctuples(X.ordered_by_key(out)), str(iv(d.group(2)))
    g.attempt([("xr_type_codes", "list (N * N * N * N)"), ("xr_default_type", "N")],
              "parse_xref.rs:parse_xref_section_from_stream", codes)

    def width():
        b = X.fn_body(pxr, "read_u64_from_stream")
        (wd,) = X.fn_params(pxr, "read_u64_from_stream")[:1]
        m = re.search(r"if\s+" + wd + r"\s*>\s*(?:(?:std::|core::)?mem::)?size_of::<(\w+)>\(\)", b)
        # big-endian accumulation: a loop with `<< (8 * i)` / `8 * i` per byte, or a fold `(acc << 8) | u64::from(c)`
        lp = re.search(r"for\s+(\w+)\s+in\s+\(\s*0\s*\.\.\s*" + wd + r"\s*\)\.rev\(\)", b)
        if lp:
            i = lp.group(1)
            s = re.search(r"(" + B + r")\s*\*\s*" + i + r"\b", b) or re.search(r"\b" + i + r"\s*\*\s*(" + B + r")", b)
        else:
            s = re.search(r"\.fold\(\s*0\w*\s*,\s*\|\s*(\w+)\s*,\s*&?\s*(\w+)\s*\|\s*\(?\s*\1\s*<<\s*(" + B + r")\s*\)?\s*[|+]\s*u64::from\(\s*\2\s*\)", b)
            s = s and re.match(r"(\d+)", str(iv(s.group(3))))
        return str(BITS[m.group(1)] // 8), str(iv(s.group(1)))
    g.attempt([("xr_u64_width", "N"), ("xr_byte_bits", "N")], "parse_xref.rs:read_u64_from_stream", width)

    def tablekw():
        b = X.fn_body(pxr, "parse_xref_table_and_trailer")
        tr = re.search(r"while\s+(\w+)\.peek\(\)\?\s*!=\s*\"(\w+)\"", b)
        lex = tr.group(1)
        words = re.findall(r"let\s+(\w+)\s*=\s*t!\(\s*" + lex + r"\.next\(\)\s*\)\s*;", b)
        if len(words) != 3:
            raise ValueError("an entry is no longer read as three words")
        w1, w2, w3 = words
        tr2 = re.search(r"if\s+" + w1 + r"\s*==\s*\"(\w+)\"", b)
        tr3 = re.search(lex + r"\.next_expect\(\s*\"(\w+)\"\s*\)", b)
        if not (tr.group(2) == tr2.group(1) == tr3.group(1)):
            raise ValueError("the three trailer keywords differ")

        # the decision on the third word — an if / else-if chain in any order, or a match — as a table keyword -> block
        table = X.branches(b[b.index(w3, b.index(words[2])):], w3)

        def entry(method):
            hits = [(k, blk) for k, blk in table.items() if k is not None and re.search(r"\w+\." + method + r"\(", blk)]
            if len(hits) != 1:
                raise ValueError("%s is called for %d keywords" % (method, len(hits)))
            kw, blk = hits[0]
            call = re.search(r"\w+\." + method + r"\(", blk)
            o = call.end() - 1
            args = X.split_top(blk[o + 1:X.close_of(blk, o)], ",")
            ts = []
            for arg, w in zip(args, (w1, w2)):
                mm = re.fullmatch(r"t!\(\s*" + w + r"\.to::<(\w+)>\(\)\s*\)", X.deref(arg, blk))
                ts.append(mm.group(1))
            if len(ts) != 2:
                raise ValueError(method + " arguments")
            return kw, ts
        fk, ft = entry("add_free_entry")
        nk, nt = entry("add_inuse_entry")
        if sorted(k for k in table if k is not None) != sorted([fk, nk]) or not re.search(r"return\s+Err\(|bail!|err!", table.get(None, "")):
            raise ValueError("entry keywords other than the free / in-use ones, or no error for the rest")
        hdr = re.findall(r"let\s+\w+\s*=\s*t!\(\s*" + lex + r"\.next_as::<(\w+)>\(\)\s*\)", b)
        if len(hdr) != 2:
            raise ValueError("subsection header reads changed")
        b2 = X.fn_body(pxr, "read_xref_and_trailer_at")
        x = re.search(r"let\s+(\w+)\s*=\s*t!\(\s*\w+\.next\(\)\s*\)\s*;\s*if\s+\1\s*==\s*\"(\w+)\"", b2)
        return (cl(strs(tr.group(2))), cl(strs(fk)), cl(strs(nk)), cl(strs(x.group(2))),
                str(alias_bits(hdr[0])), str(alias_bits(hdr[1])),
                str(alias_bits(ft[0])), str(alias_bits(ft[1])), str(alias_bits(nt[0])), str(alias_bits(nt[1])))
    g.attempt([("xr_kw_trailer", "list N"), ("xr_kw_f", "list N"), ("xr_kw_n", "list N"), ("xr_kw_xref", "list N"),
               ("xr_bits_first", "N"), ("xr_bits_count", "N"), ("xr_bits_free_next", "N"), ("xr_bits_free_gen", "N"),
               ("xr_bits_pos", "N"), ("xr_bits_gen", "N")], "parse_xref.rs:parse_xref_table_and_trailer", tablekw)

    # the lexer tables (lex_ws, lex_delims, lex_comment, lex_comment_ends) are generated by gen/extract_syn.py

