"""gen/extract_crypt.py — constants of pdf/src/crypt.rs the Crypt model depends on (property C06).

Every value is located by item name / syntactic shape in the *current* source; a shape that is no longer found
is reported as a missing anchor (the dependent table lemma in Crypt/Tables.v then fails)."""
import re


def same(a, b):
    if a != b:
        raise ValueError("constants differ: %s %s" % (a, b))
    return a


def extract(g, X):
    src = X.source("pdf/src/crypt.rs")

    def padding():
        m = re.search(r"const\s+PADDING\s*:\s*\[u8;\s*(\d+)\]\s*=\s*\[([^\]]*)\]", src)
        vals = X.lits(m.group(2))
        if len(vals) != int(m.group(1)):
            raise ValueError("PADDING length")
        return X.cl(vals)
    g.attempt([("PADDING", "list N")], "crypt.rs:PADDING", padding)

    fp = X.fn_body(src, "from_password")

    def u_rounds():
        b = X.fn_body(fp, "compute_u_rev_3_4")
        m = re.search(r"for\s+\w+\s+in\s+(" + X.BYTE + r")\s*\.\.=\s*(" + X.BYTE + r")", b)
        return str(X.int_value(m.group(1))), str(X.int_value(m.group(2)))
    g.attempt([("crypt_u_round_first", "N"), ("crypt_u_round_last", "N")], "crypt.rs:compute_u_rev_3_4", u_rounds)

    def user_kd():
        b = X.fn_body(fp, "key_derivation_user_password_rc4")
        rounds = re.search(r"if\s+\w+\s*>=\s*(\d+)\s*\{\s*for\s+\w+\s+in\s+0\s*\.\.\s*(\d+)", b)
        meta = re.search(r"if\s+\w+\s*>=\s*(\d+)\s*&&\s*!\w+\.encrypt_metadata\s*\{\s*\w+\.consume\(\s*(&?\[[^\]]*\]|b\"[^\"]*\")\s*\)", b)
        # the padding step may live in a private helper of from_password (one level)
        padlen = X.search_deep(r"if\s+\w+\.len\(\)\s*<\s*(\d+)", b, fp)
        caps = X.min_consts(b, r"\w+")
        return (rounds.group(1), rounds.group(2), meta.group(1), X.cl(X.byte_string(meta.group(2))), padlen.group(1),
                str(caps[0][1]))
    g.attempt([("crypt_md5_rev", "N"), ("crypt_md5_rounds", "N"), ("crypt_meta_rev", "N"), ("crypt_meta_bytes", "list N"),
               ("crypt_pw_len", "N"), ("crypt_key_cap", "N")], "crypt.rs:key_derivation_user_password_rc4", user_kd)

    def owner_kd():
        b = X.fn_body(fp, "key_derivation_owner_password_rc4")
        big = re.search(r"if\s+\w+\s*>\s*(\d+)", b)
        rounds = re.search(r"if\s+\w+\s*>=\s*(\d+)\s*\{\s*for\s+\w+\s+in\s+0\s*\.\.\s*(\d+)", b)
        return big.group(1), rounds.group(1), rounds.group(2)
    g.attempt([("crypt_owner_max", "N"), ("crypt_owner_rev", "N"), ("crypt_owner_md5_rounds", "N")],
              "crypt.rs:key_derivation_owner_password_rc4", owner_kd)

    def owner_rounds():
        # `let rounds = if level == 2 { 1 } else { 20 };` (either polarity, or a match): evaluated for level = 2 .. 6
        init = lvar = None
        for m in re.finditer(r"let\s+(\w+)\s*(?::\s*\w+)?\s*=\s*(?=if\b|match\b)", fp):
            cand = X.let_expr(fp[m.start():], m.group(1)) or ""
            hm = re.match(r"(?:if|match)\s+(\w+)\b[^{]*\{\s*[^{}]*\}\s*(?:else\s*\{[^{}]*\})?\s*$", cand.strip())
            if hm and len(re.findall(X.BYTE, cand)) >= 3 and re.search(r"\bfor\s+\w+\s+in\s+0\s*\.\.\s*" + m.group(1) + r"\b", fp):
                init, lvar = cand, hm.group(1)              # `let rounds = if <revision> == 2 { 1 } else { 20 }; for _ in 0..rounds`
                break
        t = {k: o.value for k, o in X.tabulate(init, lvar, src, scopes=[fp], domain=range(2, 7)).items()}
        special = [k for k in t if list(t.values()).count(t[k]) == 1]
        if len(special) != 1 or len(set(t.values())) != 2 or not all(isinstance(v, int) for v in t.values()):
            raise ValueError("owner rounds: %r" % (t,))
        other = [v for k, v in t.items() if k != special[0]][0]
        return str(special[0]), str(t[special[0]]), str(other)
    g.attempt([("crypt_owner_rev2", "N"), ("crypt_owner_rounds2", "N"), ("crypt_owner_rounds", "N")], "crypt.rs:from_password owner rounds", owner_rounds)

    def dispatch():
        v1 = re.search(r"(\d+)\s*=>\s*\((\d+),\s*CryptMethod::V2,\s*CryptMethod::V2\)", fp)
        v2 = re.search(r"(\d+)\s*=>\s*\{\s*if\s+\w+\.bits\s*%\s*(\d+)\s*!=\s*0", fp)
        v4 = re.search(r"(\d+)\s*\.\.=\s*(\d+)\s*=>\s*\{\s*let\s+\(\w+,\s*\w+\)\s*=\s*crypt_filter\(\w+,\s*\w+\.default_crypt_filter\.as_ref\(\)\)\?;"
                       r"\s*let\s+\(\w+,\s*\w+\)\s*=\s*crypt_filter\(\w+,\s*\w+\.string_crypt_filter\.as_ref\(\)\)\?;", fp)
        v5 = re.search(r"CryptMethod::AESV3\s+if\s+\w+\.v\s*==\s*(\d+)", fp)
        # the admissible revisions: the rejecting condition on `let level = dict.r;` is evaluated for 0..31
        lvar = re.search(r"let\s+(\w+)\s*=\s*\w+\.r\s*;", fp).group(1)
        rej = []
        for c, blk, _ in X.if_conditions(fp):
            if re.search(r"(?<![\w.])" + lvar + r"(?!\w)", c) and re.match(r"\s*(err!|bail!|return\s+Err)", blk):
                try:
                    rej.append(X.guard_values(c, lvar, src, scopes=[fp], domain=range(32)))
                except ValueError:
                    pass                   # a condition that passes the revision on to something else (a password check)
        if len(rej) != 1:
            raise ValueError("revision check: %d conditions" % len(rej))
        ok = sorted(set(range(32)) - rej[0])
        if not ok or ok != list(range(ok[0], ok[-1] + 1)):
            raise ValueError("admissible revisions are not a range")
        lv = re.match(r"(\d+) (\d+)", "%d %d" % (ok[0], ok[-1]))
        rc = re.search(r"if\s+\w+\s*<=\s*(\d+)\s*\{\s*let\s+\w+\s*=\s*\w+\s+as\s+usize\s*/\s*8", fp)
        ul = re.search(r"let\s+(\w+)\s*=\s*\w+\.u\.as_bytes\(\);\s*if\s+\1\.len\(\)\s*!=\s*(\d+)", fp)
        ol = re.search(r"let\s+(\w+)\s*=\s*\w+\.o\.as_bytes\(\);\s*if\s+\1\.len\(\)\s*!=\s*(\d+)", fp)
        tr = re.search(r"if\s+(\w+)\.len\(\)\s*>\s*(\d+)\s*\{\s*\1\s*=\s*&\1\[\.\.(\d+)\]", fp)
        if not tr:
            # the same truncation as a slice up to min(len, N): `&p[..p.len().min(N)]` (any spelling of min)
            caps = []
            for mm in re.finditer(r"&(\w+)\[\s*\.\.\s*([^\]]+)\]", fp):
                caps += [c for _, c in X.min_consts(mm.group(2), re.escape(mm.group(1)) + r"\.len\(\)")]
            if len(caps) != 1:
                raise ValueError("password truncation: %r" % (caps,))
            tr = re.match(r"(x)(\d+) (\d+)", "x%d %d" % (caps[0], caps[0]))
        return (v1.group(1), v1.group(2), v2.group(1), v2.group(2), v4.group(1), v4.group(2), v5.group(1), lv.group(1), lv.group(2),
                rc.group(1), ul.group(2), ol.group(2), same(tr.group(2), tr.group(3)))
    g.attempt([("crypt_v_rc4_40", "N"), ("crypt_bits_40", "N"), ("crypt_v_rc4", "N"), ("crypt_bits_mod", "N"), ("crypt_v_cf_lo", "N"),
               ("crypt_v_cf_hi", "N"), ("crypt_v_aesv3", "N"), ("crypt_r_lo", "N"), ("crypt_r_hi", "N"), ("crypt_r_rc4_max", "N"),
               ("crypt_u_len", "N"), ("crypt_o_len", "N"), ("crypt_pw_trunc", "N")], "crypt.rs:from_password dispatch", dispatch)

    def file_key():
        chk = re.search(r"\.map_err\(\|_\|\s*PdfError::InvalidPassword\)\);\s*if\s+(\w+)\.len\(\)\s*!=\s*(\d+)\s*\{\s*err!", fp)
        new = re.search(r"Decoder::with_methods\(\s*(\w+)\.into\(\),\s*(\d+),", fp)
        same(chk.group(1), new.group(1))
        return chk.group(2), new.group(2)
    g.attempt([("crypt_fk_len", "N"), ("crypt_fk_size", "N")], "crypt.rs:from_password R5/R6 file key", file_key)

    def identity():
        b = X.fn_body(fp, "crypt_filter")
        m = re.search(r'Some\((\w+)\)\s+if\s+\1\.as_str\(\)\s*!=\s*"([^"]*)"\s*=>\s*\1,\s*_\s*=>\s*return\s+Ok\(\(None,\s*CryptMethod::None\)\)', b)
        return (X.cl(list(m.group(2).encode())),)
    g.attempt([("crypt_identity_name", "list N")], "crypt.rs:from_password crypt_filter Identity", identity)

    def slices():
        out = []
        # `&u[0..32]` and `&u[..32]` are the same slice
        ms = re.findall(r"let\s+\w+\s*=\s*&\w+\[\s*(\d*)\s*\.\.\s*(\d+)\s*\]\s*;", fp)
        if len(ms) != 6:
            raise ValueError("expected 6 slices of U and O")
        out = [(int(a or 0), int(b)) for a, b in ms]
        return X.ctuples(out)
    g.attempt([("crypt_r56_slices", "list (N * N)")], "crypt.rs:from_password R5/R6 slices", slices)

    def kdf():
        b = X.fn_body(src, "revision_6_kdf")
        w = re.search(r"while\s+(\w+)\s*<\s*(\d+)\s*\|\|\s*\1\s*<\s*\w+\[\w+\s*-\s*1\]\s*as\s+usize\s*\+\s*(\d+)", b)
        rep = re.search(r"for\s+\w+\s+in\s+1\s*\.\.\s*(\d+)", b)
        bs = re.search(r"let\s+(\w+)\s*:\s*usize\s*=\s*\w+\[\.\.(\d+)\]\.iter\(\)(?:\.copied\(\))?\.map\((?:[^()]|\([^()]*\))*\)\.sum(?:::<usize>)?\(\);\s*\w+\s*=\s*\1\s*%\s*(\d+)\s*\*\s*(\d+)\s*\+\s*(\d+)", b, flags=re.S)
        # block size -> hash: integer patterns are disjoint, the order of the arms is immaterial
        arms = []
        bs_var = re.search(r"\bmatch\s+(\w+)\s*\{\s*\d+\s*=>", b).group(1)
        for arm in X.match_arms(b, bs_var):
            hm = re.match(r"sha(\d+)\.update", arm.expr)
            for pt in arm.pats:
                if hm and arm.guard is None and re.fullmatch(r"\d+", pt):
                    arms.append((pt, hm.group(1)))
        arms = X.ordered_by_key(arms, ["32", "48", "64"])
        out = re.search(r"\w+\.copy_from_slice\(&\w+\[\.\.(\d+)\]\);\s*\w+\s*$", b)
        return (w.group(2), w.group(3), rep.group(1), bs.group(2), bs.group(3), bs.group(4), bs.group(5),
                X.ctuples([(int(a), int(h)) for a, h in arms]), out.group(1))
    g.attempt([("crypt_kdf_min", "N"), ("crypt_kdf_tail", "N"), ("crypt_kdf_rep", "N"), ("crypt_kdf_sum", "N"), ("crypt_kdf_mod", "N"),
               ("crypt_kdf_mul", "N"), ("crypt_kdf_add", "N"), ("crypt_kdf_arms", "list (N * N)"), ("crypt_kdf_out", "N")],
              "crypt.rs:revision_6_kdf", kdf)

    def dec():
        b = X.fn_body(src, "decrypt_with")

        def le_prefix(field):
            """N of every `id.<field>.to_le_bytes()[..N]` (directly or through `let t = id.<field>.to_le_bytes();`)"""
            call = r"\w+\." + field + r"\.to_le_bytes\(\)"
            ns = re.findall(call + r"\s*\[\s*\.\.\s*(\d+)\s*\]", b)
            for t in re.findall(r"let\s+(\w+)\s*=\s*" + call + r"\s*;", b):
                ns += re.findall(r"\b" + t + r"\s*\[\s*\.\.\s*(\d+)\s*\]", b)
            if len(set(ns)) != 1:
                raise ValueError("%s bytes: %r" % (field, ns))
            return ns[0]
        salt = re.search(r'copy_from_slice\(\s*(b"(?:\\.|[^"\\])*"|&\[[^\]]*\])\s*\)', b)
        mins = []
        for operand, cap in X.min_consts(b, r"\(\s*\w+\s*\+\s*\d+\s*\)"):
            mins.append((re.fullmatch(r"\w+\s*\+\s*(\d+)", operand).group(1), str(cap)))
        lens = re.findall(r"if\s+\w+\.len\(\)\s*<\s*(\d+)", b)
        splits = re.findall(r"\w+\.split_at_mut\((\d+)\)", b)
        kb = X.fn_body(src, "key")
        (kc,) = [cap for operand, cap in X.min_consts(kb, r"self\.key_size")]
        if len(set(mins)) != 1 or len(set(lens)) != 1 or len(set(splits)) != 1:
            raise ValueError("decrypt constants differ between arms")
        return (X.cl(X.byte_string(salt.group(1))), le_prefix("id"), le_prefix("gen"), mins[0][0], mins[0][1], lens[0], splits[0], str(kc))
    g.attempt([("crypt_salt", "list N"), ("crypt_id_bytes", "N"), ("crypt_gen_bytes", "N"), ("crypt_objkey_extra", "N"), ("crypt_objkey_cap", "N"),
               ("crypt_aes_min", "N"), ("crypt_iv_len", "N"), ("crypt_dkey_cap", "N")], "crypt.rs:decrypt", dec)
