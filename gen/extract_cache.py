"""gen/extract_cache.py — tables of the cache area (C12/C13), regenerated from the Rust sources on every run.

  cache_rpos_arms / cache_rpos_default   types.rs ImageXObject::raw_image_data: the closure given to
                                         `rposition` (which filters count as "image" filters: the split point)
  cache_image_codecs                     the one-element slice patterns accepted after the split
  cache_chain_per_thread                 file.rs StorageResolver: is the recursion guard keyed by the thread?
                                         (true = the `chain` entries carry a ThreadId)
Filter variant codes (shared with props/C12/prop.py and harness/src/modes/cache.rs):
"""
import re

CODES = {"ASCIIHexDecode": 1, "ASCII85Decode": 2, "LZWDecode": 3, "RunLengthDecode": 4, "FlateDecode": 5,
         "DCTDecode": 6, "CCITTFaxDecode": 7, "JPXDecode": 8, "JBIG2Decode": 9, "Crypt": 10}


def extract(g, X):
    types = X.source("pdf/src/object/types.rs")
    filers = X.source("pdf/src/file.rs")

    def rpos():
        b = X.fn_body(types, "raw_image_data")
        (params, expr), = X.closures(b, "rposition")
        v = X.closure_var(params)
        split, scrut = X.variant_pred(expr, list(CODES))
        if scrut.lstrip("*&") != v:
            raise ValueError("the rposition closure does not test its argument")
        # What matters is the function variant -> bool.  It is listed as (rows, default): default = the value that most
        # of the variants outside the house list take; a row for every house key and for every other variant that departs
        # from the default.  An explicit arm that merely repeats the wildcard (or its removal), `|`-merged arms and
        # `matches!` instead of `match` therefore give the same table.
        house = [1, 2, 3, 4, 10]
        rest = [split[n] for n, c in CODES.items() if c not in house]
        default = rest.count(True) >= rest.count(False)
        rows = [(c, split[n]) for n, c in CODES.items() if c in house or split[n] != default]
        rows = X.ordered_by_key(rows, house)
        return X.ctuples([(c, "true" if t else "false") for c, t in rows]), "true" if default else "false"
    g.attempt([("cache_rpos_arms", "list (N * bool)"), ("cache_rpos_default", "bool")],
              "types.rs:ImageXObject::raw_image_data(rposition)", rpos)

    def codecs():
        b = X.fn_body(types, "raw_image_data")
        # the match over the filters after the split point (whatever the local is called): its arms are
        # one-element slice patterns, its wildcard arm bails
        m = re.search(r"match\s+(\w+)\s*\{\s*\[\s*\]\s*=>", b)
        if not m:
            raise ValueError("match over the remaining filters not found")
        arms = X.match_arms(b[m.start():], m.group(1))
        if not re.match(r"bail!", arms[-1].expr) or arms[-1].pattern != "_":
            raise ValueError("the wildcard arm no longer bails")
        out = []
        # `[A(_)] | [B]` and `[A(_) | B]` are the same one-element slice patterns
        for arm in arms[:-1]:
            for pt in arm.pats:
                if re.fullmatch(r"\[\s*\]", pt):
                    continue
                inner = re.fullmatch(r"\[(.*)\]", pt, flags=re.S)
                if not inner or arm.guard is not None:
                    raise ValueError("slice pattern %r" % pt)
                for alt in X.split_top(inner.group(1), "|"):
                    n = X.variant_name(alt)
                    if n is None or n not in CODES or not re.match(r"StreamFilter::", alt.strip()):
                        raise ValueError("slice pattern %r" % alt)
                    out.append(CODES[n])
        if not out:
            raise ValueError("no codec arms")
        return X.cl(X.ordered(out, [6, 7, 8, 5, 9]))
    g.attempt([("cache_image_codecs", "list N")], "types.rs:ImageXObject::raw_image_data(codecs)", codecs)

    def chain():
        m = re.search(r"struct\s+StorageResolver\b[^{]*\{(.*?)\}", filers, flags=re.S)
        if not m:
            raise ValueError("struct StorageResolver not found")
        f = re.search(r"\bchain\s*:\s*([^\n]*)", m.group(1))
        if not f:
            raise ValueError("field chain not found")
        return "true" if "ThreadId" in f.group(1) else "false"
    g.attempt([("cache_chain_per_thread", "bool")], "file.rs:StorageResolver.chain", chain)
