"""gen/extract_font.py — tables and constants of pdf/src/font.rs (and of the lexer pieces that
parse_cmap runs on) that the Font models are parameterised by (DESIGN.md §5.1, property C19).

Everything here is read from the Rust source as it is now; an anchor that cannot be located is reported
missing and its definition becomes an empty/zero value, so the table lemmas in Font/*Proofs.v fail visibly.
"""
import re


def rust_str(tok):
    """bytes of a Rust string literal token "…" (with \\n, \\", \\\\ escapes)"""
    assert tok[0] == '"' and tok[-1] == '"'
    out, i, s = [], 0, tok[1:-1]
    esc = {"n": 10, "r": 13, "t": 9, "0": 0, "\\": 92, '"': 34, "'": 39}
    while i < len(s):
        c = s[i]
        if c == "\\":
            out.append(esc[s[i + 1]])
            i += 2
        else:
            out += list(c.encode("utf-8"))
            i += 1
    return out


STR = r'"(?:\\.|[^"\\])*"'


def extract(g, X):
    cl = X.cl
    font = X.source("pdf/src/font.rs")
    lexer = X.source("pdf/src/parser/lexer/mod.rs")
    strl = X.source("pdf/src/parser/lexer/str.rs")

    # ---- lexer/mod.rs: white-space and delimiter classes used by Lexer::next_word -------------------
    B, iv = X.BYTE, X.int_value

    def ws():
        return cl(X.ordered(X.pred_fn_set(lexer, "is_whitespace"), [0, 32, 13, 10, 9, 12]))
    g.attempt([("font_lexer_ws", "list N")], "font: lexer/mod.rs:is_whitespace", ws)

    def delims():
        b = X.fn_body(lexer, "is_delimiter")
        return cl(X.ordered(X.option_pred_set(b, lexer), [40, 41, 60, 62, 91, 93, 123, 125, 47, 37]))
    g.attempt([("font_delims", "list N")], "font: lexer/mod.rs:Lexer::is_delimiter", delims)

    def comment():
        b = X.fn_body(lexer, "next_word")
        m = re.search(r"while\s+self\.buf\.get\(\s*(\w+)\s*\)\s*==\s*Some\(\s*&?\s*(" + B + r")\s*\)", b)
        pos = m.group(1)
        (params, expr), = X.closures(b, "position")
        ends = X.ordered(X.byte_set(expr, X.closure_var(params), lexer), [10, 13])
        # an unterminated comment runs to the end of the buffer: the fallback of the search for the line end
        # (`None => pos = self.buf.len()`, `.map_or(self.buf.len(), …)`, `.unwrap_or(..)`)
        if "self.buf.len()" not in X.none_values(b):
            raise ValueError("an unterminated comment no longer runs to the end of the buffer")
        n = re.search(r"self\.buf\[\s*" + pos + r"\s*\]\s*==\s*(" + B + r")", b)
        # the two-byte delimiters: every 2-byte literal the function tests (`slice == b"<<" || …`, `matches!(.., Some(b"<<" | b">>"))`)
        pairs = [X.byte_string(t) for t in re.findall(r'b"(?:\\.|[^"\\]){2}"|&?\[\s*' + B + r'\s*,\s*' + B + r'\s*\]', b)]
        if len(pairs) != 2 or any(len(q) != 2 or q[0] != q[1] for q in pairs):
            raise ValueError("double delimiters")
        p1, p2 = pairs
        return (str(iv(m.group(2))), cl(ends), str(iv(n.group(1))), cl(X.ordered([p1[0], p2[0]], [60, 62])))
    g.attempt([("font_comment_start", "N"), ("font_comment_ends", "list N"), ("font_name_start", "N"), ("font_double_delims", "list N")],
              "font: lexer/mod.rs:Lexer::next_word", comment)

    # ---- lexer/str.rs: hex strings -----------------------------------------------------------------------
    def hexws():
        b = X.fn_body(strl, "next_non_whitespace_char")
        m = re.search(r"\bwhile\s+(.*?)\{", b, flags=re.S)
        vals = X.byte_set(m.group(1), None, strl, body=b)
        if not vals:
            raise ValueError("no white-space bytes")
        return cl(X.ordered(vals, [32, 9, 10, 13, 12, 0]))
    g.attempt([("font_hex_ws", "list N")], "font: lexer/str.rs:HexStringLexer::next_non_whitespace_char", hexws)

    def hexranges():
        b = X.fn_body(strl, "next_hex_byte")
        tabs = X.hex_nibble_tables(b, strl)
        rows = [X.ordered_by_key(r, [48, 65, 97]) for r, _, _ in tabs]
        if len(rows) != 2 or rows[0] != rows[1] or not rows[0]:
            raise ValueError("nibble arms differ: %r" % (rows,))
        end = [k for k, o in tabs[0][1].items() if o.how == "return" and o.value == ("Ok", ("None",)) and not o.effects]
        # at the same byte the second read steps back and supplies a 0
        end2 = [k for k, o in tabs[1][1].items() if o.how == "value" and o.value == 0 and o.effects == ("self.back()?",)]
        if len(end) != 1 or end != end2:
            raise ValueError("terminator arms")
        sh = re.search(r"\(\s*\w+\s*<<\s*(\d+)\s*\)\s*\|\s*\w+", b)
        return X.ctuples(rows[0]), str(end[0]), sh.group(1)
    g.attempt([("font_hex_ranges", "list (N * N * N)"), ("font_hex_end", "N"), ("font_hex_shift", "N")],
              "font: lexer/str.rs:HexStringLexer::next_hex_byte", hexranges)

    # ---- parser/mod.rs: which first lexemes start a string / an array ----------------------------------------
    parser = X.source("pdf/src/parser/mod.rs")

    def starts():
        b = X.fn_body(parser, "_parse_with_lexer_ctx")
        hx = re.search(r'first_lexeme\.equals\(b"(.)"\)\s*\{\s*check\(flags,\s*ParseFlags::STRING\)\?;\s*let\s+mut\s+string\s*=\s*IBytes::new\(\);\s*let\s+bytes_traversed\s*=\s*\{\s*let\s+mut\s+hex_string_lexer', b)
        lit = re.search(r'first_lexeme\.equals\(b"(.)"\)\s*\{\s*check\(flags,\s*ParseFlags::STRING\)\?;\s*let\s+mut\s+string\s*=\s*IBytes::new\(\);\s*let\s+bytes_traversed\s*=\s*\{\s*let\s+mut\s+string_lexer', b)
        arr = re.search(r'first_lexeme\.equals\(b"(.)"\)\s*\{\s*check\(flags,\s*ParseFlags::ARRAY\)\?;', b)
        close = re.search(r'lexer\.peek\(\)\?\.equals\(b"(.)"\)', b)
        return str(ord(hx.group(1))), str(ord(lit.group(1))), str(ord(arr.group(1))), str(ord(close.group(1)))
    g.attempt([("font_hexstr_open", "N"), ("font_litstr_open", "N"), ("font_array_open", "N"), ("font_array_close", "N")],
              "font: parser/mod.rs:_parse_with_lexer_ctx", starts)

    # ---- font.rs ------------------------------------------------------------------------------------------------
    def maxcid():
        # check_cid is RUN around MAX_CID: it must accept MAX_CID - 1 and MAX_CID and reject MAX_CID + 1 (polarity of the
        # test, early return vs else branch are immaterial)
        mx = X.int_value(X.const_expr(font, "MAX_CID"))
        return str(X.accepted_upto(font, "check_cid", mx))
    g.attempt([("font_max_cid", "N")], "font: font.rs:MAX_CID/check_cid", maxcid)

    def wnew():
        b = X.fn_body(font, "new", "Widths::new")
        # the first `fn new(` in font.rs is Widths::new (ToUnicodeMap::new takes no argument)
        m = re.search(r"fn\s+new\s*\(\s*default\s*:\s*f32\s*\)\s*->\s*Widths\s*\{(.*?)\n    \}", font, flags=re.S)
        f = re.search(r"first_char\s*:\s*(\d+)", m.group(1))
        return f.group(1)
    g.attempt([("font_widths_new_first", "N")], "font: font.rs:Widths::new", wnew)

    def cidlens():
        b = X.fn_body(font, "parse_cid")
        two = one = None
        for arm in X.match_arms(b, r"\w+\.len\(\)"):
            if arm.guard is None and len(arm.pats) == 1 and re.fullmatch(r"\d+", arm.pattern):
                if re.match(r"Ok\(\s*u16::from_be_bytes", arm.expr):
                    two = arm.pattern
                elif re.fullmatch(r"Ok\(\s*\w+\[0\]\s*as\s*u16\s*\)", arm.expr):
                    one = arm.pattern
        return two, one
    g.attempt([("font_cid_len_be", "N"), ("font_cid_len_single", "N")], "font: font.rs:parse_cid", cidlens)

    def kws():
        b = X.fn_body(font, "parse_cmap")
        # the section keywords: byte-string patterns are disjoint, the order of the arms is immaterial.  The loop with two
        # parses per entry is the bfchar loop, the one with three the bfrange loop; the keyword that leaves the scan: `break`
        char = rng = end = None
        rng_loop = None
        for arm in X.match_arms(b, r"\w+\.as_slice\(\)"):
            for pt in arm.pats:
                if not re.fullmatch(r'b' + STR, pt) or arm.guard is not None:
                    continue
                if re.match(r"loop\b", arm.raw):
                    n = arm.raw.count("parse_with_lexer(")
                    if n == 2 and char is None:
                        char = pt[1:]
                    elif n == 3 and rng is None:
                        rng, rng_loop = pt[1:], arm.raw
                    else:
                        raise ValueError("parse_cmap loop shapes")
                elif re.fullmatch(r"break\s*;?", arm.expr) and end is None:
                    end = pt[1:]
                else:
                    raise ValueError("parse_cmap arm %s" % pt)
        if not (char and rng and end):
            raise ValueError("parse_cmap arms")
        # the last byte of the destination is incremented while it is below a bound: the statements after
        # `let last = ….last_mut().unwrap();` are RUN for every value of *last; the increment happens exactly below the bound
        lm = re.search(r"let\s+(\w+)\s*=\s*\w+\.last_mut\(\)\.unwrap\(\)\s*;", rng_loop)
        _, blk_end = X.enclosing_block(rng_loop, lm.start())
        t = X.tabulate(rng_loop[lm.end():blk_end], lm.group(1), font, scopes=[b], is_expr=False)
        incs = set(v for v, o in t.items() if any(re.fullmatch(r"\*" + lm.group(1) + r" \+= 1;?", e) for e in o.effects))
        others = [e for o in t.values() for e in o.effects if not re.fullmatch(r"\*" + lm.group(1) + r" \+= 1;?", e)]
        if others or incs != set(range(0, len(incs))) or not incs:
            raise ValueError("range increment: %r %r" % (sorted(incs)[-3:], others[:2]))
        return cl(rust_str(char)), cl(rust_str(rng)), cl(rust_str(end)), str(len(incs))
    g.attempt([("font_kw_bfchar", "list N"), ("font_kw_bfrange", "list N"), ("font_kw_endcmap", "list N"), ("font_range_last_max", "N")],
              "font: font.rs:parse_cmap", kws)

    def fmt(fn):
        def f():
            b = X.fn_body(font, fn)
            return b
        return f

    def hexspec(spec):
        m = re.fullmatch(r"0(\d)([Xx])", spec)
        return m.group(1), ("1" if m.group(2) == "X" else "0")

    def wcid():
        (c,) = X.fmt_calls(X.fn_body(font, "write_cid"))
        (_, spec), = c["holes"]
        (o,), (cl_,) = X.fmt_split(c)
        return (str(o),) + hexspec(spec) + (str(cl_),)
    g.attempt([("font_wcid_open", "N"), ("font_wcid_digits", "N"), ("font_wcid_upper", "N"), ("font_wcid_close", "N")],
              "font: font.rs:write_cid", wcid)

    def wuni():
        calls = X.fmt_calls(X.fn_body(font, "write_unicode"))
        if len(calls) != 3 or calls[0]["holes"] or calls[2]["holes"] or len(calls[1]["holes"]) != 1 or X.fmt_split(calls[1]) != [[], []]:
            raise ValueError("write_unicode literals")
        (o,), (c,) = X.fmt_literal(calls[0]), X.fmt_literal(calls[2])
        return (str(o),) + hexspec(calls[1]["holes"][0][1]) + (str(c),)
    g.attempt([("font_wuni_open", "N"), ("font_wuni_digits", "N"), ("font_wuni_upper", "N"), ("font_wuni_close", "N")],
              "font: font.rs:write_unicode", wuni)

    def wcmap():
        b = X.fn_body(font, "write_cmap")
        toks = [X.fmt_literal(c) for c in X.fmt_calls(b) if not c["holes"]]
        # order in the source: bfchar open, cid/unicode separator, line end, bfchar close,
        #                      bfrange open, lo/hi separator, array open, item separator, array close + line end, bfrange close
        if len(toks) != 10:
            raise ValueError("write_cmap emits %d literals" % len(toks))
        single = re.search(r"group_by\(\|b\|\s*b\.len\(\)\s*==\s*(\d+)\)", b)
        return tuple(cl(t) for t in toks) + (single.group(1),)
    g.attempt([("font_wr_bfchar_open", "list N"), ("font_wr_char_sep", "list N"), ("font_wr_char_end", "list N"),
               ("font_wr_bfchar_close", "list N"), ("font_wr_bfrange_open", "list N"), ("font_wr_range_sep", "list N"),
               ("font_wr_array_open", "list N"), ("font_wr_item_sep", "list N"), ("font_wr_array_close", "list N"),
               ("font_wr_bfrange_close", "list N"), ("font_wr_single_len", "N")],
              "font: font.rs:write_cmap", wcmap)
