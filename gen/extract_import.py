"""gen/extract_import.py — what the importer model (coq/theories/Import) takes from the Rust sources:
build.rs (order of the steps of clone_plainref / clone_ref / clone_rcref, fields cloned by clone_page),
content.rs (deep_clone_op: operation variant -> resource map), object/types.rs (struct Resources: keys and how
values are held; struct Page keys), object/mod.rs (Primitive::deep_clone arms), file.rs / xref.rs (first id)."""
import re


def bl(s):
    return "[" + "; ".join(str(c) for c in s.encode("latin-1")) + "]"


def extract(g, X):
    bu = X.source("pdf/src/build.rs")
    co = X.source("pdf/src/content.rs")
    ty = X.source("pdf/src/object/types.rs")
    om = X.source("pdf/src/object/mod.rs")
    fi = X.source("pdf/src/file.rs")
    xr = X.source("pdf/src/xref.rs")

    def struct_fields(src, name):
        """[(rust field, pdf key | None (other), type text)] of `pub struct name`"""
        body = X.item_body(src, r"pub\s+struct\s+" + name + r"\s*\{", "struct " + name)
        out = []
        for m in re.finditer(r"#\[pdf\(([^\]]*)\)\]\s*(?:pub\s+)?(\w+)\s*:\s*([^\n]+?),?\s*(?=\n)", body):
            attr, field, typ = m.group(1), m.group(2), m.group(3).strip().rstrip(",")
            k = re.search(r'key\s*=\s*"([^"]*)"', attr)
            out.append((field, k.group(1) if k else None, typ, "other" in attr and not k))
        if not out:
            raise ValueError("no fields")
        return out

    def res_fields():
        return struct_fields(ty, "Resources")

    # ---- content.rs: deep_clone_op -------------------------------------------------------------
    def op_cats():
        b = X.fn_body(co, "deep_clone_op")
        keys = {f: k for f, k, _, _ in res_fields()}
        out = []
        # arms  Op::V { ref name .. } => { … resources.F.contains_key(name) … old_resources.F.get(name) … resources.F.insert(name.clone(), x.deep_clone(cloner)?) … }
        for m in re.finditer(r"Op::(\w+)\s*\{\s*(?:ref\s+)?name\b[^}]*\}\s*=>\s*\{", b):
            start = m.end() - 1
            arm = X.item_body(b[start:], r"\{", "arm " + m.group(1))
            c = re.search(r"if\s*!\s*resources\.(\w+)\.contains_key\(\s*name\s*\)", arm)
            gt = re.search(r"if\s+let\s+Some\((\w+)\)\s*=\s*old_resources\.(\w+)\.get\(\s*name\s*\)", arm)
            ins = re.search(r"resources\.(\w+)\.insert\(\s*name\.clone\(\)\s*,\s*(\w+)\.deep_clone\(cloner\)\?\s*\)", arm)
            if not (c and gt and ins):
                raise ValueError("arm %s has not the shape contains_key / get / insert(deep_clone)" % m.group(1))
            if not (c.group(1) == gt.group(2) == ins.group(1)) or gt.group(1) != ins.group(2):
                raise ValueError("arm %s mixes resource maps: %s / %s / %s" % (m.group(1), c.group(1), gt.group(2), ins.group(1)))
            if not re.search(r"Ok\(Op::" + m.group(1) + r"\s*\{\s*name:\s*name\.clone\(\)", arm):
                raise ValueError("arm %s does not return the same operation" % m.group(1))
            if c.group(1) not in keys or keys[c.group(1)] is None:
                raise ValueError("resource map %s is not a keyed field of Resources" % c.group(1))
            out.append((m.group(1), keys[c.group(1)]))
        if not out:
            raise ValueError("no resource arms")
        if not re.search(r"(?:ref\s+)?\b(\w+)\s*=>\s*Ok\(\s*\1\.clone\(\)\s*\)", b):
            raise ValueError("default arm is not `ref op => Ok(op.clone())`")
        return "[" + "; ".join("(%s, %s)" % (bl(v), bl(k)) for v, k in X.ordered_by_key(out)) + "]"
    g.attempt([("import_op_cats", "list (list N * list N)")], "content.rs:deep_clone_op", op_cats)

    def props_arms():
        b = X.fn_body(co, "deep_clone_op")
        out = []
        for m in re.finditer(r"Op::(\w+)\s*\{\s*(?:ref\s+)?tag\s*,\s*(?:ref\s+)?properties\s*\}\s*=>\s*\{\s*Ok\(Op::(\w+)\s*\{\s*tag:\s*tag\.clone\(\)\s*,\s*properties:\s*properties\.deep_clone\(cloner\)\?\s*\}\)", b):
            if m.group(1) != m.group(2):
                raise ValueError("marked-content arm returns another operation")
            out.append(m.group(1))
        return "[" + "; ".join(bl(v) for v in sorted(out)) + "]"
    g.attempt([("import_props_ops", "list (list N)")], "content.rs:deep_clone_op(properties)", props_arms)

    # ---- types.rs: Resources ------------------------------------------------------------------------
    def res_kinds():
        out = []
        for f, k, t, _ in res_fields():
            m = re.match(r"HashMap<\s*Name\s*,\s*(.*)>\s*$", t)
            if not m or k is None:
                raise ValueError("field %s of Resources is not a keyed HashMap<Name, _>" % f)
            inner = m.group(1).strip()
            kind = 1 if inner.startswith("Lazy<") else 2 if inner.startswith("Ref<") else 3 if inner.startswith("MaybeRef<") else 0
            out.append((k, kind))
        return "[" + "; ".join("(%s, %d)" % (bl(k), kind) for k, kind in out) + "]"
    g.attempt([("import_res_kinds", "list (list N * N)")], "types.rs:struct Resources", res_kinds)

    # ---- build.rs: clone_page ------------------------------------------------------------------------
    def page_fields():
        b = X.fn_body(bu, "clone_page")
        keys = {f: (k, other) for f, k, _, other in struct_fields(ty, "Page")}
        lit = X.item_body(b, r"Ok\(PageBuilder\s*\{", "PageBuilder literal")
        out = []
        for m in re.finditer(r"(\w+)\s*:\s*page\.(\w+)\.deep_clone\(cloner\)\?", lit):
            if m.group(1) != m.group(2):
                raise ValueError("field %s is cloned from page.%s" % (m.group(1), m.group(2)))
            k, other = keys[m.group(2)]
            out.append("*other" if other else k)
        if not re.search(r"\bops\s*,", lit) or not re.search(r"\bresources\s*,", lit):
            raise ValueError("ops / resources are not the locally built values")
        # the operations are cloned before the struct literal is evaluated
        if b.index("deep_clone_op(") > b.index("Ok(PageBuilder"):
            raise ValueError("operations are cloned after the page entries")
        if not re.search(r"deep_clone_op\(\s*&op\s*,\s*cloner\s*,\s*old_resources\s*,\s*&mut\s+resources\s*\)", b):
            raise ValueError("deep_clone_op call changed")
        if not re.search(r"let\s+old_resources\s*=\s*&\*\*page\.resources\(\)\?\.data\(\)", b):
            raise ValueError("old resources are not the page's (inherited) resources")
        return "[" + "; ".join(bl(k) for k in out) + "]"
    g.attempt([("import_page_fields", "list (list N)")], "build.rs:PageBuilder::clone_page", page_fields)

    # ---- build.rs: the three memoising clone functions ---------------------------------------------------
    STEPS = [("hit", r"if\s+let\s+Some\(&new_ref\)\s*=\s*self\.map\.get\("),
             ("resolve", r"self\.resolver\.(?:resolve|get)\("),
             ("promise", r"self\.updater\.promise::"),
             ("memo", r"self\.map\.insert\("),
             ("clone", r"\.deep_clone\(self\)"),
             ("store", r"self\.updater\.(?:fulfill|create|update::<T>)\(")]
    CODE = {"hit": 1, "resolve": 2, "promise": 3, "memo": 4, "clone": 5, "store": 6}

    def order_of(fn, skip_hit_block=False):
        def f():
            b = X.fn_body(bu, fn)
            if skip_hit_block:
                # the memo-hit branch of clone_rcref contains a clone of its own; order the main path only
                m = re.search(STEPS[0][1], b)
                blk = X.item_body(b[m.start():], r"\{", "hit block")
                b = b[:m.end()] + b[m.start() + b[m.start():].index(blk) + len(blk):]
            pos = []
            for name, rx in STEPS:
                m = re.search(rx, b)
                if m:
                    pos.append((m.start(), CODE[name]))
            return X.cl([c for _, c in sorted(pos)])
        return f
    g.attempt([("import_plainref_order", "list N")], "build.rs:Importer::clone_plainref", order_of("clone_plainref"))
    g.attempt([("import_ref_order", "list N")], "build.rs:Importer::clone_ref", order_of("clone_ref"))
    g.attempt([("import_rcref_order", "list N")], "build.rs:Importer::clone_rcref", order_of("clone_rcref", True))

    # ---- object/mod.rs: Primitive::deep_clone ----------------------------------------------------------------
    def prim_arms():
        m = re.search(r"impl\s+DeepClone\s+for\s+Primitive\s*\{", om)
        if not m:
            raise KeyError("impl DeepClone for Primitive")
        b = X.fn_body(om[m.start():], "deep_clone")
        out = []
        for arm in X.match_arms(b, r"\*?\s*self"):
            for p in arm.pats:
                v = X.variant_name(p)
                built = re.findall(r"Ok\(\s*Primitive::(\w+)", arm.raw)
                if v is None or arm.guard is not None or len(built) != 1:
                    continue
                if v != built[0]:
                    raise ValueError("arm %s builds %s" % (v, built[0]))
                # the arm (an expression, or a block with locals) clones what the variant holds through the cloner
                rec = 1 if "deep_clone(cloner)" in arm.raw else 0
                out.append((v, rec))
        if len(out) < 10:
            raise ValueError("only %d arms recognised" % len(out))
        return "[" + "; ".join("(%s, %d)" % (bl(v), r) for v, r in sorted(out)) + "]"
    g.attempt([("import_prim_arms", "list (list N * N)")], "object/mod.rs:Primitive::deep_clone", prim_arms)

    # ---- file.rs / xref.rs: the first object number an empty storage hands out --------------------------------
    def first_id():
        b = X.fn_body(fi, "empty")
        m = re.search(r"refs:\s*XRefTable::new\((\d+)\)", b)
        nb = X.fn_body(xr, "new")
        (n,) = X.fn_params(xr, "new")
        filled = (re.search(r"\w+\.resize\(\s*" + n + r"\s+as\s+usize\s*,", nb) or
                  re.search(r"vec!\[\s*XRef::Invalid\s*;\s*" + n + r"\s+as\s+usize\s*\]", nb))
        if not filled or len(re.findall(r"\w+\.push\(", nb)) != 1:
            raise ValueError("XRefTable::new changed")
        cb = X.fn_body(fi, "create")
        if not re.search(r"let\s+id\s*=\s*self\.refs\.len\(\)\s*as\s*u64\s*;\s*self\.refs\.push\(XRef::Promised\)", cb):
            raise ValueError("Storage::create changed")
        pb = X.fn_body(fi, "promise")
        if not re.search(r"let\s+id\s*=\s*self\.refs\.len\(\)\s*as\s*u64\s*;\s*self\.refs\.push\(XRef::Promised\)", pb):
            raise ValueError("Storage::promise changed")
        return str(int(m.group(1)) + 1)
    g.attempt([("import_first_id", "N")], "file.rs:Storage::empty/promise", first_id)
