"""gen/extract_syn.py — tables of the lexer / parser / serializer (pdf/src/parser/**, primitive.rs).

Byte classes are read with X.byte_set (any spelling of the predicate, one level of helper fn), tables of disjoint literal
arms with X.match_arms / X.ordered_by_key (arm order in the source is immaterial), locals are bound, never named."""
import re


def extract(g, X):
    B = X.BYTE
    iv = X.int_value
    lx = X.source("pdf/src/parser/lexer/mod.rs")
    st = X.source("pdf/src/parser/lexer/str.rs")
    pm = X.source("pdf/src/parser/mod.rs")
    pr = X.source("pdf/src/primitive.rs")

    def ws():
        return X.cl(X.ordered(X.pred_fn_set(lx, "is_whitespace"), [0, 32, 13, 10, 9, 12]))
    g.attempt([("lex_ws", "list N")], "lexer/mod.rs:is_whitespace", ws)

    def delims():
        # fn is_delimiter(&self, pos) — the method on Lexer: the predicate applied to the byte at pos, if there is one
        b = X.item_body(lx, r"fn\s+is_delimiter\s*\(\s*&self[^)]*\)\s*->\s*bool\s*\{", "Lexer::is_delimiter")
        return X.cl(X.ordered(X.option_pred_set(b, lx), [40, 41, 60, 62, 91, 93, 123, 125, 47, 37]))
    g.attempt([("lex_delims", "list N")], "lexer/mod.rs:Lexer::is_delimiter", delims)

    def comment():
        b = X.fn_body(lx, "next_word")
        m = re.search(r"while\s+self\.buf\.get\(\s*\w+\s*\)\s*==\s*Some\(\s*&?\s*(" + B + r")\s*\)", b)
        (params, expr), = X.closures(b, "position")
        ends = X.ordered(X.byte_set(expr, X.closure_var(params), lx), [10, 13])
        return str(iv(m.group(1))), X.cl(ends)
    g.attempt([("lex_comment", "N"), ("lex_comment_ends", "list N")], "lexer/mod.rs:next_word(comment)", comment)

    def escapes():
        b = X.fn_body(st, "next_lexeme")
        out = []
        for m in re.finditer(r"(" + B + r")\s*=>\s*Some\(\s*(" + B + r")\s*\)", b):
            out.append((iv(m.group(1)), iv(m.group(2))))
        if len(out) < 5:
            raise ValueError("escape arms not found")
        return X.ctuples(X.ordered_by_key(out, [110, 114, 116, 98, 102, 40, 41, 92]))
    g.attempt([("str_escapes", "list (N * N)")], "lexer/str.rs:StringLexer::next_lexeme(escapes)", escapes)

    def octal():
        b = X.fn_body(st, "next_lexeme")
        m = re.search(r"for\s+\w+\s+in\s+0\s*\.\.\s*(" + B + r")\s*\{", b)
        loop = X.item_body(b[m.start():], r"\{", "octal loop")
        # the loop body is RUN for every value of the byte it peeks: the digits are the bytes on which it does not leave the
        # loop (polarity of the test, if/else vs early `break`, `matches!` / range `contains` / is_ascii_* are all the same)
        c = re.search(r"let\s+(\w+)\s*=\s*self\.peek_byte\(\)\?\s*;", loop).group(1)
        t = X.tabulate_local(loop, c, st, scopes=[b])
        digits = set(v for v, o in t.items() if o.how == "value")
        if any(o.how not in ("value", "break") for o in t.values()) or not digits:
            raise ValueError("octal loop leaves otherwise than by break")
        if any(not any(re.fullmatch(r"self\.next_byte\(\)\?;?", e) for e in t[v].effects) for v in digits):
            raise ValueError("a digit is not consumed")
        lo, hi = min(digits), max(digits)
        if digits != set(range(lo, hi + 1)):
            raise ValueError("octal digits are not a range")
        k = re.search(r"(\w+)\s*=\s*\1\s*\*\s*(" + B + r")\s*\+", loop)
        return str(iv(m.group(1))), str(lo), str(hi), str(iv(k.group(2)))
    g.attempt([("str_octal_max_digits", "N"), ("str_octal_lo", "N"), ("str_octal_hi", "N"), ("str_octal_base", "N")],
              "lexer/str.rs:StringLexer::next_lexeme(octal)", octal)

    def hexws():
        b = X.fn_body(st, "next_non_whitespace_char")
        m = re.search(r"\bwhile\s+(.*?)\{", b, flags=re.S)
        vals = X.byte_set(m.group(1), None, st, body=b)
        if not vals:
            raise ValueError("no white-space tests")
        return X.cl(sorted(vals))
    g.attempt([("hexstr_ws", "list N")], "lexer/str.rs:HexStringLexer::next_non_whitespace_char", hexws)

    def hexdig():
        tabs = X.hex_nibble_tables(X.fn_body(st, "next_hex_byte"), st)
        rows = [X.ordered_by_key(r, [48, 65, 97]) for r, _, _ in tabs]
        if len(rows) != 2 or rows[0] != rows[1] or not rows[0]:
            raise ValueError("high/low nibble arms differ or missing")
        # the byte on which the first read ends the string: `return Ok(None)`
        (end,) = [k for k, o in tabs[0][1].items() if o.how == "return" and o.value == ("Ok", ("None",)) and not o.effects]
        return X.ctuples(rows[0]), str(end)
    g.attempt([("hexstr_digits", "list (N * N * N)"), ("hexstr_end", "N")], "lexer/str.rs:HexStringLexer::next_hex_byte", hexdig)

    def maxdepth():
        return str(iv(X.const_expr(pm, "MAX_DEPTH")))
    g.attempt([("MAX_DEPTH", "N")], "parser/mod.rs:MAX_DEPTH", maxdepth)

    def flags():
        body = X.item_body(pm, r"pub\s+struct\s+ParseFlags\s*:\s*u16\s*\{", "ParseFlags")
        out = {}
        for m in re.finditer(r"const\s+(\w+)\s*=\s*1\s*<<\s*(\d+)\s*;", body):
            out[m.group(1)] = 1 << int(m.group(2))
        names = ["INTEGER", "STREAM", "DICT", "NUMBER", "NAME", "ARRAY", "STRING", "BOOL", "NULL", "REF"]
        anym = re.search(r"const\s+ANY\s*=\s*\(1\s*<<\s*(\d+)\)\s*-\s*1", body)
        return tuple(str(out[n]) for n in names) + (str((1 << int(anym.group(1))) - 1),)
    g.attempt([("F_INTEGER", "N"), ("F_STREAM", "N"), ("F_DICT", "N"), ("F_NUMBER", "N"), ("F_NAME", "N"), ("F_ARRAY", "N"),
               ("F_STRING", "N"), ("F_BOOL", "N"), ("F_NULL", "N"), ("F_REF", "N"), ("F_ANY", "N")], "parser/mod.rs:ParseFlags", flags)

    def stream_kw():
        b = X.fn_body(lx, "next_stream")
        w = re.search(r"let\s*\(\s*_\s*,\s*(\w+)\s*\)\s*=\s*self\.next_word\(\)\?\s*;", b)
        if not w:
            raise ValueError("keyword is no longer located with next_word")
        p = w.group(1)
        # what follows the keyword is RUN with the byte at `pos` (and, where it is consulted, the byte at `pos + 1`) given every
        # value: `self.buf.get(pos)` itself is what is varied, so it does not matter whether the byte is bound to a local,
        # matched directly, tested by an if / else-if chain or by a match on the byte or on the pair
        code = b[w.end():]
        first, second = "self.buf.get(%s)" % p, "self.buf.get(%s + 1)" % p

        def advance(o):
            if o.is_err or o.how != "value":
                return None
            adv = [re.fullmatch(r"self\.pos = " + p + r" \+ (\d+);?", e) for e in o.effects]
            if len(adv) != 1 or not adv[0]:
                raise ValueError("effects of next_stream: %r" % (o.effects,))
            return int(adv[0].group(1))
        one, two = {}, {}
        for v in range(256):
            try:
                o = X.rsx.run(X, code, {}, lx, scopes=[b], inject_expr={first: ("Some", v)})
                a = advance(o)
                if a is not None:
                    one[v] = a
            except X.rsx.Unknown:
                for v2 in range(256):
                    a = advance(X.rsx.run(X, code, {}, lx, scopes=[b], inject_expr={first: ("Some", v), second: ("Some", v2)}))
                    if a is not None:
                        two[(v, v2)] = a
        ((lf, after_lf),) = one.items()
        ((cr, crlf), after_crlf), = two.items()
        return str(lf), str(after_lf), str(cr), str(crlf), str(after_crlf)
    g.attempt([("stream_lf", "N"), ("stream_after_lf", "N"), ("stream_cr", "N"), ("stream_cr_lf", "N"), ("stream_after_crlf", "N")],
              "lexer/mod.rs:next_stream", stream_kw)

    # ---- serializer (primitive.rs)
    def name_ser():
        b = X.fn_body(pr, "serialize_name")
        # the body of `for &b in s.as_bytes() { … }` is RUN for every byte: written as it is (write_all(&[b])) or as #XX
        fm = re.search(r"\bfor\s+&?(\w+)\s+in\s+\w+\.(?:as_bytes\(\)|bytes\(\))\s*\{", b)
        v = fm.group(1)
        loop = X.item_body(b[fm.start():], r"\{", "loop over the bytes of the name")
        t = X.tabulate(loop, v, pr, scopes=[b], is_expr=False)
        raw = set()
        for k, o in t.items():
            if o.how != "value" or len(o.effects) != 1:
                raise ValueError("byte %d: %r" % (k, o))
            e = o.effects[0]
            if re.fullmatch(r"\w+\.write_all\(\s*&\[\s*" + v + r"\s*\]\s*\)\?;?", e):
                raw.add(k)
            else:
                (c,) = X.fmt_calls(e)
                if c["template"] != b"#\x00:02X\x01" or c["holes"][0][0] != v:
                    raise ValueError("escape form changed: %r" % e)
        if not raw or len(raw) == 256:
            raise ValueError("raw / escape arm changed")
        lo, hi = min(raw), max(raw)
        excl = X.ordered(set(range(lo, hi + 1)) - raw, [40, 41, 60, 62, 91, 93, 123, 125, 47, 37, 35])
        return str(lo), str(hi), X.cl(excl)
    g.attempt([("name_ser_raw_lo", "N"), ("name_ser_raw_hi", "N"), ("name_ser_raw_except", "list N")], "primitive.rs:serialize_name", name_ser)

    def str_ser():
        m = re.search(r"impl\s+PdfString\s*\{", pr)
        b = X.item_body(pr[m.start():], r"pub\s+fn\s+serialize\s*\(&self[^)]*\)\s*->\s*Result<\(\)>\s*\{", "PdfString::serialize")
        (params, expr), = X.closures(b, "any")
        hexed = X.byte_set(expr, X.closure_var(params), pr)
        thr = min(hexed)
        if hexed != set(range(thr, 256)):
            raise ValueError("hex condition is not a threshold")
        esc = re.search(r"((?:" + B + r"\s*\|\s*)*" + B + r")\s*=>\s*write!\(\s*\w+\s*,\s*r\"\\\"\s*\)", b)
        cr = re.search(r"(" + B + r")\s*=>\s*\{[^{}]*write!\(\s*\w+\s*,\s*r\"\\r\"\s*\)", b)
        return str(thr), X.cl(X.ordered(X.pattern_set(esc.group(1)), [92, 40, 41])), str(iv(cr.group(1)))
    g.attempt([("str_ser_hex_from", "N"), ("str_ser_escaped", "list N"), ("str_ser_cr", "N")], "primitive.rs:PdfString::serialize", str_ser)
