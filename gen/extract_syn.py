"""gen/extract_syn.py — tables of the lexer / parser / serializer (pdf/src/parser/**, primitive.rs)."""
import re


def extract(g, X):
    LIT = X.LIT
    lx = X.strip_comments(X.read("pdf/src/parser/lexer/mod.rs"))
    st = X.strip_comments(X.read("pdf/src/parser/lexer/str.rs"))
    pm = X.strip_comments(X.read("pdf/src/parser/mod.rs"))
    pr = X.strip_comments(X.read("pdf/src/primitive.rs"))

    def ws():
        b = X.fn_body(lx, "is_whitespace")
        m = re.search(r"matches!\(\s*b\s*,\s*([^)]*)\)", b)
        return X.cl(X.alt_set(m.group(1)))
    g.attempt([("lex_ws", "list N")], "lexer/mod.rs:is_whitespace", ws)

    def delims():
        # fn is_delimiter(&self, pos) — the method on Lexer
        m = re.search(r"fn\s+is_delimiter\s*\(&self[^)]*\)\s*->\s*bool\s*\{(.*?)\n    \}", lx, flags=re.S)
        mm = re.search(r'b"((?:\\.|[^"\\])*)"\s*\.contains', m.group(1))
        s = mm.group(1).encode().decode("unicode_escape").encode("latin-1")
        return X.cl(list(s))
    g.attempt([("lex_delims", "list N")], "lexer/mod.rs:Lexer::is_delimiter", delims)

    def comment():
        b = X.fn_body(lx, "next_word")
        m = re.search(r"while\s+self\.buf\.get\(pos\)\s*==\s*Some\(&(" + LIT + r")\)", b)
        e = re.search(r"position\(\|&b\|\s*((?:b\s*==\s*" + LIT + r"\s*(?:\|\|\s*)?)+)\)", b)
        ends = [X.lit(t) for t in re.findall(r"b\s*==\s*(" + LIT + r")", e.group(1))]
        return str(X.lit(m.group(1))), X.cl(ends)
    g.attempt([("lex_comment", "N"), ("lex_comment_ends", "list N")], "lexer/mod.rs:next_word(comment)", comment)

    def escapes():
        b = X.fn_body(st, "next_lexeme")
        out = []
        for m in re.finditer(r"(" + LIT + r")\s*=>\s*Some\(\s*(" + LIT + r")\s*\)", b):
            out.append((X.lit(m.group(1)), X.lit(m.group(2))))
        if len(out) < 5:
            raise ValueError("escape arms not found")
        return X.ctuples(out)
    g.attempt([("str_escapes", "list (N * N)")], "lexer/str.rs:StringLexer::next_lexeme(escapes)", escapes)

    def octal():
        b = X.fn_body(st, "next_lexeme")
        m = re.search(r"for\s+_\s+in\s+0\s*\.\.\s*(\d+)", b)
        r = re.search(r"\((" + LIT + r")\s*\.\.=\s*(" + LIT + r")\)\.contains\(&c\)", b)
        k = re.search(r"char_code\s*\*\s*(\d+)", b)
        return m.group(1), str(X.lit(r.group(1))), str(X.lit(r.group(2))), k.group(1)
    g.attempt([("str_octal_max_digits", "N"), ("str_octal_lo", "N"), ("str_octal_hi", "N"), ("str_octal_base", "N")],
              "lexer/str.rs:StringLexer::next_lexeme(octal)", octal)

    def hexws():
        b = X.fn_body(st, "next_non_whitespace_char")
        vals = [X.lit(t) for t in re.findall(r"byte\s*==\s*(" + LIT + r")", b)]
        if not vals:
            raise ValueError("no white-space tests")
        return X.cl(sorted(set(vals)))
    g.attempt([("hexstr_ws", "list N")], "lexer/str.rs:HexStringLexer::next_non_whitespace_char", hexws)

    def hexdig():
        b = X.fn_body(st, "next_hex_byte")
        hi = b[:b.index("let c2")]
        lo = b[b.index("let c2"):]
        def arms(s, v):
            out = []
            for m in re.finditer(r"(" + LIT + r")\s*\.\.=\s*(" + LIT + r")\s*=>\s*" + v + r"\s*-\s*(" + LIT + r")\s*(?:\+\s*(" + LIT + r"))?", s):
                lo_, hi_, sub, add = X.lit(m.group(1)), X.lit(m.group(2)), X.lit(m.group(3)), X.lit(m.group(4)) if m.group(4) else 0
                if sub != lo_:
                    raise ValueError("arm subtracts a different base")
                out.append((lo_, hi_, add))
            return out
        a, c = arms(hi, "c1"), arms(lo, "c2")
        if not a or a != c:
            raise ValueError("high/low nibble arms differ or missing")
        end = re.search(r"(" + LIT + r")\s*=>\s*return\s+Ok\(None\)", hi)
        return X.ctuples(a), str(X.lit(end.group(1)))
    g.attempt([("hexstr_digits", "list (N * N * N)"), ("hexstr_end", "N")], "lexer/str.rs:HexStringLexer::next_hex_byte", hexdig)

    def maxdepth():
        m = re.search(r"const\s+MAX_DEPTH\s*:\s*usize\s*=\s*(\d+)\s*;", pm)
        return m.group(1)
    g.attempt([("MAX_DEPTH", "N")], "parser/mod.rs:MAX_DEPTH", maxdepth)

    def flags():
        body = X.item_body(pm, r"pub\s+struct\s+ParseFlags\s*:\s*u16\s*\{", "ParseFlags")
        out = {}
        for m in re.finditer(r"const\s+(\w+)\s*=\s*1\s*<<\s*(\d+)\s*;", body):
            out[m.group(1)] = 1 << int(m.group(2))
        names = ["INTEGER", "STREAM", "DICT", "NUMBER", "NAME", "ARRAY", "STRING", "BOOL", "NULL", "REF"]
        anym = re.search(r"const\s+ANY\s*=\s*\(1\s*<<\s*(\d+)\)\s*-\s*1", body)
        return tuple(str(out[n]) for n in names) + (str((1 << int(anym.group(1))) - 1),)
    g.attempt([("F_INTEGER", "N"), ("F_STREAM", "N"), ("F_DICT", "N"), ("F_NUMBER", "N"), ("F_NAME", "N"), ("F_ARRAY", "N"),
               ("F_STRING", "N"), ("F_BOOL", "N"), ("F_NULL", "N"), ("F_REF", "N"), ("F_ANY", "N")], "parser/mod.rs:ParseFlags", flags)

    def stream_kw():
        b = X.fn_body(lx, "next_stream")
        if not re.search(r"let\s*\(_,\s*pos\)\s*=\s*self\.next_word\(\)\?", b):
            raise ValueError("keyword is no longer located with next_word")
        lf = re.search(r"if\s+b0\s*==\s*(" + LIT + r")\s*\{\s*self\.pos\s*=\s*pos\s*\+\s*(\d+)", b)
        cr = re.search(r"else\s+if\s+b0\s*==\s*(" + LIT + r")", b)
        crlf = re.search(r"if\s+b1\s*!=\s*(" + LIT + r")", b)
        p8 = re.findall(r"self\.pos\s*=\s*pos\s*\+\s*(\d+)", b)
        return str(X.lit(lf.group(1))), lf.group(2), str(X.lit(cr.group(1))), str(X.lit(crlf.group(1))), p8[-1]
    g.attempt([("stream_lf", "N"), ("stream_after_lf", "N"), ("stream_cr", "N"), ("stream_cr_lf", "N"), ("stream_after_crlf", "N")],
              "lexer/mod.rs:next_stream", stream_kw)

    # ---- serializer (primitive.rs)
    def name_ser():
        b = X.fn_body(pr, "serialize_name")
        m = re.search(r"(" + LIT + r")\s*\.\.=\s*(" + LIT + r")\s+if\s+!b\"((?:\\.|[^\"\\])*)\"\.contains\(&b\)\s*=>\s*out\.write_all", b)
        excl = m.group(3).encode().decode("unicode_escape").encode("latin-1")
        esc = re.search(r'_\s*=>\s*write!\(out,\s*"#\{:02X\}"', b)
        if not esc:
            raise ValueError("escape arm changed")
        return str(X.lit(m.group(1))), str(X.lit(m.group(2))), X.cl(list(excl))
    g.attempt([("name_ser_raw_lo", "N"), ("name_ser_raw_hi", "N"), ("name_ser_raw_except", "list N")], "primitive.rs:serialize_name", name_ser)

    def str_ser():
        m = re.search(r"impl\s+PdfString\s*\{\s*pub\s+fn\s+serialize", pr)
        b = X.item_body(pr[m.start():], r"pub\s+fn\s+serialize\s*\(&self[^)]*\)\s*->\s*Result<\(\)>\s*\{", "PdfString::serialize")
        thr = re.search(r"any\(\|&b\|\s*b\s*>=\s*(" + LIT + r")\)", b)
        esc = re.search(r"((?:b'(?:\\.|[^'\\])'\s*\|\s*)*b'(?:\\.|[^'\\])')\s*=>\s*write!\(out,\s*r\"\\\"\)", b)
        cr = re.search(r"(" + LIT + r")\s*=>\s*\{[^{}]*write!\(out,\s*r\"\\r\"\)", b)
        return str(X.lit(thr.group(1))), X.cl(X.alt_set(esc.group(1))), str(X.lit(cr.group(1)))
    g.attempt([("str_ser_hex_from", "N"), ("str_ser_escaped", "list N"), ("str_ser_cr", "N")], "primitive.rs:PdfString::serialize", str_ser)
