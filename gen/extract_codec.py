"""gen/extract_codec.py — further tables of pdf/src/enc.rs (and stream.rs) for the Codec models (C05).

Everything here is re-read from the Rust source on every run; the lemmas in Codec/Tables.v that
state what the standard requires of these tables are closed by computation."""
import re

VARIANTS = ["ASCIIHexDecode", "ASCII85Decode", "LZWDecode", "FlateDecode", "JPXDecode", "DCTDecode",
            "CCITTFaxDecode", "JBIG2Decode", "Crypt", "RunLengthDecode"]
DECODERS = ["decode_hex", "decode_85", "lzw_decode", "flate_decode", "run_length_decode", "dct_decode"]


def cbytes(b):
    return "[" + "; ".join(str(x) for x in b) + "]"


def extract(g, X):
    enc = X.strip_comments(X.read("pdf/src/enc.rs"))
    stream = X.strip_comments(X.read("pdf/src/object/stream.rs"))
    filers = X.strip_comments(X.read("pdf/src/file.rs"))

    def bpc():
        b = X.fn_body(enc, "predictor_geometry")
        m = re.search(r"!matches!\(\s*params\.bits_per_component\s*,\s*([^)]*)\)", b)
        return "[" + "; ".join("%d%%Z" % v for v in X.alt_set(m.group(1))) + "]"
    g.attempt([("bpc_allowed", "list Z")], "enc.rs:predictor_geometry", bpc)

    def names():
        b = X.fn_body(enc, "from_kind_and_params")
        out = []
        for m in re.finditer(r'"(\w+)"\s*=>\s*StreamFilter::(\w+)', b):
            out.append("(%s, %d)" % (cbytes(m.group(1).encode()), VARIANTS.index(m.group(2))))
        if not out:
            raise ValueError("no arms")
        return "[" + "; ".join(out) + "]"
    g.attempt([("filter_names", "list (list N * N)")], "enc.rs:StreamFilter::from_kind_and_params", names)

    def arms():
        b = X.fn_body(enc, "decode")
        out = []
        for m in re.finditer(r"StreamFilter::(\w+)(?:\s*\([^)]*\))?\s*=>\s*(\w+)\s*\(", b):
            out.append("(%d, %d)" % (VARIANTS.index(m.group(1)), DECODERS.index(m.group(2))))
        if not out:
            raise ValueError("no arms")
        return "[" + "; ".join(out) + "]"
    g.attempt([("decode_arms", "list (N * N)")], "enc.rs:decode", arms)

    def pkeys():
        b = X.item_body(enc, r"pub\s+struct\s+LZWFlateParams\s*\{", "struct LZWFlateParams")
        out = []
        for m in re.finditer(r'#\[pdf\(key\s*=\s*"(\w+)"\s*,\s*default\s*=\s*"(-?\d+)"\)\]\s*pub\s+(\w+)\s*:\s*i32', b):
            out.append((m.group(1), int(m.group(2)), m.group(3)))
        fields = [f for _, _, f in out]
        if fields != ["predictor", "n_components", "bits_per_component", "columns", "early_change"]:
            raise ValueError("fields of LZWFlateParams: %r" % fields)
        return "[" + "; ".join("(%s, %d%%Z)" % (cbytes(k.encode()), d) for k, d, _ in out) + "]"
    g.attempt([("lzw_param_keys", "list (list N * Z)")], "enc.rs:LZWFlateParams", pkeys)

    def lzwcfg():
        # (early_change != 0) selects with_tiff_size_switch; both decoders Msb, symbol size
        b = X.fn_body(enc, "lzw_decode")
        m = re.search(r"if\s+params\.early_change\s*!=\s*0\s*\{\s*Decoder::with_tiff_size_switch\(BitOrder::Msb,\s*(\d+)\)\s*\}\s*else\s*\{\s*Decoder::new\(BitOrder::Msb,\s*(\d+)\)", b)
        return m.group(1), m.group(2)
    g.attempt([("lzw_sym_early", "N"), ("lzw_sym_plain", "N")], "enc.rs:lzw_decode", lzwcfg)

    def pairing():
        # stream.rs StreamInfo::from_primitive: keys read for the filter list and its parameters, and the
        # parameter looked up for filter i is decode_params.get(i)
        b = X.item_body(stream, r"impl<T:\s*Object>\s*Object\s+for\s+StreamInfo<T>\s*\{", "impl Object for StreamInfo")
        f = re.search(r'let\s+filters\s*=\s*Vec::<Name>::from_primitive\(\s*dict\.remove\("(\w+)"\)', b)
        d = re.search(r'let\s+decode_params\s*=\s*Vec::<Option<Dictionary>>::from_primitive\(\s*dict\.remove\("(\w+)"\)', b)
        i = re.search(r"for\s*\(i,\s*filter\)\s*in\s*filters\.iter\(\)\.enumerate\(\)\s*\{\s*let\s+params\s*=\s*match\s+decode_params\.get\((\w+)\)", b)
        if i.group(1) != "i":
            raise ValueError("parameter index is %s" % i.group(1))
        return cbytes(f.group(1).encode()), cbytes(d.group(1).encode())
    g.attempt([("key_filter", "list N"), ("key_parms", "list N")], "stream.rs:StreamInfo::from_primitive", pairing)
