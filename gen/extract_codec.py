"""gen/extract_codec.py — further tables of pdf/src/enc.rs (and stream.rs) for the Codec models (C05).

Everything here is re-read from the Rust source on every run; the lemmas in Codec/Tables.v that
state what the standard requires of these tables are closed by computation."""
import re

VARIANTS = ["ASCIIHexDecode", "ASCII85Decode", "LZWDecode", "FlateDecode", "JPXDecode", "DCTDecode",
            "CCITTFaxDecode", "JBIG2Decode", "Crypt", "RunLengthDecode"]
DECODERS = ["decode_hex", "decode_85", "lzw_decode", "flate_decode", "run_length_decode", "dct_decode"]


def cbytes(b):
    return "[" + "; ".join(str(x) for x in b) + "]"


def extract(g, X):
    enc = X.source("pdf/src/enc.rs")
    stream = X.source("pdf/src/object/stream.rs")
    filers = X.source("pdf/src/file.rs")

    def bpc():
        # the values of /BitsPerComponent that the geometry check lets through: the rejecting condition is evaluated for
        # 0..255 (whether it is spelled matches!, match, a hoisted `let ok = …`, a list `.contains`, …)
        b = X.inline_lets(X.fn_body(enc, "predictor_geometry"))
        path = re.search(r"\b(\w+\.bits_per_component)\b", b).group(1)
        conds = [(c, blk) for c, blk, _ in X.if_conditions(b) if path in c and re.match(r"\s*(bail!|return\s+Err|err!)", blk)]
        if len(conds) != 1:
            raise ValueError("rejecting condition on bits_per_component: %d found" % len(conds))
        rejected = X.guard_values(conds[0][0], path, enc, scopes=[b])
        return "[" + "; ".join("%d%%Z" % v for v in sorted(set(range(256)) - rejected)) + "]"
    g.attempt([("bpc_allowed", "list Z")], "enc.rs:predictor_geometry", bpc)

    def names():
        b = X.fn_body(enc, "from_kind_and_params")
        (kind,) = X.fn_params(enc, "from_kind_and_params")[:1]
        out = []
        for arm in X.match_arms(b, re.escape(kind)):
            m = re.match(r"StreamFilter::(\w+)", arm.expr)
            if not m or arm.guard is not None:
                continue
            for p in arm.pats:
                if re.fullmatch(r'"\w+"', p):
                    out.append((p[1:-1], VARIANTS.index(m.group(1))))
        if not out:
            raise ValueError("no arms")
        # string patterns are disjoint: their order in the source is immaterial; listed in the order of enum StreamFilter's names
        out = X.ordered_by_key(out, VARIANTS)
        return "[" + "; ".join("(%s, %d)" % (cbytes(n.encode()), v) for n, v in out) + "]"
    g.attempt([("filter_names", "list (list N * N)")], "enc.rs:StreamFilter::from_kind_and_params", names)

    def arms():
        b = X.fn_body(enc, "decode")
        out = []
        for arm in X.match_arms(b, r"\*?\w+"):
            m = re.match(r"(\w+)\s*\(", arm.expr)
            if not m or arm.guard is not None:
                continue
            for p in arm.pats:
                mp = re.fullmatch(r"StreamFilter::(\w+)(?:\s*\([^)]*\))?", p)
                if mp:
                    out.append((VARIANTS.index(mp.group(1)), DECODERS.index(m.group(1))))
        if not out:
            raise ValueError("no arms")
        out = X.ordered_by_key(out, [0, 1, 2, 3, 9, 5])
        return "[" + "; ".join("(%d, %d)" % r for r in out) + "]"
    g.attempt([("decode_arms", "list (N * N)")], "enc.rs:decode", arms)

    def pkeys():
        b = X.item_body(enc, r"pub\s+struct\s+LZWFlateParams\s*\{", "struct LZWFlateParams")
        out = []
        for m in re.finditer(r'#\[pdf\(key\s*=\s*"(\w+)"\s*,\s*default\s*=\s*"(-?\d+)"\)\]\s*pub\s+(\w+)\s*:\s*i32', b):
            out.append((m.group(1), int(m.group(2)), m.group(3)))
        fields = [f for _, _, f in out]
        if fields != ["predictor", "n_components", "bits_per_component", "columns", "early_change"]:
            raise ValueError("fields of LZWFlateParams: %r" % fields)
        return "[" + "; ".join("(%s, %d%%Z)" % (cbytes(k.encode()), d) for k, d, _ in out) + "]"
    g.attempt([("lzw_param_keys", "list (list N * Z)")], "enc.rs:LZWFlateParams", pkeys)

    def lzwcfg():
        # (early_change != 0) selects with_tiff_size_switch; both decoders Msb, symbol size
        b = X.fn_body(enc, "lzw_decode")
        # which decoder is built, as a function of /EarlyChange: the initialiser of the decoder is evaluated for 0 and 1
        # (`if ec != 0 {A} else {B}`, `if ec == 0 {B} else {A}`, a match …)
        path = re.search(r"\b(\w+\.early_change)\b", b).group(1)
        init = None
        for m in re.finditer(r"let\s+(?:mut\s+)?(\w+)\s*=\s*", b):
            cand = X.let_expr(b[m.start():], m.group(1)) or ""
            if path in cand and "Decoder::" in cand:
                init = cand
        t = X.tabulate(re.sub(re.escape(path), "__ec", init), "__ec", enc, scopes=[b], domain=(0, 1, 2))

        def size(o, ctor):
            mm = isinstance(o.value, X.rsx.Opaque) and re.fullmatch(r"Decoder::" + ctor + r"\(\s*BitOrder::Msb,\s*(\d+)\s*\)", o.value.text)
            if not mm or o.effects:
                raise ValueError("decoder for /EarlyChange: %r" % (o,))
            return mm.group(1)
        early, plain = size(t[1], "with_tiff_size_switch"), size(t[0], "new")
        if size(t[2], "with_tiff_size_switch") != early:
            raise ValueError("/EarlyChange 2")
        return early, plain
    g.attempt([("lzw_sym_early", "N"), ("lzw_sym_plain", "N")], "enc.rs:lzw_decode", lzwcfg)

    def pairing():
        # stream.rs StreamInfo::from_primitive: keys read for the filter list and its parameters, and the
        # parameter looked up for filter i is decode_params.get(i)
        b = X.item_body(stream, r"impl<T:\s*Object>\s*Object\s+for\s+StreamInfo<T>\s*\{", "impl Object for StreamInfo")
        f = re.search(r'let\s+(\w+)\s*=\s*Vec::<Name>::from_primitive\(\s*\w+\.remove\("(\w+)"\)', b)
        d = re.search(r'let\s+(\w+)\s*=\s*Vec::<Option<Dictionary>>::from_primitive\(\s*\w+\.remove\("(\w+)"\)', b)
        fl, dp = f.group(1), d.group(1)
        # the loop that pairs filter i with parameter i — in from_primitive or in the helper it calls with these two lists
        found = None
        for _, text in [("", b)] + X.instantiated_callees(b, stream):
            i = re.search(r"for\s*\(\s*(\w+)\s*,\s*\w+\s*\)\s*in\s*" + fl + r"\.iter\(\)\.enumerate\(\)\s*\{", text)
            if i:
                loop = X.item_body(text[i.start():], r"\{", "filter loop")
                gi = re.search(r"\b" + dp + r"\.get\(\s*(\w+)\s*\)", loop)
                if gi and "from_kind_and_params" in loop:
                    found = (i.group(1), gi.group(1))
                    break
        if not found:
            raise ValueError("pairing loop not found")
        if found[0] != found[1]:
            raise ValueError("parameter index is %s" % found[1])
        return cbytes(f.group(2).encode()), cbytes(d.group(2).encode())
    g.attempt([("key_filter", "list N"), ("key_parms", "list N")], "stream.rs:StreamInfo::from_primitive", pairing)
