"""gen/extract_typed.py — schemas of every #[derive(Object / ObjectWrite)] item, regenerated from the Rust sources
(DESIGN.md §5.1 row `schemas`, §9 C15/C18), plus the few constants of the missing-object path that C18 depends on.

Everything is emitted as plain nested lists/tuples of N (Generated.v knows no model types); Typed/Schema.v decodes.

  ty encoding (prefix code, list N):
    0 i32 | 1 u32 | 2 usize | 3 f32 | 4 bool | 5 Name | 6 PdfString | 7 Primitive | 8 Dictionary | 9 Ref<_>/PlainRef | 10 ()
    20 Option t | 21 Vec t | 22 HashMap<Name,t> | 23 (a, b) | 24 Box t | 25 MaybeRef t | 26 RcRef t | 27 Lazy t
    30 struct idx | 31 name-enum idx | 32 int-enum idx | 33 hand-written / unmodelled type idx (typed_hand_names)
  default encoding: (kind, payload)   0 none | 1 integer [neg, abs] | 2 bool [b] | 3 f32 [bits] | 4 vec![0, <field>] [field idx]
                                      5 enum variant [enum idx, variant idx] | 9 not understood
  field flags: 1 other | 2 indirect | 4 skip
  struct flags: 1 Object derived | 2 ObjectWrite derived | 4 is_stream
"""
import os, re, struct

# modelled hand-written pairs keep fixed indices 0..6 (Typed/Hand.v hid_*)
HAND_FIRST = ["Date", "Rectangle", "Matrix", "Action", "NameTree<Primitive>", "PagesRc", "Encoding"]

PRIMS = {"i32": 0, "u32": 1, "usize": 2, "f32": 3, "bool": 4, "Name": 5, "PdfString": 6, "Primitive": 7,
         "Dictionary": 8, "PlainRef": 9, "()": 10}
WRAP1 = {"Option": 20, "Vec": 21, "Box": 24, "MaybeRef": 25, "RcRef": 26, "Lazy": 27}


def split_top(s, sep=","):
    out, depth, cur = [], 0, []
    i = 0
    while i < len(s):
        c = s[i]
        if c in "<([{":
            depth += 1
        elif c in ">)]}":
            if c == ">" and i > 0 and s[i - 1] in "-=":
                pass
            else:
                depth -= 1
        if c == sep and depth == 0:
            out.append("".join(cur))
            cur = []
        elif c == '"':
            j = i + 1
            while j < len(s) and s[j] != '"':
                if s[j] == "\\":
                    j += 1
                j += 1
            cur.append(s[i:j + 1])
            i = j
        else:
            cur.append(c)
        i += 1
    if "".join(cur).strip():
        out.append("".join(cur))
    return out


def parse_pdf_attr(text):
    """'key="X", default="1", other' -> dict"""
    d = {}
    for part in split_top(text):
        part = part.strip()
        if not part:
            continue
        m = re.fullmatch(r'([\w:]+)\s*=\s*"((?:\\.|[^"\\])*)"', part, flags=re.S)
        if m:
            d[m.group(1)] = m.group(2).replace('\\"', '"')
        else:
            d[part] = True
    return d


def take_attrs(s, i):
    """consume #[...] attributes (and whitespace) starting at i; returns (list of attr texts, new i)"""
    attrs = []
    n = len(s)
    while True:
        while i < n and s[i].isspace():
            i += 1
        if s.startswith("#[", i):
            depth, j = 0, i + 1
            while j < n:
                if s[j] == "[":
                    depth += 1
                elif s[j] == "]":
                    depth -= 1
                    if depth == 0:
                        break
                elif s[j] == '"':
                    j += 1
                    while j < n and s[j] != '"':
                        if s[j] == "\\":
                            j += 1
                        j += 1
                j += 1
            attrs.append(s[i + 2:j])
            i = j + 1
        else:
            return attrs, i


def pdf_attrs(attrs):
    d = {}
    for a in attrs:
        m = re.fullmatch(r"\s*pdf\s*\((.*)\)\s*", a, flags=re.S)
        if m:
            d.update(parse_pdf_attr(m.group(1)))
    return d


def scan(X, repo):
    """all derive items: dict name -> item"""
    items = {}
    order = []
    for base, _, fs in sorted(os.walk(os.path.join(repo, "pdf", "src"))):
        for f in sorted(fs):
            if not f.endswith(".rs"):
                continue
            rel = os.path.relpath(os.path.join(base, f), repo)
            src = X.source(rel)
            for m in re.finditer(r"#\[derive\(([^)]*)\)\]", src):
                ds = [d.strip() for d in m.group(1).split(",")]
                if "Object" not in ds and "ObjectWrite" not in ds:
                    continue
                attrs, i = take_attrs(src, m.start())
                hm = re.compile(r"(?:pub(?:\s*\([^)]*\))?\s+)?(struct|enum)\s+(\w+)\s*(<[^>{]*>)?\s*(?:where[^{]*)?\{").match(src, i)
                if not hm:
                    continue
                kind, name, gen = hm.group(1), hm.group(2), hm.group(3)
                body = X.item_body(src, re.escape(hm.group(0)), "item " + name)
                params = []
                if gen:
                    params = [p.strip().split(":")[0].strip() for p in split_top(gen[1:-1]) if p.strip() and not p.strip().startswith("'")]
                it = {"kind": kind, "name": name, "params": params, "attrs": pdf_attrs(attrs), "file": rel,
                      "read": "Object" in ds, "write": "ObjectWrite" in ds, "body": body}
                items[name] = it
                order.append(name)
    return items, order


def parse_fields(body):
    out = []
    i = 0
    while True:
        attrs, i = take_attrs(body, i)
        if i >= len(body):
            break
        # up to the next top-level comma
        rest = body[i:]
        parts = split_top(rest)
        if not parts:
            break
        first = parts[0]
        i += len(first) + 1
        txt = first.strip()
        if not txt:
            continue
        m = re.fullmatch(r"(?:pub(?:\s*\([^)]*\))?\s+)?(\w+)\s*:\s*(.+)", txt, flags=re.S)
        if not m:
            raise ValueError("field syntax: " + txt[:60])
        out.append({"name": m.group(1), "type": " ".join(m.group(2).split()), "attrs": pdf_attrs(attrs)})
    return out


def parse_variants(body):
    out = []
    i = 0
    while True:
        attrs, i = take_attrs(body, i)
        if i >= len(body):
            break
        parts = split_top(body[i:])
        if not parts:
            break
        first = parts[0]
        i += len(first) + 1
        txt = first.strip()
        if not txt:
            continue
        m = re.fullmatch(r"(\w+)\s*(\(.*\)|\{.*\})?\s*(?:=\s*(-?\s*\w+))?", txt, flags=re.S)
        if not m:
            raise ValueError("variant syntax: " + txt[:60])
        out.append({"name": m.group(1), "payload": m.group(2), "disc": m.group(3), "attrs": pdf_attrs(attrs)})
    return out


class Schemas:
    def __init__(self, X, repo):
        self.X = X
        self.items, self.order = scan(X, repo)
        self.structs = []        # instantiated struct schemas (dict)
        self.struct_idx = {}     # instantiated name -> idx
        self.nenums, self.ienums = [], []
        self.nenum_idx, self.ienum_idx = {}, {}
        self.hands = list(HAND_FIRST)
        self.pending = []

    def hand(self, name):
        if name not in self.hands:
            self.hands.append(name)
        return [33, self.hands.index(name)]

    def enum_of(self, name):
        it = self.items[name]
        if it["attrs"].get("is_stream"):
            return self.hand(name)
        vs = parse_variants(it["body"])
        if any(v["disc"] is not None for v in vs):
            if name not in self.ienum_idx:
                self.ienum_idx[name] = len(self.ienums)
                self.ienums.append({"name": name, "read": it["read"], "write": it["write"],
                                    "variants": [(v["name"], int(v["disc"].replace(" ", ""), 0)) for v in vs]})
            return [32, self.ienum_idx[name]]
        if name not in self.nenum_idx:
            self.nenum_idx[name] = len(self.nenums)
            pairs, other = [], None
            for v in vs:
                if v["attrs"].get("other"):
                    other = v["name"]
                else:
                    pairs.append((v["name"], v["attrs"].get("name", v["name"])))
            self.nenums.append({"name": name, "read": it["read"], "write": it["write"], "pairs": pairs, "other": other})
        return [31, self.nenum_idx[name]]

    def struct_of(self, name, args):
        it = self.items[name]
        if it["attrs"].get("is_stream"):
            return self.hand(name + ("<" + ",".join(args) + ">" if args else ""))
        inst = name + ("<" + ", ".join(args) + ">" if args else "")
        if inst not in self.struct_idx:
            self.struct_idx[inst] = len(self.structs)
            s = {"name": inst, "item": name, "file": it["file"], "read": it["read"], "write": it["write"], "attrs": it["attrs"], "fields": None}
            self.structs.append(s)
            self.pending.append((s, it, dict(zip(it["params"], args))))
        return [30, self.struct_idx[inst]]

    def ty(self, t, subst=None):
        t = t.strip()
        if subst and t in subst:
            return self.ty(subst[t])
        if t in PRIMS:
            return [PRIMS[t]]
        if t.startswith("(") and t.endswith(")"):
            parts = [p.strip() for p in split_top(t[1:-1]) if p.strip()]
            if len(parts) == 2:
                return [23] + self.ty(parts[0], subst) + self.ty(parts[1], subst)
            return self.hand(t)
        m = re.fullmatch(r"([\w:]+)\s*<(.*)>", t, flags=re.S)
        if m:
            head, args = m.group(1).split("::")[-1], [a.strip() for a in split_top(m.group(2))]
            if subst:
                args = [subst.get(a, a) for a in args]
            if head in WRAP1 and len(args) == 1:
                return [WRAP1[head]] + self.ty(args[0], subst)
            if head == "Ref" and len(args) == 1:
                return [9]
            if head == "HashMap" and len(args) == 2 and args[0] == "Name":
                return [22] + self.ty(args[1], subst)
            if head in self.items and self.items[head]["kind"] == "struct":
                # substitute inside the arguments textually, then instantiate
                return self.struct_of(head, [self.subst_text(a, subst) for a in args])
            return self.hand(self.subst_text(t, subst))
        name = t.split("::")[-1]
        if name in self.items:
            it = self.items[name]
            if it["kind"] == "enum":
                return self.enum_of(name)
            if not it["params"]:
                return self.struct_of(name, [])
        return self.hand(t)

    @staticmethod
    def subst_text(t, subst):
        if not subst:
            return t
        for k, v in subst.items():
            t = re.sub(r"\b%s\b" % re.escape(k), v, t)
        return t

    def default(self, expr, fields_so_far, fty):
        e = expr.strip()
        m = re.fullmatch(r"(-?)\s*(\d+)(?:_?[iu](?:8|16|32|64|size))?", e)
        if m and fty and fty[0] == 3:
            return (3, [struct.unpack(">I", struct.pack(">f", float(e)))[0]])
        if m:
            return (1, [1 if m.group(1) else 0, int(m.group(2))])
        if e in ("true", "false"):
            return (2, [1 if e == "true" else 0])
        if re.fullmatch(r"-?\d+\.\d*(?:_?f32)?|-?\d*\.\d+(?:_?f32)?", e):
            return (3, [struct.unpack(">I", struct.pack(">f", float(e.replace("f32", "").replace("_", ""))))[0]])
        m = re.fullmatch(r"vec!\[\s*0\s*,\s*(\w+)\s*\]", e)
        if m and m.group(1) in fields_so_far:
            return (4, [fields_so_far.index(m.group(1))])
        m = re.fullmatch(r"(\w+)::(\w+)", e)
        if m and m.group(1) in self.items and self.items[m.group(1)]["kind"] == "enum":
            code = self.enum_of(m.group(1))
            if code[0] == 31:
                names = [p[0] for p in self.nenums[code[1]]["pairs"]]
                if m.group(2) in names:
                    return (5, [code[1], names.index(m.group(2))])
        return (9, [])

    def run(self):
        for name in self.order:
            it = self.items[name]
            if it["kind"] == "enum":
                self.enum_of(name)
            elif not it["params"]:
                self.struct_of(name, [])
        while self.pending:
            s, it, subst = self.pending.pop(0)
            fs = []
            names = []
            for f in parse_fields(it["body"]):
                a = f["attrs"]
                flags = (1 if a.get("other") else 0) | (2 if a.get("indirect") else 0) | (4 if a.get("skip") else 0)
                ty = self.ty(f["type"], subst) if not (flags & 5) else ([8] if flags & 1 else [10])
                dflt = self.default(a["default"], names, ty) if "default" in a else (0, [])
                fs.append({"name": f["name"], "key": a.get("key", ""), "ty": ty, "default": dflt, "flags": flags,
                           "rust_type": self.subst_text(f["type"], subst), "default_src": a.get("default")})
                names.append(f["name"])
            s["fields"] = fs
        return self


# ------------------------------------------------------------------------------------------------ Coq rendering

def cbytes(s):
    b = s.encode("utf-8") if isinstance(s, str) else s
    return "[" + "; ".join(str(x) for x in b) + "]"


def clist(xs):
    return "[" + "; ".join(xs) + "]"


def render(S):
    structs = []
    for s in S.structs:
        a = s["attrs"]
        tn = a.get("Type")
        if tn is None:
            tname, tmode = "", 0
        elif tn.endswith("?"):
            tname, tmode = tn[:-1], 1
        else:
            tname, tmode = tn, 2
        checks = [(k, v) for k, v in a.items() if k not in ("Type", "is_stream", "key") and isinstance(v, str)]
        flags = (1 if s["read"] else 0) | (2 if s["write"] else 0) | (4 if a.get("is_stream") else 0)
        fields = []
        for f in s["fields"]:
            fields.append("(%s, %s, %s, (%d, %s), %d)" % (cbytes(f["name"]), cbytes(f["key"]), clist(str(x) for x in f["ty"]),
                                                       f["default"][0], clist(str(x) for x in f["default"][1]), f["flags"]))
        structs.append("(%s, (%s, %d), %s, %s, %d)" % (cbytes(s["name"]), cbytes(tname), tmode,
                                                   clist("(%s, %s)" % (cbytes(k), cbytes(v)) for k, v in checks),
                                                   clist(fields), flags))
    nen = []
    for e in S.nenums:
        nen.append("(%s, %s, %d, %d)" % (cbytes(e["name"]), clist("(%s, %s)" % (cbytes(v), cbytes(n)) for v, n in e["pairs"]),
                                       1 if e["other"] else 0, (1 if e["read"] else 0) | (2 if e["write"] else 0)))
    ien = []
    for e in S.ienums:
        ien.append("(%s, %s, %d)" % (cbytes(e["name"]),
                                   clist("(%s, (%d, %d))" % (cbytes(v), 1 if d < 0 else 0, abs(d)) for v, d in e["variants"]),
                                   (1 if e["read"] else 0) | (2 if e["write"] else 0)))
    return ("\n    " + ";\n    ".join(structs) if structs else ""), nen, ien


FIELD_T = "(list N * list N * list N * (N * list N) * N)"
STRUCT_T = "list (list N * (list N * N) * list (list N * list N) * list %s * N)" % FIELD_T
NENUM_T = "list (list N * list (list N * list N) * N * N)"
IENUM_T = "list (list N * list (list N * (N * N)) * N)"


def schemas(X):
    return Schemas(X, X.REPO).run()


def extract(g, X):
    cache = {}

    def get():
        if "S" not in cache:
            cache["S"] = schemas(X)
        return cache["S"]

    def f_structs():
        S = get()
        st, nen, ien = render(S)
        if not S.structs:
            raise ValueError("no derived structs found")
        return "[" + st + "]", "[" + ";\n    ".join(nen) + "]", "[" + ";\n    ".join(ien) + "]", "[" + "; ".join(cbytes(h) for h in S.hands) + "]"
    g.attempt([("typed_structs", STRUCT_T), ("typed_name_enums", NENUM_T), ("typed_int_enums", IENUM_T),
               ("typed_hand_names", "list (list N)")], "pdf_derive: #[derive(Object, ObjectWrite)] items", f_structs)

    # ---- the missing-object path (C18) --------------------------------------------------------------------------
    obj = X.source("pdf/src/object/mod.rs")
    filers = X.source("pdf/src/file.rs")
    xref = X.source("pdf/src/xref.rs")
    err = X.source("pdf/src/error.rs")

    def opts():
        out = []
        for name in ("tolerant", "strict"):
            b = X.fn_body(obj, name)
            m = re.search(r"allow_error_in_option\s*:\s*(true|false)", b)
            out.append(m.group(1))
        return tuple(out)
    g.attempt([("opt_tolerant_allow_error_in_option", "bool"), ("opt_strict_allow_error_in_option", "bool")],
              "object/mod.rs:ParseOptions::{tolerant,strict}", opts)

    def option_reader():
        """which errors Option<T>::from_primitive turns into None, and whether it looks through wrappers.
        codes: 1 NullRef, 2 FreeObject, 3 UnspecifiedXRefEntry;  look-through: 1 iff the match is on a predicate
        method of PdfError (is_missing_object) instead of on the bare constructor."""
        m = re.search(r"impl\s*<\s*T\s*:\s*Object\s*>\s*Object\s+for\s+Option\s*<\s*T\s*>\s*\{", obj)
        body = X.item_body(obj, r"impl\s*<\s*T\s*:\s*Object\s*>\s*Object\s+for\s+Option\s*<\s*T\s*>\s*\{", "impl Object for Option<T>")
        codes = {"NullRef": 1, "FreeObject": 2, "UnspecifiedXRefEntry": 3}
        direct = [codes[c] for c in re.findall(r"Err\(\s*PdfError::(\w+)\s*\{\s*\.\.\s*\}\s*\)\s*=>\s*Ok\(None\)", body) if c in codes]
        pm = re.search(r"Err\(\s*(?:ref\s+)?(\w+)\s*\)\s+if\s+\1\.(\w+)\(\)\s*=>\s*Ok\(None\)", body)
        look, through = [], []
        if pm:
            pb = X.fn_body(err, pm.group(2))
            look = [codes[c] for c in re.findall(r"PdfError::(\w+)\s*\{\s*\.\.\s*\}", pb) if c in codes]
            through = [w for w in ("Try", "Shared", "FromPrimitive") if re.search(r"PdfError::%s\s*\{[^}]*\}\s*=>\s*\w+\.%s\(\)" % (w, pm.group(2)), pb)]
        # the null object reads as None before T is tried: `Primitive::Null => Ok(None)` as a match arm or as an early
        # `if let Primitive::Null = p { return Ok(None); }`
        (pp,) = X.fn_params(body, "from_primitive")[:1]
        nulls = [a for a in X.match_arms(body, re.escape(pp)) if a.pattern == "Primitive::Null" and a.guard is None
                 and re.fullmatch(r"(?:return\s+)?Ok\(\s*None\s*\)\s*;?", a.expr)]
        if not nulls or body.index("Primitive::Null") > body.index("T::from_primitive"):
            raise ValueError("Null arm")
        if not re.search(r"if\s+resolve\.options\(\)\.allow_error_in_option\s*=>", body):
            raise ValueError("tolerant arm")
        wr = {"Try": 1, "Shared": 2, "FromPrimitive": 4}
        return X.cl(sorted(set(direct))), X.cl(sorted(set(look))), str(sum(wr[w] for w in through))
    g.attempt([("option_none_bare", "list N"), ("option_none_through", "list N"), ("option_through_wrappers", "N")],
              "object/mod.rs:impl Object for Option<T>", option_reader)

    def resolve_ref():
        b = X.fn_body(filers, "resolve_ref")
        try_get = "true" if re.search(r"t!\(\s*self\.refs\.get\(", b) else "false"
        free = re.search(r"XRef::Free\s*\{\s*\.\.\s*\}\s*=>\s*err!\(\s*PdfError::(\w+)", b).group(1)
        inv = re.search(r"XRef::Invalid\s*=>\s*err!\(\s*PdfError::(\w+)", b).group(1)
        codes = {"NullRef": 1, "FreeObject": 2, "UnspecifiedXRefEntry": 3}
        gb = X.fn_body(xref, "get")
        # a missing entry: `None => Err(E)` or `.ok_or(E)` / `.ok_or_else(|| E)`
        none = re.match(r"PdfError::(\w+)", X.none_error(gb)).group(1)
        return try_get, str(codes[free]), str(codes[inv]), str(codes[none])
    g.attempt([("resolve_ref_get_in_try", "bool"), ("resolve_ref_free_err", "N"), ("resolve_ref_invalid_err", "N"), ("xref_get_none_err", "N")],
              "file.rs:resolve_ref / xref.rs:get", resolve_ref)

    def getfn():
        i = re.search(r"impl\s*<[^>]*>\s*Resolve\s+for\s+StorageResolver\b", filers).start()
        b = X.fn_body(filers[i:], "get")
        # the arm may carry a guard (`Err(e) if computed => …`: the error computed by this very load)
        shared = "true" if re.search(r"Err\(\s*\w+\s*\)\s*(?:if\s+[^=]*?)?=>\s*Err\(\s*PdfError::Shared\s*\{", b) else "false"
        return shared
    g.attempt([("get_wraps_shared", "bool")], "file.rs:StorageResolver::get", getfn)

    # ---- readers that follow a reference / treat a missing element as null (C18-b, C18-c) -------------------------
    derive = X.source("pdf_derive/src/lib.rs")
    content = X.source("pdf/src/content.rs")

    def enum_readers():
        """does the generated Object impl of an integer / a name enum resolve the primitive before matching it"""
        b = X.fn_body(derive, "impl_object_for_enum")
        out = []
        for arm in (r"pdf::primitive::Primitive::Integer\s*\(\s*i\s*\)\s*=>", r"pdf::primitive::Primitive::Name\s*\(\s*name\s*\)\s*=>"):
            m = re.search(arm, b)
            if not m:
                raise ValueError("enum arm")
            head = b[:m.start()]
            scrut = head[head.rindex("match"):]           # `match <scrutinee> {` just before the arm
            out.append("true" if re.search(r"\bp\s*\.\s*resolve\s*\(\s*resolve\s*\)\s*\?", scrut) else "false")
        return tuple(out)
    g.attempt([("int_enum_reader_resolves", "bool"), ("name_enum_reader_resolves", "bool")],
              "pdf_derive: impl_object_for_enum", enum_readers)

    def matrix_reader():
        b = X.item_body(content, r"impl\s+Object\s+for\s+Matrix\s*\{", "impl Object for Matrix")
        return "true" if re.search(r"\bp\s*\.\s*resolve\s*\(\s*\w+\s*\)\s*\?\s*\.\s*into_array", b) else "false"
    g.attempt([("matrix_reader_resolves", "bool")], "content.rs:impl Object for Matrix", matrix_reader)

    def vec_reader():
        """Vec<T>::from_primitive: an element that is a reference and fails with a missing-object error is read as Null
        (kept when T accepts Null, left out otherwise)"""
        b = X.item_body(obj, r"impl\s*<\s*T\s*:\s*Object\s*>\s*Object\s+for\s+Vec\s*<\s*T\s*>\s*\{", "impl Object for Vec<T>")
        guard = re.search(r"Err\(\s*(\w+)\s*\)\s+if\s+(\w+)\s*&&\s*\1\.is_missing_object\(\)\s*=>", b)
        isref = False
        if guard:
            # `let is_ref = matches!(p, Primitive::Reference(_));` or the same test as a match with true / false arms
            test = X.let_expr(b, guard.group(2))
            try:
                accepted, _ = X.variant_pred(test, ["Reference", "Null", "Integer", "Number", "Boolean", "String", "Stream",
                                                    "Dictionary", "Array", "Name"])
                isref = [v for v, t in accepted.items() if t] == ["Reference"]
            except (ValueError, KeyError, TypeError):
                isref = False
        null = re.search(r"if\s+let\s+Ok\(\s*(\w+)\s*\)\s*=\s*T::from_primitive\(\s*Primitive::Null\s*,\s*\w+\s*\)\s*\{\s*\w+\.push\(\s*\1\s*\)", b)
        return "true" if (guard and isref and null) else "false"
    g.attempt([("vec_missing_element_null", "bool")], "object/mod.rs:impl Object for Vec<T>", vec_reader)

    # ---- font.rs: FontData::mapped_keys — the keys Font's writer never takes from `_other` (fix C15-e) ----------------
    font = X.source("pdf/src/font.rs")

    def font_keys():
        b = X.fn_body(font, "mapped_keys")
        out = []
        for variants in (r"FontData::Type1\(_\)\s*\|\s*FontData::TrueType\(_\)", r"FontData::Type0\(_\)"):
            m = re.search(variants + r"\s*=>\s*Some\(\s*&\[([^\]]*)\]\s*\)", b)
            if not m:
                raise ValueError("mapped_keys arm")
            out.append("[" + "; ".join(cbytes(k) for k in re.findall(r'"([^"]*)"', m.group(1))) + "]")
        if not re.search(r"_\s*=>\s*None", b):
            raise ValueError("mapped_keys default arm")
        fb = X.item_body(font, r"impl\s+ObjectWrite\s+for\s+Font\s*\{", "impl ObjectWrite for Font")
        merged = re.search(r"if\s+let\s+Some\(\s*mapped\s*\)\s*=\s*self\.data\.mapped_keys\(\)\s*\{\s*for\s*\(\s*key\s*,\s*value\s*\)\s*in\s+self\._other\.iter\(\)\s*\{\s*"
                           r"if\s*!mapped\.contains\(&key\.as_str\(\)\)\s*&&\s*dict\.get\(key\.as_str\(\)\)\.is_none\(\)\s*\{\s*dict\.insert\(key\.clone\(\),\s*value\.clone\(\)\)", fb)
        return out[0], out[1], ("true" if merged else "false")
    g.attempt([("font_mapped_keys_tfont", "list (list N)"), ("font_mapped_keys_type0", "list (list N)"), ("font_writer_merges_other", "bool")],
              "font.rs:FontData::mapped_keys / impl ObjectWrite for Font", font_keys)
