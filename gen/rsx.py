"""gen/rsx.py — a small reader and evaluator for the subset of Rust that the translator's anchors are written in
(DESIGN.md §13, round 2).  Not a Rust parser: a tokenizer, a Pratt parser for expressions / patterns / blocks that keeps
everything it does not understand as an OPAQUE node (with its source text), and an evaluator over concrete small values
(integers, booleans, Option / Result / tuples, byte strings) that

  * follows calls into fns of the same source text (any depth up to a limit, arguments bound to parameters),
  * treats `match`, `if / else if` chains, `if let`, `matches!`, `let … else` as what they compute, not how they are written,
  * records every statement it cannot interpret as an EFFECT (normalised text) and every way of leaving (return / break /
    bail! / err! / panic!) as an OUTCOME,
  * raises Unknown as soon as a decision would depend on something opaque — it never guesses.

The extractors use it to tabulate small functions (a predicate or a digit-value function over the 256 bytes, a guard over
a few integers around its threshold), which makes the generated tables independent of helper extraction, arm order,
polarity of a test, early return vs nesting and literal spelling.
"""
import re

ESC = {"n": 10, "r": 13, "t": 9, "0": 0, "\\": 92, "'": 39, '"': 34}


class Unknown(Exception):
    """the evaluation needs the value of something opaque"""


# ----------------------------------------------------------------------------------------------------------------------
# tokens

TOKEN = re.compile(r"""
    (?P<ws>\s+|//[^\n]*|/\*.*?\*/)
  | (?P<rawstr>b?r(?P<h>\#*)".*?"(?P=h))
  | (?P<str>b?"(?:\\.|[^"\\])*")
  | (?P<chr>b?'(?:\\x[0-9a-fA-F]{2}|\\u\{[0-9a-fA-F]+\}|\\.|[^'\\])')
  | (?P<life>'[A-Za-z_]\w*)
  | (?P<num>0x[0-9a-fA-F_]+(?:[iu](?:8|16|32|64|128|size))?|0o[0-7_]+(?:[iu](?:8|16|32|64|128|size))?|0b[01_]+(?:[iu](?:8|16|32|64|128|size))?
            |\d[\d_]*\.\d[\d_]*(?:[eE][+-]?\d+)?(?:_?f(?:32|64))?|\d[\d_]*(?:_?(?:[iu](?:8|16|32|64|128|size)|f32|f64))?)
  | (?P<id>[A-Za-z_]\w*)
  | (?P<op>\.\.=|\.\.\.|<<=|>>=|\.\.|::|->|=>|==|!=|<=|>=|&&|\|\||<<|>>|\+=|-=|\*=|/=|%=|\^=|&=|\|=|[-+*/%^!&|=<>@.,;:\#$?~(){}\[\]])
""", re.S | re.X)


class Tok:
    __slots__ = ("kind", "text", "pos", "end")

    def __init__(self, kind, text, pos, end):
        self.kind, self.text, self.pos, self.end = kind, text, pos, end

    def __repr__(self):
        return "%s:%r" % (self.kind, self.text)


def tokenize(src):
    out, i, n = [], 0, len(src)
    while i < n:
        m = TOKEN.match(src, i)
        if not m:
            raise Unknown("cannot tokenize at %r" % src[i:i + 20])
        k = m.lastgroup
        if k == "h":
            k = "rawstr"
        if k != "ws":
            out.append(Tok("str" if k == "rawstr" else k, m.group(0), i, m.end()))
        i = m.end()
    return out


def int_of(text):
    t = text.strip()
    m = re.fullmatch(r"b'(\\x[0-9a-fA-F]{2}|\\.|[^'\\])'", t)
    if m:
        c = m.group(1)
        if c.startswith("\\x"):
            return int(c[2:], 16)
        if c.startswith("\\"):
            return ESC[c[1]]
        return ord(c)
    m = re.fullmatch(r"'(\\.|[^'\\])'", t)
    if m:
        c = m.group(1)
        return ESC[c[1]] if c.startswith("\\") else ord(c)
    t = re.sub(r"_?[iu](?:8|16|32|64|128|size)$", "", t).replace("_", "")
    low = t.lower()
    if low.startswith("0x"):
        return int(t, 16)
    if low.startswith("0o"):
        return int(t[2:], 8)
    if low.startswith("0b"):
        return int(t[2:], 2)
    return int(t)


def str_bytes(tok):
    m = re.fullmatch(r'b?"((?:\\.|[^"\\])*)"', tok, flags=re.S)
    if not m:
        m = re.fullmatch(r'b?r(#*)"(.*)"\1', tok, flags=re.S)
        return list(m.group(2).encode("utf-8"))
    s, out, i = m.group(1), [], 0
    while i < len(s):
        if s[i] == "\\":
            if s[i + 1] == "x":
                out.append(int(s[i + 2:i + 4], 16))
                i += 4
                continue
            if s[i + 1] == "\n":                     # line continuation
                i += 2
                while i < len(s) and s[i].isspace():
                    i += 1
                continue
            out.append(ESC[s[i + 1]])
            i += 2
        else:
            out += list(s[i].encode("utf-8"))
            i += 1
    return out


# ----------------------------------------------------------------------------------------------------------------------
# AST: tuples (kind, ...); every node built by the parser carries its source span through Parser.text(node)

class N(tuple):
    """AST node: N(kind, *fields) with .span = (start, end) in the source"""
    def __new__(cls, kind, *fields, span=(0, 0)):
        o = tuple.__new__(cls, (kind,) + fields)
        o.span = span
        return o

    @property
    def kind(self):
        return self[0]


TYPE_SIZE = {"u8": 1, "i8": 1, "u16": 2, "i16": 2, "u32": 4, "i32": 4, "f32": 4, "u64": 8, "i64": 8, "f64": 8, "usize": 8, "isize": 8,
             "u128": 16, "i128": 16}
BINPREC = {"||": 1, "&&": 2, "==": 3, "!=": 3, "<": 3, ">": 3, "<=": 3, ">=": 3, "|": 4, "^": 5, "&": 6, "<<": 7, ">>": 7,
           "+": 8, "-": 8, "*": 9, "/": 9, "%": 9}
ASSIGN = {"=", "+=", "-=", "*=", "/=", "%=", "^=", "&=", "|=", "<<=", ">>="}
DIVERGING_MACROS = {"bail", "err", "panic", "unreachable", "unimplemented", "todo"}


class Parser:
    def __init__(self, src):
        self.src = src
        self.toks = tokenize(src)
        self.i = 0

    # -- token helpers
    def peek(self, k=0):
        j = self.i + k
        return self.toks[j] if j < len(self.toks) else Tok("eof", "", len(self.src), len(self.src))

    def at(self, text, k=0):
        return self.peek(k).text == text and self.peek(k).kind in ("op", "id")

    def next(self):
        t = self.peek()
        if t.kind == "eof":
            self.eofs = getattr(self, "eofs", 0) + 1
            if self.eofs > 3:
                raise Unknown("unexpected end of input")
        self.i += 1
        return t

    def expect(self, text):
        t = self.next()
        if t.text != text:
            raise Unknown("expected %r, found %r near %r" % (text, t.text, self.src[max(0, t.pos - 30):t.pos + 10]))
        return t

    def text(self, node):
        return self.src[node.span[0]:node.span[1]]

    def mk(self, kind, start, *fields):
        end = self.toks[self.i - 1].end if self.i > 0 else start
        return N(kind, *fields, span=(start, end))

    def skip_balanced(self):
        """consume one bracketed group starting at the current opening bracket; returns (start, end) of its inside"""
        opening = self.next()
        close = {"(": ")", "[": "]", "{": "}", "<": ">"}[opening.text]
        depth = 1
        inner_start = opening.end
        while depth:
            t = self.next()
            if t.kind == "eof":
                raise Unknown("unbalanced")
            if t.kind == "op":
                if t.text == opening.text:
                    depth += 1
                elif t.text == close:
                    depth -= 1
                elif opening.text == "<" and t.text == ">>":
                    depth -= 2
                elif opening.text == "<" and t.text in ("(", "[", "{"):
                    self.i -= 1
                    self.skip_balanced()
        return inner_start, self.toks[self.i - 1].pos

    # -- blocks and statements
    def parse_block_body(self, end_text="}"):
        """statements up to (not including) end_text / eof: ('block', [stmts], tail expr or None)"""
        start = self.peek().pos
        stmts, tail = [], None
        while not (self.peek().kind == "eof" or (self.at(end_text) and self.peek().kind == "op")):
            if self.at(";"):
                self.next()
                continue
            s = self.parse_stmt()
            if self.at(";"):
                self.next()
                stmts.append(s)
            elif self.peek().kind == "eof" or self.at(end_text):
                if s.kind in ("let", "item", "assign"):
                    stmts.append(s)
                else:
                    tail = s
            else:
                stmts.append(s)          # block-like expression statement without `;`
        return self.mk("block", start, stmts, tail)

    def parse_braced_block(self):
        self.expect("{")
        b = self.parse_block_body("}")
        self.expect("}")
        return b

    def parse_stmt(self):
        start = self.peek().pos
        t = self.peek()
        while t.text == "#" and self.peek(1).text == "[":       # attributes
            self.next()
            self.skip_balanced()
            t = self.peek()
        if t.kind == "id" and t.text == "let":
            self.next()
            pat = self.parse_pattern()
            if self.at(":"):
                self.next()
                self.skip_type()
            init = els = None
            if self.at("="):
                self.next()
                init = self.parse_expr()
                if self.at("else"):
                    self.next()
                    els = self.parse_braced_block()
            return self.mk("let", start, pat, init, els)
        if t.kind == "id" and t.text in ("use", "const", "static", "fn", "struct", "enum", "impl", "type", "mod", "trait"):
            # items inside a body: skipped (fns are found through the source text when called)
            if t.text in ("use", "const", "static", "type"):
                while not self.at(";") and self.peek().kind != "eof":
                    if self.peek().text in ("(", "[", "{"):
                        self.skip_balanced()
                    else:
                        self.next()
                return self.mk("item", start, t.text)
            while not self.at("{") and self.peek().kind != "eof":
                if self.peek().text in ("(", "[") or (self.peek().text == "<" and False):
                    self.skip_balanced()
                elif self.at(";"):
                    return self.mk("item", start, t.text)
                else:
                    self.next()
            self.skip_balanced()
            return self.mk("item", start, t.text)
        if (t.kind == "id" and t.text in ("if", "match", "loop", "while", "for", "unsafe")) or (t.kind == "op" and t.text == "{"):
            # in statement position a block-like expression ends at its closing brace (`if c { } *p += 1;` is two statements)
            e = self.parse_primary(False)
            if self.peek().text in (".", "?") and self.peek().kind == "op":
                e = self.parse_postfix(e, start, False)
            return e
        e = self.parse_expr()
        if self.peek().kind == "op" and self.peek().text in ASSIGN:
            op = self.next().text
            rhs = self.parse_expr()
            return self.mk("assign", start, op, e, rhs)
        return e

    def skip_type(self):
        depth = 0
        while True:
            t = self.peek()
            if t.kind == "eof":
                return
            if t.text in ("(", "["):
                self.skip_balanced()
                continue
            if t.text == "<":
                depth += 1
            elif t.text == ">":
                if depth == 0:
                    return
                depth -= 1
            elif t.text == ">>":
                depth -= 2
            elif depth == 0 and t.text in ("=", ";", ",", ")", "{", "|", "}"):
                return
            self.next()

    # -- expressions
    def parse_expr(self, no_struct=False, minprec=0):
        start = self.peek().pos
        lhs = self.parse_unary(no_struct)
        while True:
            t = self.peek()
            if t.kind == "id" and t.text == "as":
                self.next()
                ts = self.peek().pos
                self.skip_type_in_expr()
                lhs = self.mk("cast", start, lhs, self.src[ts:self.toks[self.i - 1].end].strip())
                continue
            if t.kind == "op" and t.text in BINPREC and BINPREC[t.text] > minprec:
                # `|` directly after a complete expression is a binary or; closures start at primary position
                op = self.next().text
                rhs = self.parse_expr(no_struct, BINPREC[op])
                lhs = self.mk("bin", start, op, lhs, rhs)
                continue
            if t.kind == "op" and t.text in ("..", "..=") and minprec == 0:
                op = self.next().text
                rhs = None
                if not (self.peek().kind == "eof" or self.peek().text in (")", "]", "}", ",", ";", "=>") or (no_struct and self.at("{"))):
                    rhs = self.parse_expr(no_struct, 0.5)
                lhs = self.mk("range", start, op, lhs, rhs)
                continue
            return lhs

    def skip_type_in_expr(self):
        # a type after `as`: path with optional generics, & / * prefixes, tuple / array types
        while self.peek().text in ("&", "*", "mut", "const"):
            self.next()
        if self.peek().text in ("(", "["):
            self.skip_balanced()
            return
        self.next()
        while True:
            if self.at("::"):
                self.next()
                if self.at("<"):
                    self.skip_balanced()
                else:
                    self.next()
            elif self.at("<") and self.peek(1).kind == "id" and self.peek(1).text[0].isupper():
                self.skip_balanced()
            else:
                return

    def parse_unary(self, no_struct):
        start = self.peek().pos
        t = self.peek()
        if t.kind == "op" and t.text in ("!", "-", "*"):
            self.next()
            e = self.parse_unary(no_struct)
            return self.mk("un", start, t.text, e)
        if t.kind == "op" and t.text in ("&", "&&"):
            self.next()
            if self.at("mut"):
                self.next()
            e = self.parse_unary(no_struct)
            return self.mk("ref", start, e)
        if t.kind == "op" and t.text in ("..", "..="):                 # `..x` / `..=x` / `..`
            op = self.next().text
            rhs = None
            if not (self.peek().kind == "eof" or self.peek().text in (")", "]", "}", ",", ";")):
                rhs = self.parse_expr(no_struct, 0.5)
            return self.mk("range", start, op, None, rhs)
        return self.parse_postfix(self.parse_primary(no_struct), start, no_struct)

    def parse_args(self, close):
        args = []
        while not self.at(close):
            args.append(self.parse_expr())
            if self.at(","):
                self.next()
            elif not self.at(close):
                raise Unknown("argument list near %r" % self.src[self.peek().pos - 20:self.peek().pos + 20])
        self.expect(close)
        return args

    def parse_postfix(self, e, start, no_struct):
        blocklike = e.kind in ("block", "if", "match", "loop")
        while True:
            t = self.peek()
            if blocklike and t.text in ("(", "["):
                return e                       # `{ … } (next pattern)` : a block-like expression ends at its brace
            if t.text == "?" and t.kind == "op":
                self.next()
                e = self.mk("try", start, e)
            elif t.text == "." and t.kind == "op":
                self.next()
                name = self.next()
                if name.kind == "num":                                  # tuple field
                    e = self.mk("field", start, e, name.text)
                    continue
                if name.text == "await":
                    continue
                if self.at("::"):
                    self.next()
                    self.skip_balanced()
                if self.at("("):
                    self.next()
                    args = self.parse_args(")")
                    e = self.mk("mcall", start, e, name.text, args)
                else:
                    e = self.mk("field", start, e, name.text)
            elif t.text == "(" and t.kind == "op":
                self.next()
                args = self.parse_args(")")
                e = self.mk("call", start, e, args)
            elif t.text == "[" and t.kind == "op":
                self.next()
                idx = self.parse_expr()
                self.expect("]")
                e = self.mk("index", start, e, idx)
            else:
                return e

    def parse_primary(self, no_struct):
        start = self.peek().pos
        t = self.next()
        if t.kind == "eof":
            raise Unknown("unexpected end of input")
        if t.kind == "num":
            if re.search(r"\.|f32|f64|[eE][+-]?\d", t.text) and not t.text.lower().startswith("0x"):
                return self.mk("opaque", start)
            return self.mk("int", start, int_of(t.text))
        if t.kind == "chr":
            return self.mk("int", start, int_of(t.text))
        if t.kind == "str":
            return self.mk("bytes", start, str_bytes(t.text), t.text.startswith("b"))
        if t.kind == "life":                                            # labelled block / loop
            self.expect(":")
            return self.parse_primary(no_struct)
        if t.kind == "op":
            if t.text == "(":
                items, trailing = [], False
                while not self.at(")"):
                    items.append(self.parse_expr())
                    trailing = False
                    if self.at(","):
                        self.next()
                        trailing = True
                self.expect(")")
                if len(items) == 1 and not trailing:
                    return self.mk("paren", start, items[0])
                return self.mk("tuple", start, items)
            if t.text == "[":
                if self.at("]"):
                    self.next()
                    return self.mk("array", start, [])
                first = self.parse_expr()
                if self.at(";"):
                    self.next()
                    n = self.parse_expr()
                    self.expect("]")
                    return self.mk("repeat", start, first, n)
                items = [first]
                while self.at(","):
                    self.next()
                    if self.at("]"):
                        break
                    items.append(self.parse_expr())
                self.expect("]")
                return self.mk("array", start, items)
            if t.text == "{":
                self.i -= 1
                return self.parse_braced_block()
            if t.text == "::":
                return self.parse_primary(no_struct)
            if t.text == "<":                                           # <T as Trait>::item(..)
                self.i -= 1
                self.skip_balanced()
                while self.at("::"):
                    self.next()
                    if self.at("<"):
                        self.skip_balanced()
                    else:
                        self.next()
                return self.mk("opaque", start)
            if t.text in ("|", "||"):
                params = []
                if t.text == "|":
                    while not self.at("|"):
                        params.append(self.parse_pattern(no_alt=True))
                        if self.at(":"):
                            self.next()
                            self.skip_type()
                        if self.at(","):
                            self.next()
                    self.expect("|")
                if self.at("->"):
                    self.next()
                    self.skip_type()
                body = self.parse_expr()
                return self.mk("closure", start, params, body)
            raise Unknown("unexpected %r near %r" % (t.text, self.src[max(0, t.pos - 30):t.pos + 20]))
        # identifiers / keywords
        w = t.text
        if w == "move":
            return self.parse_primary(no_struct)
        if w in ("true", "false"):
            return self.mk("bool", start, w == "true")
        if w == "if":
            return self.parse_if(start)
        if w == "match":
            scrut = self.parse_expr(no_struct=True)
            self.expect("{")
            arms = []
            while not self.at("}"):
                astart = self.peek().pos
                while self.at("#"):
                    self.next()
                    self.skip_balanced()
                pat = self.parse_pattern()
                guard = None
                if self.at("if"):
                    self.next()
                    guard = self.parse_expr()
                self.expect("=>")
                body = self.parse_stmt()
                if self.peek().kind == "op" and self.peek().text in ASSIGN:
                    pass
                arms.append(N("arm", pat, guard, body, span=(astart, self.toks[self.i - 1].end)))
                if self.at(","):
                    self.next()
            self.expect("}")
            return self.mk("match", start, scrut, arms)
        if w in ("return", "break"):
            val = None
            if w == "break" and self.peek().kind == "life":
                self.next()
            if not (self.peek().kind == "eof" or self.peek().text in (";", "}", ",", ")", "]")):
                val = self.parse_expr(no_struct)
            return self.mk(w, start, val)
        if w == "continue":
            if self.peek().kind == "life":
                self.next()
            return self.mk("continue", start)
        if w in ("loop", "while", "for", "unsafe"):
            # loops are opaque as a whole (their text is kept); the body is still available to callers as text
            if w == "unsafe":
                return self.parse_braced_block()
            hdr_start = self.peek().pos
            while not self.at("{"):
                if self.peek().text in ("(", "["):
                    self.skip_balanced()
                elif self.peek().kind == "eof":
                    raise Unknown("loop without body")
                else:
                    self.next()
            hdr = self.src[hdr_start:self.peek().pos].strip()
            body = self.parse_braced_block()
            return self.mk("loop", start, w, hdr, body)
        # path
        segs = [w]
        generics = None
        while self.at("::"):
            self.next()
            if self.at("<"):
                a, b = self.skip_balanced()
                generics = self.src[a:b].strip()
            else:
                segs.append(self.next().text)
        if self.at("!") and not self.at("=", 1) and self.peek(1).text in ("(", "[", "{"):
            self.next()
            inner = self.skip_balanced()
            return self.mk("macro", start, segs[-1], self.src[inner[0]:inner[1]])
        if self.at("{") and not no_struct and (segs[-1][0].isupper() or len(segs) > 1) and self.struct_ahead():
            self.next()
            fields = []
            while not self.at("}"):
                if self.at(".."):
                    self.next()
                    fields.append(("..", self.parse_expr()))
                else:
                    name = self.next().text
                    if self.at(":"):
                        self.next()
                        fields.append((name, self.parse_expr()))
                    else:
                        fields.append((name, N("path", [name], span=(0, 0))))
                if self.at(","):
                    self.next()
            self.expect("}")
            return self.mk("struct", start, segs, fields)
        node = self.mk("path", start, segs)
        node.generics = generics
        return node

    def struct_ahead(self):
        """after `Path {`: is this a struct literal (`ident:` / `ident,` / `ident }` / `}` / `..`)?"""
        a, b = self.peek(1), self.peek(2)
        if a.text == "}" or a.text == "..":
            return True
        return a.kind in ("id", "num") and b.text in (":", ",", "}")

    def parse_if(self, start):
        if self.at("let"):
            self.next()
            pat = self.parse_pattern()
            self.expect("=")
            scrut = self.parse_expr(no_struct=True)
            cond = ("let", pat, scrut)
        else:
            cond = ("bool", self.parse_expr(no_struct=True))
        then = self.parse_braced_block()
        els = None
        if self.at("else"):
            self.next()
            if self.at("if"):
                s2 = self.peek().pos
                self.next()
                els = self.parse_if(s2)
            else:
                els = self.parse_braced_block()
        return self.mk("if", start, cond, then, els)

    def range_bound(self):
        """the upper bound of a range pattern: a literal, a constant or a path such as i32::MAX (None if absent)"""
        if self.peek().kind in ("num", "chr"):
            return int_of(self.next().text)
        if self.peek().kind == "id" and self.peek().text not in ("if",):
            segs = [self.next().text]
            while self.at("::"):
                self.next()
                segs.append(self.next().text)
            return ("const", "::".join(segs))
        return None

    # -- patterns
    def parse_pattern(self, no_alt=False):
        start = self.peek().pos
        if self.at("|") and not no_alt:
            self.next()
        alts = [self.parse_pattern1()]
        while self.at("|") and not no_alt:
            self.next()
            alts.append(self.parse_pattern1())
        if len(alts) == 1:
            return alts[0]
        return self.mk("p_or", start, alts)

    def parse_pattern1(self):
        start = self.peek().pos
        t = self.next()
        if t.kind == "eof":
            raise Unknown("unexpected end of input")
        if t.kind in ("num", "chr") or (t.text == "-" and self.peek().kind == "num"):
            if t.text == "-":
                v = -int_of(self.next().text)
            else:
                v = int_of(t.text)
            if self.at("..=") or self.at(".."):
                op = self.next().text
                hi = self.range_bound()
                return self.mk("p_range", start, v, hi, op == "..=")
            return self.mk("p_int", start, v)
        if t.kind == "str":
            return self.mk("p_bytes", start, str_bytes(t.text))
        if t.kind == "op":
            if t.text == "_":
                return self.mk("p_wild", start)
            if t.text in ("&", "&&"):
                if self.at("mut"):
                    self.next()
                return self.parse_pattern1()
            if t.text == "(":
                items = []
                while not self.at(")"):
                    items.append(self.parse_pattern())
                    if self.at(","):
                        self.next()
                self.expect(")")
                return items[0] if len(items) == 1 else self.mk("p_tuple", start, items)
            if t.text == "[":
                items = []
                while not self.at("]"):
                    items.append(self.parse_pattern())
                    if self.at(","):
                        self.next()
                self.expect("]")
                return self.mk("p_slice", start, items)
            if t.text in ("..", "..="):
                if self.peek().kind in ("num", "chr"):
                    hi = int_of(self.next().text)
                    return self.mk("p_range", start, None, hi, t.text == "..=")
                return self.mk("p_rest", start)
            raise Unknown("pattern near %r" % self.src[max(0, t.pos - 20):t.pos + 20])
        w = t.text
        if w == "_":
            return self.mk("p_wild", start)
        if w in ("ref", "mut"):
            return self.parse_pattern1()
        if w in ("true", "false"):
            return self.mk("p_bool", start, w == "true")
        segs = [w]
        while self.at("::"):
            self.next()
            if self.at("<"):
                self.skip_balanced()
            else:
                segs.append(self.next().text)
        if self.at("("):
            self.next()
            items = []
            while not self.at(")"):
                items.append(self.parse_pattern())
                if self.at(","):
                    self.next()
            self.expect(")")
            return self.mk("p_ctor", start, segs, items)
        if self.at("{"):
            inner = self.skip_balanced()
            return self.mk("p_struct", start, segs, self.src[inner[0]:inner[1]])
        if self.at("@"):
            self.next()
            sub = self.parse_pattern1()
            return self.mk("p_bind", start, w, sub)
        if self.at("..=") or self.at(".."):
            op = self.next().text
            hi = self.range_bound()
            return self.mk("p_range", start, ("const", "::".join(segs)), hi, op == "..=")
        if len(segs) == 1 and (w[0].islower() or w[0] == "_") :
            return self.mk("p_bind", start, w, None)
        return self.mk("p_path", start, segs)


_PARSE_CACHE = {}


def parse_body(text):
    """a fn body / block inside (without the outer braces) -> block node, parser"""
    if ("b", text) in _PARSE_CACHE:
        return _PARSE_CACHE[("b", text)]
    r = _parse_body(text)
    _PARSE_CACHE[("b", text)] = r
    return r


def _parse_body(text):
    p = Parser(text)
    b = p.parse_block_body("\0")
    if p.peek().kind != "eof":
        raise Unknown("trailing input near %r" % text[p.peek().pos:p.peek().pos + 30])
    return b, p


def parse_expression(text):
    if ("e", text) in _PARSE_CACHE:
        return _PARSE_CACHE[("e", text)]
    r = _parse_expression(text)
    _PARSE_CACHE[("e", text)] = r
    return r


def _parse_expression(text):
    p = Parser(text)
    e = p.parse_stmt()
    while p.at(";"):
        p.next()
    if p.peek().kind != "eof":
        raise Unknown("trailing input near %r" % text[p.peek().pos:p.peek().pos + 30])
    return e, p


# ----------------------------------------------------------------------------------------------------------------------
# values and control flow

class Opaque:
    """a value the evaluator knows nothing about (carries the normalised source text)"""
    def __init__(self, text):
        self.text = re.sub(r"\s+", " ", text).strip()

    def __repr__(self):
        return "Opaque(%s)" % self.text[:40]

    def __eq__(self, other):
        return isinstance(other, Opaque) and other.text == self.text

    def __hash__(self):
        return hash(self.text)


class Leave(Exception):
    """return / break / continue / a diverging macro"""
    def __init__(self, how, value=None):
        self.how, self.value = how, value


def some(v):
    return ("Some", v)


NONE = ("None",)


def norm(text):
    return re.sub(r"\s+", " ", text).strip()


class Evaluator:
    """evaluates AST nodes over an environment {name: value}.  `src` is the text in which called fns and consts are looked
    up (the enclosing fn's body first, so nested helper fns are found).  effects: list of normalised texts of the opaque
    statements that were executed, in order."""
    def __init__(self, src, X, depth=6, opaque_calls=True):
        self.src, self.X, self.depth = src, X, depth
        self.effects = []
        self._fn_cache = {}
        self.lenient = False
        self.inject_expr = {}   # normalised source text of an expression -> value it is to have (`self.buf.get(pos)` -> Some(b))
        self.inject = {}        # name -> value: a `let` (or any pattern) that binds this name binds the given value instead

    # ---- helpers
    def lookup_fn(self, name, scopes):
        for s in scopes:
            key = (id(s), name)
            if key in self._fn_cache:
                if self._fn_cache[key] is not None:
                    return self._fn_cache[key]
                continue
            m = re.search(r"\bfn\s+" + re.escape(name) + r"\s*(?:<[^>]*>)?\s*\(", s)
            if m:
                try:
                    body = self.X.fn_body(s, name)
                    params = self.X.fn_params(s, name)
                    hdr = s[m.start():s.index("{", m.end())]
                    has_self = bool(re.search(r"\(\s*&?\s*(?:mut\s+)?self\b", hdr))
                    node, parser = parse_body(body)
                    self._fn_cache[key] = (params, node, parser, body, has_self)
                    return self._fn_cache[key]
                except (KeyError, Unknown):
                    pass
            self._fn_cache[key] = None
        return None

    def const_value(self, name, scopes):
        for s in scopes:
            e = self.X.const_expr(s, name)
            if e is not None:
                node, p = parse_expression(e)
                return self.ev(node, {}, p, scopes)
        return None

    def bound_value(self, name, scopes):
        if "::" in name:
            node, p = parse_expression(name)
            v = self.ev(node, {}, p, scopes)
        else:
            v = self.const_value(name, scopes)
        if not isinstance(v, int):
            raise Unknown("range bound " + name)
        return v

    # ---- patterns
    def pmatch(self, pat, val, env, scopes):
        """does val match pat? binds into env.  Raises Unknown when it cannot be decided."""
        k = pat.kind
        if k == "p_wild" or k == "p_rest":
            return True
        if k == "p_bind":
            if pat[2] is not None and not self.pmatch(pat[2], val, env, scopes):
                return False
            env[pat[1]] = self.inject.get(pat[1], val)
            return True
        if k == "p_or":
            return any(self.pmatch(a, val, env, scopes) for a in pat[1])
        if isinstance(val, Opaque):
            raise Unknown("pattern match on " + val.text[:60])
        if k == "p_int":
            self.need_int(val)
            return val == pat[1]
        if k == "p_bool":
            return val is pat[1]
        if k == "p_range":
            self.need_int(val)
            lo, hi = pat[1], pat[2]
            if isinstance(lo, tuple):
                lo = self.bound_value(lo[1], scopes)
            if isinstance(hi, tuple):
                hi = self.bound_value(hi[1], scopes)
            if lo is not None and val < lo:
                return False
            if hi is not None and (val > hi if pat[3] else val >= hi):
                return False
            return True
        if k == "p_bytes":
            return isinstance(val, tuple) and val and val[0] == "Bytes" and list(val[1]) == pat[1]
        if k == "p_tuple":
            if not (isinstance(val, tuple) and val and val[0] == "Tuple" and len(val[1]) == len(pat[1])):
                raise Unknown("tuple pattern on %r" % (val,))
            return all(self.pmatch(p, v, env, scopes) for p, v in zip(pat[1], val[1]))
        if k == "p_ctor":
            name = pat[1][-1]
            if not (isinstance(val, tuple) and val and isinstance(val[0], str)):
                raise Unknown("constructor pattern on %r" % (val,))
            if val[0] != name:
                if val[0] in ("Some", "None", "Ok", "Err") and name in ("Some", "None", "Ok", "Err"):
                    return False
                if val[0] == "Variant":
                    return False if val[1] != name else self._ctor_fields(pat, val, env, scopes)
                raise Unknown("constructor %s against %r" % (name, val))
            if len(pat[2]) == 1:
                return self.pmatch(pat[2][0], val[1], env, scopes)
            return True
        if k == "p_path":
            name = pat[1][-1]
            if isinstance(val, tuple) and val and val[0] in ("Some", "None", "Ok", "Err"):
                return val[0] == name
            if isinstance(val, tuple) and val and val[0] == "Variant":
                return val[1] == name
            c = self.const_value(name, scopes)
            if c is not None:
                return c == val
            raise Unknown("path pattern %s against %r" % (name, val))
        if k == "p_struct":
            if isinstance(val, tuple) and val and val[0] == "Variant":
                return val[1] == pat[1][-1]
            raise Unknown("struct pattern")
        raise Unknown("pattern kind " + k)

    def _ctor_fields(self, pat, val, env, scopes):
        return True

    @staticmethod
    def need_int(v):
        if isinstance(v, bool) or not isinstance(v, int):
            raise Unknown("integer needed, have %r" % (v,))

    # ---- blocks
    def run_block(self, node, env, p, scopes):
        outer = env
        env = dict(env)
        declared = set()
        try:
            for s in node[1]:
                if s.kind == "let":
                    declared.update(self.binders(s[1]))
                try:
                    self.run_stmt(s, env, p, scopes)
                except Unknown:
                    if not self.lenient:
                        raise
                    # lenient mode (used to ask "which code can this input reach"): the rest of the block, from the statement
                    # whose decision is unknown, is recorded as one effect and the run ends as 'unknown'
                    self.effect(p.src[s.span[0]:node.span[1]], env)
                    raise Leave("unknown")
            if node[2] is not None:
                try:
                    return self.ev(node[2], env, p, scopes)
                except Unknown:
                    if not self.lenient:
                        raise
                    self.effect(p.src[node[2].span[0]:node.span[1]], env)
                    raise Leave("unknown")
            return ("Unit",)
        finally:
            # assignments to variables of the enclosing block are visible there; this block's own lets are not
            for k in outer:
                if k in env and k not in declared:
                    outer[k] = env[k]
            self.last_env = env

    def run_stmt(self, s, env, p, scopes):
        k = s.kind
        if k == "item":
            return
        if k == "let":
            pat, init, els = s[1], s[2], s[3]
            if init is None:
                return
            val = self.ev(init, env, p, scopes)
            if els is not None:
                try:
                    ok = self.pmatch(pat, val, env, scopes)
                except Unknown:
                    raise
                if not ok:
                    self.run_block(els, env, p, scopes)
                    raise Unknown("let-else block fell through")
                return
            try:
                if not self.pmatch(pat, val, env, scopes):
                    raise Unknown("refutable let")
            except Unknown:
                # an opaque initialiser bound by a structured pattern: the bindings are opaque too
                for name in self.binders(pat):
                    env[name] = Opaque(name)
            return
        if k == "assign":
            # assignment to a plain local that we track: keep tracking; everything else is an effect
            op, lhs, rhs = s[1], s[2], s[3]
            if lhs.kind == "path" and len(lhs[1]) == 1 and lhs[1][0] in env and op == "=":
                env[lhs[1][0]] = self.ev(rhs, env, p, scopes)
                return
            if lhs.kind == "path" and len(lhs[1]) == 1 and lhs[1][0] in env:
                cur, rv = env[lhs[1][0]], self.ev(rhs, env, p, scopes)
                if isinstance(cur, int) and not isinstance(cur, bool) and isinstance(rv, int) and not isinstance(rv, bool) and op in ("+=", "-=", "*="):
                    env[lhs[1][0]] = cur + rv if op == "+=" else cur - rv if op == "-=" else cur * rv
                    return
                env[lhs[1][0]] = Opaque(p.text(s))
            self.effect(p.text(s), env)
            return
        if k in ("if", "match", "block", "return", "break", "continue"):
            self.ev(s, env, p, scopes)
            return
        if k == "loop":
            self.effect(p.text(s), env)
            return
        v = self.ev(s, env, p, scopes)
        if isinstance(v, Opaque):
            self.effect(p.text(s), env)

    def effect(self, text, env):
        self.effects.append(norm(text))

    def binders(self, pat):
        k = pat.kind
        if k == "p_bind":
            return [pat[1]] + (self.binders(pat[2]) if pat[2] is not None else [])
        if k in ("p_tuple", "p_or", "p_slice"):
            return [b for q in pat[1] for b in self.binders(q)]
        if k == "p_ctor":
            return [b for q in pat[2] for b in self.binders(q)]
        return []

    # ---- expressions
    def ev(self, e, env, p, scopes):
        k = e.kind
        if self.inject_expr and k in ("mcall", "call", "index", "field", "path"):
            t = norm(p.text(e))
            if t in self.inject_expr:
                return self.inject_expr[t]
        if k == "int":
            return e[1]
        if k == "bool":
            return e[1]
        if k == "bytes":
            return ("Bytes", tuple(e[1]))
        if k == "paren":
            return self.ev(e[1], env, p, scopes)
        if k == "block":
            return self.run_block(e, env, p, scopes)
        if k == "tuple":
            return ("Tuple", tuple(self.ev(x, env, p, scopes) for x in e[1]))
        if k == "array":
            vals = [self.ev(x, env, p, scopes) for x in e[1]]
            if all(isinstance(v, int) and not isinstance(v, bool) for v in vals):
                return ("Bytes", tuple(vals))
            return Opaque(p.text(e))
        if k == "repeat":
            v, n = self.ev(e[1], env, p, scopes), self.ev(e[2], env, p, scopes)
            if isinstance(v, int) and isinstance(n, int):
                return ("Bytes", tuple([v] * n))
            return Opaque(p.text(e))
        if k == "path":
            segs = e[1]
            name = segs[-1]
            if len(segs) == 1 and name in env:
                return env[name]
            if name == "None" :
                return NONE
            if len(segs) == 1 and re.fullmatch(r"[A-Z][A-Z0-9_]*", name):
                c = self.const_value(name, scopes)
                if c is not None:
                    return c
            if len(segs) >= 2 and segs[-2] in ("u8", "u16", "u32", "u64", "usize", "i8", "i16", "i32", "i64", "isize") and name in ("MAX", "MIN"):
                bits = {"u8": 8, "u16": 16, "u32": 32, "u64": 64, "usize": 64}.get(segs[-2])
                if bits:
                    return (1 << bits) - 1 if name == "MAX" else 0
                sb = {"i8": 8, "i16": 16, "i32": 32, "i64": 64, "isize": 64}[segs[-2]]
                return (1 << (sb - 1)) - 1 if name == "MAX" else -(1 << (sb - 1))
            if len(segs) >= 2 and name[0].isupper():
                return ("Variant", name)
            return Opaque(p.text(e))
        if k == "ref":
            return self.ev(e[1], env, p, scopes)
        if k == "un":
            op = e[1]
            v = self.ev(e[2], env, p, scopes)
            if op == "*":
                return v
            if isinstance(v, Opaque):
                return Opaque(p.text(e))
            if op == "!":
                if isinstance(v, bool):
                    return not v
                raise Unknown("! on %r" % (v,))
            self.need_int(v)
            return -v
        if k == "cast":
            v = self.ev(e[1], env, p, scopes)
            if isinstance(v, bool):
                return int(v)
            if isinstance(v, int):
                bits = {"u8": 8, "u16": 16, "u32": 32, "u64": 64, "usize": 64}.get(e[2])
                return v & ((1 << bits) - 1) if bits else v
            return v if isinstance(v, Opaque) else Opaque(p.text(e))
        if k == "bin":
            return self.ev_bin(e, env, p, scopes)
        if k == "range":
            lo = self.ev(e[2], env, p, scopes) if e[2] is not None else None
            hi = self.ev(e[3], env, p, scopes) if e[3] is not None else None
            return ("Range", lo, hi, e[1] == "..=")
        if k == "if":
            return self.ev_if(e, env, p, scopes)
        if k == "match":
            val = self.ev(e[1], env, p, scopes)
            for arm in e[2]:
                env2 = dict(env)
                arm_pat, arm_guard, arm_body = arm[1], arm[2], arm[3]
                if self.pmatch(arm_pat, val, env2, scopes):
                    if arm_guard is not None:
                        g = self.ev(arm_guard, env2, p, scopes)
                        if not isinstance(g, bool):
                            raise Unknown("guard " + p.text(arm_guard)[:60])
                        if not g:
                            continue
                    body = arm_body
                    if body.kind in ("let", "assign", "item"):
                        self.run_stmt(body, env2, p, scopes)
                        return ("Unit",)
                    if body.kind == "loop":
                        self.effect(p.text(body), env2)
                        return ("Unit",)
                    v = self.ev(body, env2, p, scopes)
                    if isinstance(v, Opaque) and body.kind in ("call", "mcall", "macro", "try"):
                        self.effect(p.text(body), env2)
                    return v
            raise Unknown("no arm matches %r" % (val,))
        if k == "return":
            raise Leave("return", self.ev(e[1], env, p, scopes) if e[1] is not None else ("Unit",))
        if k == "break":
            raise Leave("break", self.ev(e[1], env, p, scopes) if e[1] is not None else None)
        if k == "continue":
            raise Leave("continue")
        if k == "macro":
            return self.ev_macro(e, env, p, scopes)
        if k == "try":
            v = self.ev(e[1], env, p, scopes)
            if isinstance(v, tuple) and v and v[0] in ("Ok", "Some"):
                return v[1]
            if isinstance(v, tuple) and v and v[0] == "Err":
                raise Leave("return", v)
            if v == NONE:
                raise Leave("return", NONE)
            if isinstance(v, Opaque):
                return Opaque(p.text(e))
            raise Unknown("? on %r" % (v,))
        if k == "call":
            return self.ev_call(e, env, p, scopes)
        if k == "mcall":
            return self.ev_mcall(e, env, p, scopes)
        if k == "field":
            v = self.ev(e[1], env, p, scopes)
            if isinstance(v, tuple) and v and v[0] == "Tuple" and e[2].isdigit():
                return v[1][int(e[2])]
            t = norm(p.text(e))
            if t in env:
                return env[t]
            return Opaque(p.text(e))
        if k == "index":
            v = self.ev(e[1], env, p, scopes)
            i = self.ev(e[2], env, p, scopes)
            if isinstance(v, tuple) and v and v[0] == "Bytes" and isinstance(i, int) and not isinstance(i, bool):
                if 0 <= i < len(v[1]):
                    return v[1][i]
                raise Leave("panic", "index out of bounds")
            if isinstance(v, tuple) and v and v[0] == "Bytes" and isinstance(i, tuple) and i and i[0] == "Range":
                lo = 0 if i[1] is None else i[1]
                hi = len(v[1]) if i[2] is None else (i[2] + 1 if i[3] else i[2])
                if isinstance(lo, int) and isinstance(hi, int):
                    return ("Bytes", tuple(v[1][lo:hi]))
            return Opaque(p.text(e))
        if k == "struct":
            return Opaque(p.text(e))
        if k == "closure":
            return ("Closure", e, dict(env), p)
        if k == "loop":
            self.effect(p.text(e), env)
            return ("Unit",)
        if k in ("let", "assign", "item"):
            self.run_stmt(e, env, p, scopes)
            return ("Unit",)
        if k == "opaque":
            return Opaque(p.text(e))
        raise Unknown("expression kind " + k)

    def ev_if(self, e, env, p, scopes):
        cond, then, els = e[1], e[2], e[3]
        env2 = dict(env)
        if cond[0] == "let":
            val = self.ev(cond[2], env, p, scopes)
            taken = self.pmatch(cond[1], val, env2, scopes)
        else:
            taken = self.ev(cond[1], env, p, scopes)
            if not isinstance(taken, bool):
                raise Unknown("condition " + p.text(cond[1])[:80])
        if taken:
            return self.run_block(then, env2, p, scopes)
        if els is None:
            return ("Unit",)
        if els.kind == "if":
            return self.ev_if(els, env, p, scopes)
        return self.run_block(els, env, p, scopes)

    def ev_bin(self, e, env, p, scopes):
        op = e[1]
        if op in ("||", "&&"):
            a = self.ev(e[2], env, p, scopes)
            if isinstance(a, bool):
                if (op == "||" and a) or (op == "&&" and not a):
                    return a
                b = self.ev(e[3], env, p, scopes)
                if isinstance(b, bool):
                    return b
                raise Unknown("operand of %s: %s" % (op, p.text(e[3])[:60]))
            # the left operand is opaque: the result is known only if the right one decides it
            b = self.ev(e[3], env, p, scopes)
            if isinstance(b, bool) and ((op == "||" and b) or (op == "&&" and not b)):
                return b
            raise Unknown("operand of %s: %s" % (op, p.text(e[2])[:60]))
        a = self.ev(e[2], env, p, scopes)
        b = self.ev(e[3], env, p, scopes)
        if isinstance(a, Opaque) or isinstance(b, Opaque):
            if op in ("==", "!=", "<", ">", "<=", ">="):
                raise Unknown("comparison of " + p.text(e)[:80])
            return Opaque(p.text(e))
        if op in ("==", "!="):
            if isinstance(a, tuple) and isinstance(b, tuple) and a and b and a[0] == "Bytes" == b[0]:
                r = list(a[1]) == list(b[1])
            elif type(a) != type(b) and not (isinstance(a, int) and isinstance(b, int)):
                raise Unknown("comparison of %r and %r" % (a, b))
            else:
                r = a == b
            return r if op == "==" else not r
        if isinstance(a, bool) and isinstance(b, bool) and op in ("|", "&", "^"):
            return {"|": a or b, "&": a and b, "^": a != b}[op]
        self.need_int(a)
        self.need_int(b)
        if op == "<":
            return a < b
        if op == ">":
            return a > b
        if op == "<=":
            return a <= b
        if op == ">=":
            return a >= b
        if op == "+":
            return a + b
        if op == "-":
            return a - b
        if op == "*":
            return a * b
        if op == "/":
            if b == 0:
                raise Leave("panic", "division by zero")
            return a // b
        if op == "%":
            if b == 0:
                raise Leave("panic", "division by zero")
            return a % b
        if op == "<<":
            return a << b
        if op == ">>":
            return a >> b
        if op == "|":
            return a | b
        if op == "&":
            return a & b
        if op == "^":
            return a ^ b
        raise Unknown("operator " + op)

    def ev_macro(self, e, env, p, scopes):
        name, inner = e[1], e[2]
        if name in DIVERGING_MACROS:
            raise Leave("error", name)
        if name == "matches":
            q = Parser(inner)
            scrut = q.parse_expr()
            q.expect(",")
            pat = q.parse_pattern()
            guard = None
            if q.at("if"):
                q.next()
                guard = q.parse_expr()
            val = self.ev(scrut, env, q, scopes)
            env2 = dict(env)
            if not self.pmatch(pat, val, env2, scopes):
                return False
            if guard is not None:
                g = self.ev(guard, env2, q, scopes)
                if not isinstance(g, bool):
                    raise Unknown("guard in matches!")
                return g
            return True
        if name in ("t", "try_opt"):
            q = Parser(inner)
            x = q.parse_expr()
            v = self.ev(x, env, q, scopes)
            if isinstance(v, tuple) and v and v[0] in ("Ok", "Some"):
                return v[1]
            if isinstance(v, tuple) and v and v[0] == "Err" or v == NONE:
                raise Leave("return", v if v != NONE else ("Err", Opaque("NoneError")))
            return Opaque(p.text(e))
        if name == "vec":
            q = Parser("[" + inner + "]")
            return self.ev(q.parse_expr(), env, q, scopes)
        return Opaque(p.text(e))

    def call_fn(self, name, args, scopes, text):
        f = self.lookup_fn(name, scopes) if self.depth > 0 else None
        if f is None:
            return None
        params, node, parser, body, has_self = f
        if len(params) != len(args):
            return None
        self.depth -= 1
        mark = len(self.effects)
        try:
            env = dict(zip(params, args))
            try:
                return self.run_block(node, env, parser, [body] + [s for s in scopes if s is not body])
            except Leave as l:
                if l.how == "return":
                    return l.value
                if l.how == "unknown":
                    del self.effects[mark:]      # (lenient mode) a callee whose course is unknown is an opaque call
                    return None
                raise
            except Unknown:
                # the callee depends on state we do not model (self.*, I/O …): the call stays opaque
                del self.effects[mark:]
                return None
        finally:
            self.depth += 1

    def ev_call(self, e, env, p, scopes):
        fn, args = e[1], e[2]
        if fn.kind == "path":
            name = fn[1][-1]
            vals = [self.ev(a, env, p, scopes) for a in args]
            if name in ("Some", "Ok", "Err") and len(vals) == 1:
                return (name, vals[0])
            if len(fn[1]) == 1 and name in env and isinstance(env[name], tuple) and env[name][0] == "Closure":
                return self.apply_closure(env[name], vals, scopes)
            if len(fn[1]) == 1 or fn[1][-2] in ("Self", "self"):
                r = self.call_fn(name, vals, scopes, p.text(e))
                if r is not None:
                    return r
            if name == "size_of" and not vals and getattr(fn, "generics", None) in TYPE_SIZE:
                return TYPE_SIZE[fn.generics]
            if name in ("from_be_bytes", "from_le_bytes") and len(vals) == 1 and isinstance(vals[0], tuple) and vals[0] and vals[0][0] == "Bytes":
                bs = list(vals[0][1]) if name == "from_be_bytes" else list(reversed(vals[0][1]))
                r = 0
                for x in bs:
                    r = (r << 8) | x
                return r
            if name == "min" and len(vals) == 2 and all(isinstance(v, int) for v in vals):
                return min(vals)
            if name == "max" and len(vals) == 2 and all(isinstance(v, int) for v in vals):
                return max(vals)
            if name == "from" and len(vals) == 1 and fn[1][-2] in ("u16", "u32", "u64", "usize", "i32", "i64") and isinstance(vals[0], int):
                return vals[0]
            if len(fn[1]) >= 2 and name[0].isupper() and len(vals) >= 1:
                return ("Variant", name, tuple(vals))
        return Opaque(p.text(e))

    def apply_closure(self, clo, vals, scopes):
        _, node, cenv, cp = clo
        env = dict(cenv)
        params = node[1]
        if len(params) != len(vals):
            raise Unknown("closure arity")
        for pat, v in zip(params, vals):
            if not self.pmatch(pat, v, env, scopes):
                raise Unknown("closure parameter pattern")
        return self.ev(node[2], env, cp, scopes)

    def ev_mcall(self, e, env, p, scopes):
        recv_node, name, arg_nodes = e[1], e[2], e[3]
        # self.method(..) on a fn of the source
        if recv_node.kind == "path" and recv_node[1] == ["self"]:
            vals = [self.ev(a, env, p, scopes) for a in arg_nodes]
            r = self.call_fn(name, vals, scopes, p.text(e))
            if r is not None:
                return r
            return Opaque(p.text(e))
        recv = self.ev(recv_node, env, p, scopes)
        args = [self.ev(a, env, p, scopes) for a in arg_nodes]
        isint = isinstance(recv, int) and not isinstance(recv, bool)
        if isinstance(recv, tuple) and recv and recv[0] == "Range" and name == "contains" and len(args) == 1:
            v = args[0]
            self.need_int(v)
            _, lo, hi, incl = recv
            return (lo is None or v >= lo) and (hi is None or (v <= hi if incl else v < hi))
        if isinstance(recv, tuple) and recv and recv[0] == "Bytes":
            if name == "contains" and len(args) == 1:
                self.need_int(args[0])
                return args[0] in recv[1]
            if name == "len" and not args:
                return len(recv[1])
            if name in ("to_vec", "as_bytes", "as_slice", "as_ref", "to_owned", "iter", "into", "clone", "copied", "cloned"):
                return recv
            if name == "is_empty":
                return len(recv[1]) == 0
            if name in ("any", "all") and len(args) == 1 and isinstance(args[0], tuple) and args[0][0] == "Closure":
                rs = [self.apply_closure(args[0], [b], scopes) for b in recv[1]]
                return any(rs) if name == "any" else all(rs)
        if isint:
            cls = self.X.ASCII_CLASSES.get(name)
            if cls is not None and not args:
                return recv in cls
            if name in ("wrapping_add", "saturating_add", "checked_add", "wrapping_sub", "saturating_sub", "checked_sub") and len(args) == 1 and isinstance(args[0], int):
                r = recv + args[0] if "add" in name else recv - args[0]
                if name.startswith("checked"):
                    return some(r) if 0 <= r else NONE
                return max(r, 0) if name.startswith("saturating") else r
            if name in ("min", "max") and len(args) == 1 and isinstance(args[0], int):
                return min(recv, args[0]) if name == "min" else max(recv, args[0])
            if name == "div_ceil" and len(args) == 1 and isinstance(args[0], int) and args[0] > 0:
                return -(-recv // args[0])
            if name == "pow" and len(args) == 1 and isinstance(args[0], int):
                return recv ** args[0]
            if name in ("wrapping_mul", "saturating_mul") and len(args) == 1 and isinstance(args[0], int):
                return recv * args[0]
            if name in ("into", "clone", "to_owned"):
                return recv
            if name == "eq_ignore_ascii_case":
                pass
        if isinstance(recv, tuple) and recv and recv[0] in ("Some", "None", "Ok", "Err"):
            tag = recv[0]
            has = tag in ("Some", "Ok")
            inner = recv[1] if len(recv) > 1 else None
            clo = args[-1] if args and isinstance(args[-1], tuple) and args[-1][0] == "Closure" else None
            if name in ("is_some", "is_ok"):
                return has
            if name in ("is_none", "is_err"):
                return not has
            if name == "unwrap_or" and len(args) == 1:
                return inner if has else args[0]
            if name in ("unwrap", "expect"):
                if has:
                    return inner
                raise Leave("panic", name)
            if name == "unwrap_or_default" and has:
                return inner
            if name == "map" and clo:
                return (tag, self.apply_closure(clo, [inner], scopes)) if has else recv
            if name == "map_or" and clo and len(args) == 2:
                return self.apply_closure(clo, [inner], scopes) if has else args[0]
            if name == "map_or_else" and clo and len(args) == 2 and isinstance(args[0], tuple) and args[0][0] == "Closure":
                return self.apply_closure(clo, [inner], scopes) if has else self.apply_closure(args[0], [], scopes)
            if name in ("is_some_and", "is_ok_and") and clo:
                return self.apply_closure(clo, [inner], scopes) if has else False
            if name == "filter" and clo:
                if not has:
                    return recv
                r = self.apply_closure(clo, [inner], scopes)
                if not isinstance(r, bool):
                    raise Unknown("filter predicate")
                return recv if r else NONE
            if name in ("and_then",) and clo:
                return self.apply_closure(clo, [inner], scopes) if has else recv
            if name == "ok_or" and len(args) == 1:
                return ("Ok", inner) if has else ("Err", args[0])
            if name == "ok_or_else" and clo:
                return ("Ok", inner) if has else ("Err", self.apply_closure(clo, [], scopes))
            if name in ("ok",):
                return some(inner) if tag == "Ok" else NONE
            if name in ("copied", "cloned", "as_ref", "as_mut", "as_deref"):
                return recv
            if name == "unwrap_or_else" and clo:
                return inner if has else self.apply_closure(clo, [], scopes)
        return Opaque(p.text(e))


# ----------------------------------------------------------------------------------------------------------------------
# what the extractors call

class Outcome:
    """result of running a piece of code: how it ended ('value' | 'return' | 'break' | 'continue' | 'error' | 'panic'),
    the value (if any) and the effects executed on the way"""
    def __init__(self, how, value, effects):
        self.how, self.value, self.effects = how, value, tuple(effects)

    def key(self):
        return (self.how, repr(self.value), self.effects)

    def __repr__(self):
        return "Outcome(%s, %r, effects=%d)" % (self.how, self.value, len(self.effects))

    @property
    def is_err(self):
        """ended in an error: bail!/err!/panic!, or a returned / resulting Err(..)"""
        return self.how in ("error", "panic") or (isinstance(self.value, tuple) and bool(self.value) and self.value[0] == "Err")


def run(X, code, env, src, scopes=None, depth=6, is_expr=False, inject=None, lenient=False, inject_expr=None):
    """run `code` (the inside of a block, or one expression) with the given environment; inject = {local name: value} gives
    the values of locals that the code itself binds from something opaque (`let c = self.peek_byte()?;`)"""
    ev = Evaluator(src, X, depth)
    ev.inject = dict(inject or {})
    ev.lenient = lenient
    ev.inject_expr = {norm(k): v for k, v in (inject_expr or {}).items()}
    scopes = list(scopes or []) + [src]
    if code not in scopes:
        scopes = [code] + scopes
    if is_expr:
        node, p = parse_expression(code)
    else:
        node, p = parse_body(code)
    try:
        v = ev.ev(node, dict(env), p, scopes)
        return Outcome("value", v, ev.effects)
    except Leave as l:
        return Outcome(l.how, l.value, ev.effects)


def run_fn(X, src, name, args, depth=6, scopes=None):
    """call fn `name` of src with concrete argument values"""
    body = X.fn_body(src, name)
    params = X.fn_params(src, name)
    if len(params) != len(args):
        raise Unknown("fn %s takes %d parameters" % (name, len(params)))
    o = run(X, body, dict(zip(params, args)), src, scopes=scopes, depth=depth)
    if o.how == "return":
        return Outcome("value", o.value, o.effects)
    return o
