"""gen/extract_content.py — tables of pdf/src/content.rs (and the operand formatting in primitive.rs)
regenerated from the Rust source on every run (DESIGN.md §5.1, §12.C08).

  name_escaped, name_ascii_max            primitive.rs: serialize_name
  string_hex_from, string_escaped         primitive.rs: PdfString::serialize
  line_join_codes, line_cap_codes, text_mode_codes   content.rs: the integer matches of j / J / Tr paired with
                                          the discriminant `as u8` writes
  ri_table                                types.rs: RenderingIntent::from_str / to_str
  inline_key_abbr, inline_cs_abbr, inline_filter_abbr   content.rs: inline_image
  allow_invalid_ops_strict                object/mod.rs: ParseOptions::strict
  op_read_table                           content.rs: OpBuilder::add   — one entry per string pattern:
                                          (keyword, operand shape, [(Op constructor id, field slots)], state effect)
  op_write_table                          content.rs: serialize_ops    — one entry per match arm / branch:
                                          (Op constructor id, variant tag, keyword, operand slots, advance)
  op_ctor_names                           content.rs: enum Op (declaration order)
"""
import re


def cbytes(s):
    if isinstance(s, str):
        s = s.encode()
    return "[" + "; ".join(str(x) for x in s) + "]"


def clist(xs):
    return "[" + "; ".join(xs) + "]"


def char_lit(tok):
    tok = tok.strip()
    m = re.fullmatch(r"b?'(\\.|[^'\\])'", tok)
    if not m:
        raise ValueError("char literal " + tok)
    c = m.group(1)
    if c.startswith("\\"):
        return {"n": 10, "r": 13, "t": 9, "0": 0, "\\": 92, "'": 39, '"': 34}[c[1]]
    return ord(c)


def split_top(s, sep=","):
    """split at top-level separators (outside (), {}, [], "")"""
    out, depth, cur, i = [], 0, "", 0
    while i < len(s):
        c = s[i]
        if c == '"':
            j = i + 1
            while s[j] != '"':
                if s[j] == "\\":
                    j += 1
                j += 1
            cur += s[i:j + 1]
            i = j + 1
            continue
        if c in "({[":
            depth += 1
        elif c in ")}]":
            depth -= 1
        if c == sep and depth == 0:
            out.append(cur)
            cur = ""
        else:
            cur += c
        i += 1
    if cur.strip():
        out.append(cur)
    return [x.strip() for x in out]


def match_arms(body):
    """[(pattern text, arm body text)] of the top-level arms of a `match x { … }` body"""
    arms, i, n = [], 0, len(body)
    while i < n:
        # pattern up to top-level =>
        depth, j = 0, i
        while j < n:
            c = body[j]
            if c == '"':
                j += 1
                while body[j] != '"':
                    if body[j] == "\\":
                        j += 1
                    j += 1
            elif c == "'" and re.match(r"'(\\.|[^'\\])'", body[j:j + 4]):
                j += len(re.match(r"'(\\.|[^'\\])'", body[j:j + 4]).group(0)) - 1
            elif c in "({[":
                depth += 1
            elif c in ")}]":
                depth -= 1
            elif body.startswith("=>", j) and depth == 0:
                break
            j += 1
        if j >= n:
            break
        pat = body[i:j].strip()
        k = j + 2
        while k < n and body[k].isspace():
            k += 1
        if k < n and body[k] == "{":
            depth, e = 0, k
            while e < n:
                c = body[e]
                if c == '"':
                    e += 1
                    while body[e] != '"':
                        if body[e] == "\\":
                            e += 1
                        e += 1
                elif c == "{":
                    depth += 1
                elif c == "}":
                    depth -= 1
                    if depth == 0:
                        break
                e += 1
            arm = body[k + 1:e]
            e += 1
            while e < n and (body[e].isspace() or body[e] == ","):
                e += 1
        else:
            depth, e = 0, k
            blocklike = bool(re.match(r"(match|if)\b", body[k:]))
            while e < n:
                c = body[e]
                if c == '"':
                    e += 1
                    while body[e] != '"':
                        if body[e] == "\\":
                            e += 1
                        e += 1
                elif c in "({[":
                    depth += 1
                elif c in ")}]":
                    depth -= 1
                    if blocklike and c == "}" and depth == 0 and not re.match(r"\s*else\b", body[e + 1:]):
                        e += 1          # a block-like arm body ends at its closing brace (no comma needed)
                        break
                elif c == "," and depth == 0:
                    break
                e += 1
            arm = body[k:e]
            while e < n and (body[e].isspace() or body[e] == ","):
                e += 1
        if pat:
            arms.append((pat, arm.strip()))
        i = e
    return arms


def match_body(src, head_re, what):
    m = re.search(head_re, src)
    if not m:
        raise KeyError(what)
    i = src.index("{", m.end() - 1)
    depth, j = 0, i
    while j < len(src):
        c = src[j]
        if c == '"':
            j += 1
            while src[j] != '"':
                if src[j] == "\\":
                    j += 1
                j += 1
        elif c == "'" and re.match(r"'(\\.|[^'\\])'", src[j:j + 4]):
            j += len(re.match(r"'(\\.|[^'\\])'", src[j:j + 4]).group(0)) - 1
        elif c == "{":
            depth += 1
        elif c == "}":
            depth -= 1
            if depth == 0:
                return src[i + 1:j]
        j += 1
    raise KeyError(what + " (unbalanced)")


def fn_text(src, head_re, indent):
    """text of a function whose body contains raw strings (r"\\") that defeat brace matching:
    from the header to the closing brace at the header's indentation"""
    m = re.search(head_re, src)
    if not m:
        raise KeyError(head_re)
    e = src.index("\n" + indent + "}", m.end())
    return src[m.start():e]


def enum_discriminants(src, name):
    body = match_body(src, r"pub\s+enum\s+" + name + r"\s*\{", "enum " + name)
    out, nxt = {}, 0
    for part in split_top(body):
        part = re.sub(r"#\[[^\]]*\]", "", part).strip()
        part = re.sub(r"///[^\n]*", "", part).strip()
        if not part:
            continue
        m = re.fullmatch(r"(\w+)\s*(?:=\s*(\d+))?", part)
        if not m:
            raise ValueError("enum %s variant %r" % (name, part))
        if m.group(2) is not None:
            nxt = int(m.group(2))
        out[m.group(1)] = nxt
        nxt += 1
    return out


# --------------------------------------------------------------------------------------------
# symbolic reading of the arms of OpBuilder::add

FIELD_SHAPES = None   # filled from the enum declarations


def struct_fields(src, name):
    body = match_body(src, r"pub\s+struct\s+" + name + r"\s*\{", "struct " + name)
    return [m.group(1) for m in re.finditer(r"pub\s+(\w+)\s*:", body)]


class Sym:
    """operand cursor + bindings while reading one arm"""
    def __init__(self, S):
        self.S = S
        self.n = 0           # operands consumed
        self.shape = ""      # operand kinds in order: N number, / name, S string, O any, A array, I integer, * rest, J TJ-array
        self.env = {}

    def take(self, kind):
        self.shape += kind
        self.n += 1
        return [self.n - 1]

    def helper(self, fn):
        k = {"number": 1, "point": 2, "rect": 4, "rgb": 3, "cmyk": 4, "matrix": 6}
        if fn in k:
            out = []
            for _ in range(k[fn]):
                out += self.take("N")
            return out
        if fn == "name":
            return self.take("/")
        if fn == "string":
            return self.take("S")
        raise ValueError("helper " + fn)


ARGNEXT = r"args\.next\(\)\.ok_or\(PdfError::NoOpArg\)\?"


def eval_expr(e, sym):
    """value of a field expression as a list of slots (ints = operand index, strings = specials)"""
    e = e.strip()
    m = re.fullmatch(r"(number|point|rect|rgb|cmyk|matrix|name|string)\(\s*(?:&mut\s+)?args\s*\)\?", e)
    if m:
        return sym.helper(m.group(1))
    if re.fullmatch(r"Some\(\s*" + ARGNEXT + r"\s*\)", e):
        return ["some"] + sym.take("O")
    if e == "None":
        return ["none"]
    if e in ("NonZero", "Winding::NonZero"):
        return ["nonzero"]
    if e in ("EvenOdd", "Winding::EvenOdd"):
        return ["evenodd"]
    if e == "self.last":
        return ["lastx", "lasty"]
    m = re.fullmatch(r"-\s*(\w+)\.(\w+)", e)
    if m and m.group(1) in sym.env:
        v = sym.env[m.group(1)]
        idx = {"x": 0, "y": 1}[m.group(2)]
        return [("neg", v[idx])]
    m = re.fullmatch(r"Color::(Gray|Rgb|Cmyk)\((.*)\)", e, flags=re.S)
    if m:
        return [m.group(1).lower()] + eval_expr(m.group(2), sym)
    if re.fullmatch(r"Color::Other\(\s*args\.collect\(\)\s*\)", e):
        sym.shape += "*"
        return ["other", "rest"]
    m = re.fullmatch(r"(Matrix|Point|ViewRect|Rgb|Cmyk)\s*\{(.*)\}", e, flags=re.S)
    if m:
        fields = dict(field_inits(m.group(2)))
        out = []
        for f in sym.S[m.group(1)]:
            out += eval_expr(fields[f], sym)
        return out
    if re.fullmatch(r"\w+", e) and e in sym.env:
        return list(sym.env[e])
    raise ValueError("expression %r" % e)


def field_inits(s):
    out = []
    for part in split_top(s):
        m = re.fullmatch(r"(\w+)\s*:\s*(.*)", part, flags=re.S)
        if m:
            out.append((m.group(1), m.group(2)))
        elif re.fullmatch(r"\w+", part):
            out.append((part, part))
        else:
            raise ValueError("field init %r" % part)
    return out


def statements(body):
    """top-level `;`-separated statements of an arm body"""
    return [s for s in split_top(body, ";") if s]


def read_arm(pat, body, S, ctor_ids, ctor_fields):
    """-> (keywords, shape, pushes [(ctor id, slots)], effect)"""
    kws = re.findall(r'"((?:\\.|[^"\\])*)"', pat)
    kws = [k.replace('\\"', '"') for k in kws]
    sym = Sym(S)
    pushes, effect = [], "none"
    # special arms
    if "inline_image" in body:
        return kws, "", [(ctor_ids["InlineImage"], ["inline"])], "inline"
    if re.search(r"bail!", body) and "match" not in body:
        return kws, "", [], "error"
    # the d / j / J / Tr / TJ / ri arms have an inner shape the generic reader does not follow; they are
    # recognised by their distinctive calls and described by a code
    def push_re(b):
        return [(m.group(1), m.group(2)) for m in re.finditer(r"push\(\s*Op::(\w+)\s*(?:\{((?:[^{}]|\{[^{}]*\})*)\})?\s*\)", b, flags=re.S)]
    if re.search(r"as_array\(\)\?\.iter\(\)\.map\(\s*(?:\|(\w+)\|\s*\1\.as_number\(\)|Primitive::as_number)\s*\)", body):
        m = re.search(r"let\s+(\w+)\s*=\s*" + ARGNEXT + r"\s*;\s*let\s+(\w+)\s*=\s*\1\.as_array", body)
        ph = re.search(r"let\s+(\w+)\s*=\s*" + ARGNEXT + r"\.as_number\(\)\?", body)
        ps = push_re(body)
        if not (m and ph and len(ps) == 1):
            raise ValueError("dash arm shape")
        if body.index(m.group(0)) > body.index(ph.group(0)):
            raise ValueError("dash arm order")
        fields = dict(field_inits(ps[0][1]))
        env = {m.group(2): [0], ph.group(1): [1]}
        slots = []
        for f in ctor_fields[ps[0][0]]:
            slots += env[fields[f].strip()]
        return kws, "AN", [(ctor_ids[ps[0][0]], slots)], "none"
    m = re.search(ARGNEXT + r"\.as_integer\(\)\?", body)
    if m:
        ps = push_re(body)
        if len(ps) != 1:
            raise ValueError("enum arm shape")
        return kws, "I", [(ctor_ids[ps[0][0]], [0])], "none"
    if re.search(r"array\(\s*&mut\s+args\s*\)\?", body):
        ps = push_re(body)
        if len(ps) != 1 or "TextDrawAdjusted::Spacing" not in body or "TextDrawAdjusted::Text" not in body:
            raise ValueError("TJ arm shape")
        return kws, "J", [(ctor_ids[ps[0][0]], [0])], "none"
    if "RenderingIntent::from_str" in body:
        ps = push_re(body)
        nm = re.search(r"let\s+(\w+)\s*=\s*name\(\s*&mut\s+args\s*\)\?", body)
        if len(ps) != 1 or not nm:
            raise ValueError("ri arm shape")
        return kws, "/", [(ctor_ids[ps[0][0]], [0])], "none"
    for st in statements(body):
        st = st.strip()
        if not st:
            continue
        m = re.fullmatch(r"(points|numbers|names)!\(\s*args\s*,\s*([\w\s,]+)\)", st)
        if m:
            for v in [x.strip() for x in m.group(2).split(",") if x.strip()]:
                sym.env[v] = sym.helper({"points": "point", "numbers": "number", "names": "name"}[m.group(1)])
            continue
        m = re.fullmatch(r"let\s+(\w+)\s*=\s*(.*)", st, flags=re.S)
        if m:
            sym.env[m.group(1)] = eval_expr(m.group(2), sym)
            continue
        m = re.fullmatch(r"push\(\s*Op::(\w+)\s*(?:\{(.*)\})?\s*\)", st, flags=re.S)
        if m:
            ctor = m.group(1)
            slots = []
            if m.group(2) is not None:
                fields = dict(field_inits(m.group(2)))
                for f in ctor_fields[ctor]:
                    slots += eval_expr(fields[f], sym)
            pushes.append((ctor_ids[ctor], slots))
            continue
        m = re.fullmatch(r"self\.last\s*=\s*(\w+)", st)
        if m:
            v = sym.env[m.group(1)]
            if effect != "none" or len(v) != 2:
                raise ValueError("self.last assignment")
            effect = ("last", v[0], v[1])
            continue
        m = re.fullmatch(r"self\.compability_section\s*=\s*(true|false)", st)
        if m:
            effect = "compat_" + m.group(1)
            continue
        if st == "use Winding::*" or st.startswith("use "):
            continue
        raise ValueError("statement %r in arm %s" % (st[:60], pat))
    return kws, sym.shape, pushes, effect


SPECIAL = {"lastx": 100, "lasty": 101, "some": 110, "none": 111, "nonzero": 120, "evenodd": 121,
           "gray": 130, "rgb": 131, "cmyk": 132, "other": 133, "rest": 134, "inline": 140}


def slot_code(s):
    if isinstance(s, int):
        return s
    if isinstance(s, tuple) and s[0] == "neg":
        return 200 + s[1]
    return SPECIAL[s]


OP_KEYWORD_ORDER = ['b', 'B', 'b*', 'B*', 'BDC', 'BI', 'BMC', 'BT', 'BX', 'c', 'cm', 'CS', 'cs', 'd', 'd0', 'd1', 'Do', 'Do0', 'DP', 'EI',
                    'EMC', 'ET', 'EX', 'f', 'F', 'f*', 'G', 'g', 'gs', 'h', 'i', 'ID', 'j', 'J', 'K', 'k', 'l', 'm', 'M', 'MP', 'n',
                    'q', 'Q', 're', 'RG', 'rg', 'ri', 's', 'S', 'SC', 'SCN', 'sc', 'scn', 'sh', 'T*', 'Tc', 'Td', 'TD', 'Tf', 'Tj',
                    'TJ', 'TL', 'Tm', 'Tr', 'Ts', 'Tw', 'Tz', 'v', 'w', 'W', 'W*', 'y', "'", '"']

EFFECT = {"none": 0, "compat_true": 1, "compat_false": 2, "error": 3, "inline": 4}


# --------------------------------------------------------------------------------------------
# symbolic reading of serialize_ops

def write_entries(body, S, ctor_ids, ctor_fields):
    """one entry per (arm, branch): (ctor id, tag slots describing the pattern, keyword, operand slots, advance)"""
    out = []
    for pat, arm in match_arms(body):
        m = re.fullmatch(r"Op::(\w+)\s*(?:\{(.*)\})?", pat, flags=re.S)
        if not m:
            raise ValueError("writer pattern %r" % pat)
        ctor = m.group(1)
        env, tag = {}, []
        if m.group(2):
            for f, v in field_inits(re.sub(r",?\s*\.\.\s*$", "", m.group(2).replace("ref ", "").strip())):
                if f == "_" or v.strip() == "_":
                    continue                         # `field: _` and a trailing `..` both ignore fields
                v = v.strip()
                fi = field_slot_base(ctor, f, S, ctor_fields)
                mm = re.fullmatch(r"Winding::(\w+)", v)
                if mm:
                    tag.append(SPECIAL[mm.group(1).lower()])
                    continue
                mm = re.fullmatch(r"Color::(Gray|Rgb|Cmyk|Other)\(\s*(?:ref\s+)?(\w+)\s*\)", v)
                if mm:
                    tag.append(SPECIAL[mm.group(1).lower()])
                    env[mm.group(2)] = ("color", mm.group(1))
                    continue
                mm = re.fullmatch(r"Some\(\s*(?:ref\s+)?(\w+)\s*\)", v)
                if mm:
                    tag.append(SPECIAL["some"])
                    env[mm.group(1)] = ("field", fi, 1)
                    continue
                if v == "None":
                    tag.append(SPECIAL["none"])
                    continue
                if re.fullmatch(r"\w+", v):
                    env[v] = ("field", fi, field_width(ctor, f, S))
                    continue
                raise ValueError("writer field pattern %r" % v)
        out += write_arm(ctor, tag, env, arm, S, ctor_ids, ctor_fields)
    return out


FIELD_TYPES = {}


def field_width(ctor, f, S):
    t = FIELD_TYPES[ctor][f]
    return {"Point": 2, "ViewRect": 4, "Matrix": 6}.get(t, 1)


def field_slot_base(ctor, f, S, ctor_fields):
    base = 0
    for g in ctor_fields[ctor]:
        if g == f:
            return base
        base += field_width(ctor, g, S)
    raise ValueError("field %s of %s" % (f, ctor))


def fmt_operands(fmt, args, env, S):
    """slots written by one write!/writeln! format string with its arguments"""
    slots = []
    holes = re.findall(r"\{(\w*)\}", fmt)
    ai = 0
    for h in holes:
        if h:
            a = h
        else:
            a = args[ai]
            ai += 1
        slots += operand_slots(a.strip(), env, S)
    return slots


def operand_slots(a, env, S):
    a = a.strip()
    m = re.fullmatch(r"(\w+)\.(\w+)", a)
    if m and m.group(1) in env and env[m.group(1)][0] == "field":
        _, base, w = env[m.group(1)]
        idx = {"x": 0, "y": 1}[m.group(2)]
        return [base + idx]
    m = re.fullmatch(r"(\w+)\.iter\(\)\.format\(\s*\" \"\s*\)", a)
    if m and m.group(1) in env:
        return [env[m.group(1)][1]]
    m = re.fullmatch(r"(\w+)\s+as\s+u8", a)
    if m and m.group(1) in env:
        return [env[m.group(1)][1]]
    m = re.fullmatch(r"(\w+)\.to_str\(\)", a)
    if m and m.group(1) in env:
        return [env[m.group(1)][1]]
    if a in env:
        e = env[a]
        if e[0] == "field":
            return list(range(e[1], e[1] + e[2]))
        if e[0] == "color":
            return list(range(0, {"Gray": 1, "Rgb": 3, "Cmyk": 4}[e[1]]))
    raise ValueError("writer operand %r" % a)


def write_seq(code, env, S):
    """(slots, keyword) written by a straight-line sequence of write calls"""
    slots, text_tail = [], ""
    pos = 0
    calls = []
    for m in re.finditer(r"(serialize_name)\(\s*(\w+)\s*,\s*f\s*\)\?|(\w+)\.serialize\(\s*f\s*\)\?|(write|writeln)!\(\s*f\s*,\s*\"((?:\\.|[^\"\\])*)\"\s*((?:,[^;]*?)?)\)\?", code, flags=re.S):
        calls.append(m)
    kw = None
    for m in calls:
        if m.group(1):
            slots += operand_slots(m.group(2), env, S)
        elif m.group(3):
            slots += operand_slots(m.group(3), env, S)
        else:
            fmt = m.group(5).replace('\\"', '"')
            args = split_top(m.group(6)[1:]) if m.group(6).strip() else []
            # a string literal given as an argument (a keyword passed to a helper that was inlined) is part of the text
            parts, k = re.split(r"(\{\})", fmt), 0
            for i_, part in enumerate(parts):
                if part == "{}" and k < len(args):
                    if re.fullmatch(r'"(?:\\.|[^"\\])*"', args[k].strip()):
                        parts[i_] = args[k].strip()[1:-1]
                        args[k] = None
                    k += 1
            fmt, args = "".join(parts), [a for a in args if a is not None]
            slots += fmt_operands(fmt, args, env, S)
            # "/{}" writes a name operand: the slash is the name marker, not part of the keyword
            lit = re.sub(r"/?\{\w*\}", " ", fmt).replace("[", " ").replace("]", " ").strip()
            if lit:
                if kw is not None:
                    raise ValueError("two keywords in one arm: %r %r" % (kw, lit))
                kw = lit
    if kw is None:
        raise ValueError("no keyword written in %r" % code[:60])
    return slots, kw


def write_arm(ctor, tag, env, arm, S, ctor_ids, ctor_fields):
    cid = ctor_ids[ctor]
    arm = arm.strip()
    if arm.startswith("unimplemented!"):
        return [(cid, tag, "", [SPECIAL["inline"]], 0)]
    # look-ahead forms
    m = re.match(r"match\s+ops\.get\(1\)\s*\{(.*)\}\s*$", arm, flags=re.S)
    if m:
        out = []
        for pat, b in match_arms(m.group(1)):
            mm = re.fullmatch(r"Some\(\s*Op::(\w+)\s*(?:\{\s*winding:\s*Winding::(\w+)\s*\})?\s*\)", pat)
            if mm:
                s, kw = write_seq(b, env, S)
                adv = len(re.findall(r"advance\s*\+=\s*1", b))
                out.append((cid, tag + [300 + ctor_ids[mm.group(1)]] + ([SPECIAL[mm.group(2).lower()]] if mm.group(2) else []), kw, s, adv))
            elif pat == "_":
                s, kw = write_seq(b, env, S)
                out.append((cid, tag, kw, s, 0))
            else:
                raise ValueError("look-ahead pattern %r" % pat)
        return out
    m = re.match(r"if\s+let\s+\[(.*?)\]\s*=\s*ops\[1\.\.\]\s*\{(.*?)\}\s*else\s*\{(.*)\}\s*$", arm, flags=re.S)
    if m:
        env2 = dict(env)
        look = []
        base = 50
        for item in split_top(m.group(1)):
            if item == "..":
                continue
            mm = re.fullmatch(r"Op::(\w+)\s*(?:\{\s*(?:ref\s+)?(\w+)\s*\})?", item)
            if not mm:
                raise ValueError("slice pattern %r" % item)
            look.append(300 + ctor_ids[mm.group(1)])
            if mm.group(2):
                env2[mm.group(2)] = ("field", base, field_width(mm.group(1), mm.group(2), S))
            base += 10
        s, kw = write_seq(m.group(2), env2, S)
        adv = sum(int(x) for x in re.findall(r"advance\s*\+=\s*(\d+)", m.group(2)))
        s2, kw2 = write_seq(m.group(3), env, S)
        return [(cid, tag + look, kw, s, adv), (cid, tag, kw2, s2, 0)]
    m = re.match(r"match\s+ops\[1\.\.\]\s*\{(.*)\}\s*$", arm, flags=re.S)
    if m:
        out = []
        for pat, b in match_arms(m.group(1)):
            mm = re.fullmatch(r"\[\s*Op::(\w+)\s*\{\s*(\w+)\s*\}\s*,\s*\.\.\s*\]\s*if\s+(\w+)\s*==\s*-\s*(\w+)\.(\w+)", pat)
            if mm:
                env2 = dict(env)
                env2[mm.group(2)] = ("field", 50, field_width(mm.group(1), mm.group(2), S))
                if mm.group(4) != mm.group(2) or mm.group(3) not in env:
                    raise ValueError("TD guard %r" % pat)
                guard = 400 + {"x": 0, "y": 1}[mm.group(5)]
                s, kw = write_seq(b, env2, S)
                adv = len(re.findall(r"advance\s*\+=\s*1", b))
                out.append((cid, tag + [300 + ctor_ids[mm.group(1)], guard], kw, s, adv))
            elif pat == "_":
                s, kw = write_seq(b, env, S)
                out.append((cid, tag, kw, s, 0))
            else:
                raise ValueError("look-ahead pattern %r" % pat)
        return out
    if ctor == "CurveTo":
        # if Some(c1) == current_point { v } else if c2 == p { y } else { c }
        m = re.match(r"if\s+Some\((\w+)\)\s*==\s*current_point\s*\{(.*?)\}\s*else\s+if\s+(\w+)\s*==\s*(\w+)\s*\{(.*?)\}\s*else\s*\{(.*?)\}\s*current_point\s*=\s*Some\((\w+)\)", arm, flags=re.S)
        if not m:
            raise ValueError("CurveTo arm shape")
        out = []
        for guard, b in ((500 + env[m.group(1)][1], m.group(2)), (600 + env[m.group(3)][1] * 10 + env[m.group(4)][1], m.group(5)), (None, m.group(6))):
            s, kw = write_seq(b, env, S)
            out.append((cid, tag + ([guard] if guard is not None else []) + [700 + env[m.group(7)][1]], kw, s, 0))
        return out
    if ctor in ("StrokeColor", "FillColor") and any(v[0] == "color" and v[1] == "Other" for v in env.values()):
        # every operand followed by a space, then the keyword (the loop may live in a private helper: the caller inlines it)
        (rest,) = [n for n, v in env.items() if v[0] == "color" and v[1] == "Other"]
        kw = re.search(r"writeln!\(\s*f\s*,\s*\"(\w+)\"\s*\)", arm).group(1)
        if not re.search(r"for\s+(\w+)\s+in\s+" + rest + r"(?:\.iter\(\))?\s*\{\s*\1\.serialize\(f\)\?;\s*write!\(f,\s*\" \"\)\?;\s*\}", arm):
            raise ValueError("Color::Other arm shape")
        return [(cid, tag, kw, [SPECIAL["rest"]], 0)]
    if ctor == "TextDrawAdjusted":
        s = re.sub(r"\s+", "", arm)
        want = ('write!(f,"[")?;for(i,val)inarray.iter().enumerate(){ifi>0{write!(f,"")?;}matchval{'
                'TextDrawAdjusted::Spacing(s)=>write!(f,"{s}")?,TextDrawAdjusted::Text(data)=>data.serialize(f)?,}}writeln!(f,"]TJ")?;')
        if s.replace('" "', '""') != want:
            raise ValueError("TJ writer arm shape")
        return [(cid, tag, "TJ", [0], 0)]
    cp = re.search(r"current_point\s*=\s*Some\((\w+)\)", arm)
    s, kw = write_seq(arm, env, S)
    return [(cid, tag + ([700 + env[cp.group(1)][1]] if cp else []), kw, s, 0)]


# --------------------------------------------------------------------------------------------

def extract(g, X):
    prim = X.source("pdf/src/primitive.rs")
    cont = X.source("pdf/src/content.rs")
    types = X.source("pdf/src/object/types.rs")
    objm = X.source("pdf/src/object/mod.rs")

    # serialize_name's tables (name_ser_raw_lo/hi/except) are generated by gen/extract_syn.py


    def serstr():
        impl = prim[prim.index("impl PdfString {"):]
        b = fn_text(impl, r"pub\s+fn\s+serialize\s*\(", "    ")
        (params, expr), = X.closures(b, "any")
        hexed = X.byte_set(expr, X.closure_var(params), prim)
        thr = min(hexed)
        if hexed != set(range(thr, 256)):
            raise ValueError("hex condition is not a threshold")
        e = re.search(r"((?:" + X.BYTE + r"\s*\|\s*)*" + X.BYTE + r")\s*=>\s*write!\(\s*\w+\s*,\s*r\"\\\"\s*\)", b)
        if '"{:02x}"' not in b or 'r"("' not in b or 'r")"' not in b or '"<"' not in b or '">"' not in b:
            raise ValueError("string delimiters / hex format changed")
        return str(thr), clist(str(v) for v in X.ordered(X.pattern_set(e.group(1)), [92, 40, 41]))
    g.attempt([("string_hex_from", "N"), ("string_escaped", "list N")], "primitive.rs:PdfString::serialize", serstr)

    # operand-reading helpers that are simple wrappers (`fn integer(args) -> Result<i32> { args.next().ok_or(NoOpArg)?.as_integer() }`)
    # are read where they are called: `integer(&mut args)?` is `args.next().ok_or(PdfError::NoOpArg)?.as_integer()?`.  The
    # helpers the symbolic reader knows by name (number, point, rect, …) stay calls.
    KNOWN_HELPERS = ("number", "point", "rect", "rgb", "cmyk", "matrix", "name", "string", "array")

    def expand_wrappers(text):
        for m in re.finditer(r"\bfn\s+(\w+)\s*\(\s*(\w+)\s*:\s*&mut\s+impl\s+Iterator<\s*Item\s*=\s*Primitive\s*>\s*\)", cont):
            h, prm = m.group(1), m.group(2)
            if h in KNOWN_HELPERS:
                continue
            hb = X.fn_body(cont, h).strip()
            if ";" in hb or "{" in hb or not hb.startswith(prm + ".next()"):
                continue
            inlined = re.sub(r"\b" + prm + r"\b", "args", hb)
            text = re.sub(r"\b" + h + r"\(\s*(?:&mut\s+)?args\s*\)\s*\?", lambda _m: inlined + "?", text)
        return text
    add_body = expand_wrappers(X.fn_body(cont, "add"))
    add_match = match_body(add_body, r"match\s+op\s*\{", "match op in OpBuilder::add")
    arms = match_arms(add_match)

    def enum_codes(kw, enum):
        def f():
            disc = enum_discriminants(cont, enum)
            arm = [b for p, b in arms if re.fullmatch(r'"%s"' % re.escape(kw), p.strip())]
            if len(arm) != 1:
                raise ValueError("arm " + kw)
            inner = match_body(arm[0], r"match\s+\w+\s*\{", "match on the integer operand")
            out = []
            for p, b in match_arms(inner):
                if re.fullmatch(r"\d+", p.strip()):
                    v = re.fullmatch(r"(?:%s::)?(\w+)" % enum, b.strip())
                    out.append((int(p), disc[v.group(1)]))
            if not out:
                raise ValueError("no integer arms")
            return X.ctuples(out)
        return f
    g.attempt([("line_join_codes", "list (N * N)")], "content.rs:OpBuilder::add \"j\"", enum_codes("j", "LineJoin"))
    g.attempt([("line_cap_codes", "list (N * N)")], "content.rs:OpBuilder::add \"J\"", enum_codes("J", "LineCap"))
    g.attempt([("text_mode_codes", "list (N * N)")], "content.rs:OpBuilder::add \"Tr\"", enum_codes("Tr", "TextMode"))

    RI_ORDER = ["AbsoluteColorimetric", "RelativeColorimetric", "Perceptual", "Saturation"]

    def ri():
        impl = types[types.index("impl RenderingIntent"):]
        fs = X.fn_body(impl, "from_str")
        ts = X.fn_body(impl, "to_str")
        to = {}
        for arm in X.match_arms(ts, r"\*?\w+"):
            m = re.fullmatch(r'"(\w+)"', arm.expr)
            for p in arm.pats:
                mp = re.fullmatch(r"(?:RenderingIntent|Self)::(\w+)", p)
                if m and mp:
                    to[mp.group(1)] = m.group(1)
        out = []
        for arm in X.match_arms(fs, r"\w+"):
            m = re.fullmatch(r"Some\(\s*(?:RenderingIntent|Self)::(\w+)\s*\)", arm.expr)
            for p in arm.pats:
                if m and arm.guard is None and re.fullmatch(r'"\w+"', p):
                    out.append((p[1:-1], to[m.group(1)]))
        if not out:
            raise ValueError("no arms")
        # string patterns are disjoint: the order of the arms is immaterial
        return clist("(%s, %s)" % (cbytes(a), cbytes(b)) for a, b in X.ordered_by_key(out, RI_ORDER))
    g.attempt([("ri_table", "list (list N * list N)")], "types.rs:RenderingIntent::from_str/to_str", ri)

    KEY_ABBR = ["BPC", "CS", "D", "DP", "F", "H", "IM", "I", "W"]
    CS_ABBR = ["G", "RGB", "CMYK", "I"]
    FILTER_ABBR = ["AHx", "A85", "LZW", "Fl", "RL", "CCF", "DCT"]

    def abbr():
        b = X.fn_body(cont, "inline_image")

        def table(arg, house):
            """the (abbreviation, full name) pairs of a table given in place (`&[(..), ..]`) or through a const"""
            t = X.deref(re.sub(r"^&\s*", "", arg.strip()), b, cont)
            t = re.sub(r"^&\s*", "", t).strip()
            if not (t.startswith("[") and X.close_of(t, 0) == len(t) - 1):
                raise ValueError("abbreviation table %r" % arg[:40])
            rows = []
            for item in X.split_top(t[1:-1], ","):
                m = re.fullmatch(r'\(\s*"(\w+)"\s*,\s*"(\w+)"\s*\)', item)
                if not m:
                    raise ValueError("table entry %r" % item[:40])
                rows.append((m.group(1), m.group(2)))
            return clist("(%s, %s)" % (cbytes(a), cbytes(r)) for a, r in X.ordered_by_key(rows, house))

        def call_args(m):
            o = m.end() - 1
            return X.split_top(b[o + 1:X.close_of(b, o)], ",")
        keys = [call_args(m) for m in re.finditer(r"\bexpand_abbr_name\s*\(", b)]
        if len(keys) != 1:
            raise ValueError("expand_abbr_name calls: %d" % len(keys))
        uses = {}
        for m in re.finditer(r"\bexpand_abbr\s*\(", b):
            (sa, sb), = [(x, y) for x, y in X.statements(b) if x <= m.start() < y]
            stmt = b[sa:m.start()]
            k = re.findall(r'\w+\s*\.\s*(?:get|remove)\(\s*"(\w+)"\s*\)', stmt)
            if len(k) != 1 or k[0] in uses:
                raise ValueError("use of the tables changed")
            uses[k[0]] = call_args(m)[1]
        if sorted(uses) != ["ColorSpace", "Filter"]:
            raise ValueError("use of the tables changed: %r" % sorted(uses))
        return table(keys[0][1], KEY_ABBR), table(uses["ColorSpace"], CS_ABBR), table(uses["Filter"], FILTER_ABBR)
    g.attempt([("inline_key_abbr", "list (list N * list N)"), ("inline_cs_abbr", "list (list N * list N)"),
               ("inline_filter_abbr", "list (list N * list N)")], "content.rs:inline_image", abbr)

    def invalid_ops():
        impl = objm[objm.index("impl ParseOptions"):]
        b = X.fn_body(impl, "strict")
        m = re.search(r"allow_invalid_ops\s*:\s*(true|false)", b)
        pb = X.fn_body(cont, "parse")
        # an error of `self.add(..)` is dropped iff allow_invalid_ops: a guarded `Err(e) if … =>` arm in front of the
        # returning one, or `if let Err(e) = … { if … { warn } else { return Err(e) } }`
        consulted = False
        for arm in X.match_arms(pb, r"self\.add\(.*\)"):
            pe = re.fullmatch(r"Err\(\s*(\w+)\s*\)", arm.pattern)
            if not pe:
                continue
            if arm.guard is not None:
                consulted = bool(re.fullmatch(r"\w+\.options\(\)\.allow_invalid_ops", arm.guard)) and "return" not in arm.expr
                break
            mi = re.match(r"if\s+\w+\.options\(\)\.allow_invalid_ops\s*\{", arm.expr)
            if mi:
                c = X.close_of(arm.expr, mi.end() - 1)
                consulted = ("return" not in arm.expr[mi.end():c] and
                             bool(re.fullmatch(r"\s*else\s*\{\s*return\s+Err\(\s*" + pe.group(1) + r"\s*\)\s*;?\s*\}\s*", arm.expr[c + 1:])))
            break
        if not consulted:
            raise ValueError("OpBuilder::parse no longer consults allow_invalid_ops")
        return m.group(1)
    g.attempt([("allow_invalid_ops_strict", "bool")], "object/mod.rs:ParseOptions::strict", invalid_ops)

    # ---- operator tables ---------------------------------------------------------------------
    S = {}

    def ctors():
        body = match_body(cont, r"pub\s+enum\s+Op\s*\{", "enum Op")
        names, fields = [], {}
        for part in split_top(body):
            part = re.sub(r"#\[[^\]]*\]", "", part).strip()
            if not part:
                continue
            m = re.fullmatch(r"(\w+)\s*(?:\{(.*)\})?", part, flags=re.S)
            if not m:
                raise ValueError("Op variant %r" % part[:40])
            names.append(m.group(1))
            fs = []
            FIELD_TYPES[m.group(1)] = {}
            if m.group(2):
                for f in split_top(m.group(2)):
                    mm = re.fullmatch(r"(\w+)\s*:\s*(.*)", f, flags=re.S)
                    fs.append(mm.group(1))
                    FIELD_TYPES[m.group(1)][mm.group(1)] = mm.group(2).strip()
            fields[m.group(1)] = fs
        return names, fields

    state = {}

    def ctor_names():
        names, fields = ctors()
        state["names"], state["fields"] = names, fields
        state["ids"] = {n: i for i, n in enumerate(names)}
        for s in ("Point", "ViewRect", "Matrix", "Rgb", "Cmyk"):
            S[s] = struct_fields(cont, s)
        return clist(cbytes(n) for n in names)
    g.attempt([("op_ctor_names", "list (list N)")], "content.rs:enum Op", ctor_names)

    def read_table():
        out = []
        seen_catch = 0
        for pat, body in arms:
            if not pat.strip().startswith('"'):
                seen_catch += 1
                continue
            kws, shape, pushes, effect = read_arm(pat, body, S, state["ids"], state["fields"])
            if isinstance(effect, tuple):
                eff = "[5; %d; %d]" % (slot_code(effect[1]), slot_code(effect[2]))
            else:
                eff = "[%d]" % EFFECT[effect]
            for kw in kws:
                out.append((kw, "(%s, (%s, (%s, %s)))" % (
                    cbytes(kw), cbytes(shape),
                    clist("(%d, %s)" % (c, clist(str(slot_code(s)) for s in sl)) for c, sl in pushes), eff)))
        if seen_catch != 2:
            raise ValueError("catch-all arms: %d" % seen_catch)
        # the string patterns are disjoint (a keyword listed twice is an error), so the order of the arms is immaterial:
        # rows are listed in the order Generated.v has always had (OP_KEYWORD_ORDER), unknown keywords after them
        return clist(row for _, row in X.ordered_by_key(out, OP_KEYWORD_ORDER))
    g.attempt([("op_read_table", "list (list N * (list N * (list (N * list N) * list N)))")],
              "content.rs:OpBuilder::add", read_table)

    def write_table():
        # statements moved into private helper fns are read where they are called (one chain of helpers)
        b = X.inline_calls(X.fn_body(cont, "serialize_ops"), cont)
        mb = match_body(b, r"match\s+ops\[0\]\s*\{", "match ops[0]")
        ents = write_entries(mb, S, state["ids"], state["fields"])
        if not re.search(r"let\s+mut\s+current_point\s*=\s*None", b):
            raise ValueError("current_point initialisation")
        return clist("(%d, (%s, (%s, (%s, %d))))" % (c, clist(str(t) for t in tag), cbytes(kw), clist(str(x) for x in s), adv)
                     for c, tag, kw, s, adv in ents)
    g.attempt([("op_write_table", "list (N * (list N * (list N * (list N * N))))")],
              "content.rs:serialize_ops", write_table)
