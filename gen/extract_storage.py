"""gen/extract_storage.py — literals of pdf/src/file.rs (Updater impl, save / write_revision) and
pdf/src/xref.rs (XRefTable::new, write_stream, byte_len) that the storage model is written against.
Each value is tied to the model by a lemma of coq/theories/Storage/Tables.v proved by computation."""
import re


def cbytes(b):
    return "[" + "; ".join(str(x) for x in b) + "]"


def rust_str(lit):
    """bytes of a Rust string literal body (\\n and \\\\ escapes only)"""
    return lit.encode().decode("unicode_escape").encode("latin-1")


def extract(g, X):
    file_rs = X.strip_comments(X.read("pdf/src/file.rs"))
    xref_rs = X.strip_comments(X.read("pdf/src/xref.rs"))

    def save_size():
        b = X.fn_body(file_rs, "save")
        m = re.search(r"trailer\.size\s*=\s*\(self\.refs\.len\(\)\s*\+\s*(\d+)\)", b)
        return m.group(1)
    g.attempt([("sto_size_plus", "N")], "file.rs:save trailer.size", save_size)

    def revision_literals():
        b = X.fn_body(file_rs, "write_revision")
        loop = re.search(r"for\s*&\(&\w+.*?\{(.*?)\n        \}", b, flags=re.S).group(1)
        hdr = re.search(r'writeln!\(self\.backend,\s*"([^"]*)",\s*\w+,\s*\w+\)', loop).group(1)
        end = re.search(r'\w+\.serialize\(&mut self\.backend\)\?;\s*writeln!\(self\.backend,\s*"([^"]*)"\)', loop).group(1)
        rel = 1 if re.search(r"let\s+\w+\s*=\s*self\.backend\.len\(\)\s*-\s*self\.start_offset\s*;", loop) else 0
        xrel = 1 if re.search(r"\}\s*let\s+\w+\s*=\s*self\.backend\.len\(\)\s*-\s*self\.start_offset\s*;", b) else 0
        xhdr = re.search(r'writeln!\(self\.backend,\s*"([^"]*)",\s*\w+\.get_inner\(\)\.id,\s*0\)', b).group(1)
        xend = re.findall(r'\w+\.serialize\(&mut self\.backend\)\?;\s*writeln!\(self\.backend,\s*"([^"]*)"\)', b)[-1]
        tail = re.search(r'write!\(self\.backend,\s*"([^"]*)",\s*\w+\)', b).group(1)
        wsz = re.search(r"write_stream\(\w+\.get_inner\(\)\.id\s+as\s+usize\s*\+\s*(\d+)\)", b).group(1)
        pre, post = tail.split("{}")
        # "{} {} obj" + newline of writeln!
        return (cbytes(rust_str(hdr.replace("{}", "")) + b"\n"), cbytes(rust_str(end) + b"\n"), str(rel), str(xrel),
                cbytes(rust_str(xhdr.replace("{}", "")) + b"\n"), cbytes(rust_str(xend) + b"\n"),
                cbytes(rust_str(pre)), cbytes(rust_str(post)), wsz)
    g.attempt([("sto_obj_header_fmt", "list N"), ("sto_obj_end", "list N"), ("sto_pos_relative", "N"), ("sto_xpos_relative", "N"),
               ("sto_xobj_header_fmt", "list N"), ("sto_xobj_end", "list N"), ("sto_tail_pre", "list N"), ("sto_tail_post", "list N"),
               ("sto_write_stream_plus", "N")], "file.rs:write_revision", revision_literals)

    def rollback():
        b = X.fn_body(file_rs, "save")
        m = re.search(r"if\s+let\s+Err\((\w+)\)\s*=\s*self\.write_revision\(&\w+\)\s*\{(.*?)return\s+Err\(\1\);", b, flags=re.S)
        if not m:
            return "0"
        t1 = re.search(r"self\.backend\.truncate\((\w+)\);", m.group(2))
        t2 = re.search(r"self\.refs\.truncate\((\w+)\);", m.group(2))
        if not (t1 and t2):
            return "0"
        head = b[:m.start()]
        d1 = re.search(r"let\s+" + t1.group(1) + r"\s*=\s*self\.backend\.len\(\);", head)
        d2 = re.search(r"let\s+" + t2.group(1) + r"\s*=\s*self\.refs\.len\(\);", head)
        # both snapshots are taken after Trailer::to_dict and before write_revision
        td = re.search(r"\.to_dict\(self\)\?;", head)
        return "1" if d1 and d2 and td and d1.start() > td.end() and d2.start() > td.end() else "0"
    g.attempt([("sto_save_rolls_back", "N")], "file.rs:save rollback", rollback)

    def update_arms():
        b = X.fn_body(file_rs, "update")
        arms = {}
        for name in ("Free", "Raw", "Stream", "Promised", "Invalid"):
            m = re.search(r"XRef::" + name + r"\s*(?:\{[^}]*\})?\s*=>\s*([^\n]*)", b)
            t = m.group(1)
            if "panic!" in t:
                arms[name] = 0
            elif re.search(r"PlainRef\s*\{\s*id:\s*\w+\.id,\s*gen:\s*gen_nr\s*\}", t):
                arms[name] = 1
            elif re.search(r"PlainRef\s*\{\s*id:\s*\w+\.id,\s*gen:\s*0\s*\}", t):
                arms[name] = 2
            else:
                arms[name] = 9
        clears = len(re.findall(r"self\.cache\.clear\(\)", b))
        merge = 1 if "append(" in b else 0
        cb = X.fn_body(file_rs, "create")
        cclears = len(re.findall(r"self\.cache\.clear\(\)", cb))
        return cbytes([arms[n] for n in ("Free", "Raw", "Stream", "Promised", "Invalid")]), str(clears), str(merge), str(cclears)
    g.attempt([("sto_update_arms", "list N"), ("sto_update_cache_clears", "N"), ("sto_update_merges", "N"), ("sto_create_cache_clears", "N")],
              "file.rs:Updater::update/create", update_arms)

    def table_new():
        b = X.fn_body(xref_rs, "new")
        m = re.search(r"XRef::Free\s*\{\s*next_obj_nr:\s*(\w+),\s*gen_nr:\s*(\w+)\s*\}", b)
        return str(X.lit(m.group(1))), str(X.lit(m.group(2)))
    g.attempt([("sto_new_free_next", "N"), ("sto_new_free_gen", "N")], "xref.rs:XRefTable::new", table_new)

    def write_stream():
        b = X.fn_body(xref_rs, "write_stream")
        codes = []
        for name in ("Free", "Raw", "Stream"):
            m = re.search(r"XRef::" + name + r"\s*\{[^}]*\}\s*=>\s*\((\d+),", b)
            codes.append(int(m.group(1)))
        w = re.search(r"w:\s*vec!\[(\d+),\s*a_w,\s*b_w\]", b).group(1)
        ix = re.search(r"index:\s*vec!\[(\d+),\s*size\s+as\s+u32\]", b).group(1)
        sl = re.findall(r"to_be_bytes\(\)\[(\d+)\s*-\s*(\w+)\s*\.\.\]", b)
        if [x[1] for x in sl] != ["a_w", "b_w"]:
            raise ValueError("field slices")
        return cbytes(codes), w, ix, cbytes([int(x[0]) for x in sl])
    g.attempt([("sto_xref_type_codes", "list N"), ("sto_xref_w0", "N"), ("sto_xref_index0", "N"), ("sto_xref_be_base", "list N")],
              "xref.rs:write_stream", write_stream)

    def byte_len():
        b = X.fn_body(xref_rs, "byte_len")
        m = re.search(r"\((\d+)\s*\+\s*(\d+)\s*-\s*(\d+)\s*-\s*n\.leading_zeros\(\)\)\s*as\s+usize\s*/\s*(\d+)\s*\+\s*\(n\s*==\s*(\d+)\)\s*as\s+usize", b)
        return cbytes([int(x) for x in m.groups()])
    g.attempt([("sto_byte_len_consts", "list N")], "xref.rs:byte_len", byte_len)

    def resolve_first():
        b = X.fn_body(file_rs, "resolve_ref")
        m = re.search(r"match\s+self\.changes\.get\(&r\.id\)\s*\{\s*Some\(\(p,\s*_\)\)\s*=>\s*Ok\(\(\*p\)\.clone\(\)\)", b)
        # the object is read at header position + table offset (plain or checked addition)
        off = re.search(r"self\.start_offset\s*\+\s*pos\s*\.\.", b) or \
            (re.search(r"let\s+pos\s*=\s*t!\(self\.start_offset\.checked_add\(pos\)", b) and re.search(r"self\.backend\.read\(pos\s*\.\.\)", b))
        return "1" if m and off else "0"
    g.attempt([("sto_resolve_changes_first", "N")], "file.rs:resolve_ref", resolve_first)
