"""gen/extract_storage.py — literals of pdf/src/file.rs (Updater impl, save / write_revision) and
pdf/src/xref.rs (XRefTable::new, write_stream, byte_len) that the storage model is written against.
Each value is tied to the model by a lemma of coq/theories/Storage/Tables.v proved by computation."""
import re


def cbytes(b):
    return "[" + "; ".join(str(x) for x in b) + "]"


def rust_str(lit):
    """bytes of a Rust string literal body (\\n and \\\\ escapes only)"""
    return lit.encode().decode("unicode_escape").encode("latin-1")


def extract(g, X):
    file_rs = X.source("pdf/src/file.rs")
    xref_rs = X.source("pdf/src/xref.rs")

    def save_size():
        b = X.fn_body(file_rs, "save")
        m = re.search(r"\w+\.size\s*=\s*\(\s*self\.refs\.len\(\)\s*\+\s*(\d+)\s*\)", b)
        return m.group(1)
    g.attempt([("sto_size_plus", "N")], "file.rs:save trailer.size", save_size)

    def revision_literals():
        b = X.fn_body(file_rs, "write_revision")
        fm = re.search(r"\bfor\s*&\(&\w+[^{]*\{", b)
        loop = X.item_body(b[fm.start():], r"\{", "loop over the changes")
        after = b[fm.start() + b[fm.start():].index(loop) + len(loop):]
        # what is written: every write!/writeln! to the backend, holes normalised (`{}` + argument = inline `{id}`), the newline
        # of writeln! made explicit (so `write!(.., "x\n")` = `writeln!(.., "x")`)
        loop_at = fm.start() + b[fm.start():].index(loop)
        calls = [c for c in X.fmt_calls(b) if c["dest"] == "self.backend"]
        in_loop = [c for c in calls if loop_at <= c["pos"] < loop_at + len(loop)]
        after_loop = [c for c in calls if c["pos"] >= loop_at + len(loop)]

        def after_serialize(c):
            return bool(re.search(r"\w+\.serialize\(&mut self\.backend\)\?;\s*$", b[:c["pos"]]))
        (hdr,) = [c for c in in_loop if len(c["holes"]) == 2]
        (end,) = [c for c in in_loop if not c["holes"] and after_serialize(c)]
        rel = 1 if re.search(r"let\s+\w+\s*=\s*self\.backend\.len\(\)\s*-\s*self\.start_offset\s*;", loop) else 0
        # after the loop: the position recorded for the cross-reference stream object is taken relative to the header, before
        # anything more is written (other lets may stand in between)
        xr = re.search(r"let\s+(\w+)\s*=\s*self\.backend\.len\(\)\s*-\s*self\.start_offset\s*;", after)
        xrel = 1 if xr and re.search(r"XRef::Raw\s*\{\s*pos:\s*" + xr.group(1) + r"\b", after) and \
            not re.search(r"\bwrite(ln)?!|\.serialize\(", after[:xr.start()]) else 0
        # the id of the cross-reference stream object: `<promise>.get_inner().id`, spelled out or held in a local
        loc = re.search(r"let\s+(\w+)\s*=\s*\w+\.get_inner\(\)\.id\s*;", b)
        xid = r"(?:\w+\.get_inner\(\)\.id" + ("|" + loc.group(1) if loc else "") + ")"
        (xhdr,) = [c for c in after_loop if len(c["holes"]) == 2 and re.fullmatch(xid, c["holes"][0][0]) and c["holes"][1][0] == "0"]
        xend = [c for c in after_loop if not c["holes"] and after_serialize(c)][-1]
        (tail,) = [c for c in after_loop if len(c["holes"]) == 1]
        wsz = re.search(r"write_stream\(\s*" + xid + r"\s+as\s+usize\s*\+\s*(\d+)\s*\)", b).group(1)
        pre, post = X.fmt_split(tail)
        joined = lambda c: [x for piece in X.fmt_split(c) for x in piece]
        return (cbytes(joined(hdr)), cbytes(X.fmt_literal(end)), str(rel), str(xrel),
                cbytes(joined(xhdr)), cbytes(X.fmt_literal(xend)), cbytes(pre), cbytes(post), wsz)
    g.attempt([("sto_obj_header_fmt", "list N"), ("sto_obj_end", "list N"), ("sto_pos_relative", "N"), ("sto_xpos_relative", "N"),
               ("sto_xobj_header_fmt", "list N"), ("sto_xobj_end", "list N"), ("sto_tail_pre", "list N"), ("sto_tail_post", "list N"),
               ("sto_write_stream_plus", "N")], "file.rs:write_revision", revision_literals)

    def rollback():
        b = X.fn_body(file_rs, "save")
        # a failed write_revision is undone before the error is handed on: the `Err(e)` arm of `match` / `if let Err(e) = …`
        ws = re.search(r"self\.write_revision\(&\w+\)", b)
        if not ws:
            return "0"
        try:
            arms = [a for a in X.match_arms(b, r"self\.write_revision\(&\w+\)") if re.fullmatch(r"Err\(\s*\w+\s*\)", a.pattern)]
        except KeyError:
            return "0"
        if len(arms) != 1 or arms[0].guard is not None:
            return "0"
        e = re.fullmatch(r"Err\(\s*(\w+)\s*\)", arms[0].pattern).group(1)
        blk = arms[0].expr
        if not re.search(r"return\s+Err\(\s*" + e + r"\s*\)\s*;?\s*$", blk):
            return "0"
        t1 = re.search(r"self\.backend\.truncate\((\w+)\);", blk)
        t2 = re.search(r"self\.refs\.truncate\((\w+)\);", blk)
        if not (t1 and t2):
            return "0"
        m = ws
        head = b[:m.start()]
        d1 = re.search(r"let\s+" + t1.group(1) + r"\s*=\s*self\.backend\.len\(\);", head)
        d2 = re.search(r"let\s+" + t2.group(1) + r"\s*=\s*self\.refs\.len\(\);", head)
        # both snapshots are taken after Trailer::to_dict and before write_revision
        td = re.search(r"\.to_dict\(self\)\?;", head)
        return "1" if d1 and d2 and td and d1.start() > td.end() and d2.start() > td.end() else "0"
    g.attempt([("sto_save_rolls_back", "N")], "file.rs:save rollback", rollback)

    def update_arms():
        b = X.fn_body(file_rs, "update")
        arms = {}
        # what the reference of the updated object is built from, per kind of table entry (arms may be merged with `|`,
        # reordered, written as blocks): 0 panic, 1 the entry's generation, 2 generation 0, 9 anything else
        for arm in X.match_arms(b, r"self\.refs\.get\(\s*\w+\.id\s*\)\?"):
            for p in arm.pats:
                name = X.variant_name(p)
                if name is None or arm.guard is not None:
                    raise ValueError("arm pattern %r" % p)
                t = arm.expr
                gb = re.search(r"\bgen_nr\s*(?::\s*(\w+))?", p)
                gen = (gb.group(1) or "gen_nr") if gb else None
                if re.match(r"panic!", t):
                    arms[name] = 0
                elif gen and re.fullmatch(r"PlainRef\s*\{\s*id:\s*\w+\.id,\s*gen:\s*" + gen + r"\s*,?\s*\}", t):
                    arms[name] = 1
                elif re.fullmatch(r"PlainRef\s*\{\s*id:\s*\w+\.id,\s*gen:\s*0\s*,?\s*\}", t):
                    arms[name] = 2
                else:
                    arms[name] = 9
        clears = len(re.findall(r"self\.cache\.clear\(\)", b))
        merge = 1 if "append(" in b else 0
        cb = X.fn_body(file_rs, "create")
        cclears = len(re.findall(r"self\.cache\.clear\(\)", cb))
        return cbytes([arms[n] for n in ("Free", "Raw", "Stream", "Promised", "Invalid")]), str(clears), str(merge), str(cclears)
    g.attempt([("sto_update_arms", "list N"), ("sto_update_cache_clears", "N"), ("sto_update_merges", "N"), ("sto_create_cache_clears", "N")],
              "file.rs:Updater::update/create", update_arms)

    def table_new():
        b = X.fn_body(xref_rs, "new")
        m = re.search(r"XRef::Free\s*\{\s*next_obj_nr:\s*(" + X.BYTE + r")\s*,\s*gen_nr:\s*(" + X.BYTE + r")\s*,?\s*\}", b)
        return str(X.int_value(m.group(1))), str(X.int_value(m.group(2)))
    g.attempt([("sto_new_free_next", "N"), ("sto_new_free_gen", "N")], "xref.rs:XRefTable::new", table_new)

    def write_stream():
        b = X.fn_body(xref_rs, "write_stream")
        (size,) = X.fn_params(xref_rs, "write_stream")
        codes = []
        for name in ("Free", "Raw", "Stream"):
            m = re.search(r"XRef::" + name + r"\s*\{[^}]*\}\s*=>\s*\((\d+),", b)
            codes.append(int(m.group(1)))
        # the two field widths, whatever the locals are called: `let A = byte_len(..); let B = byte_len(..);`
        (aw, ma), (bw, mb) = re.findall(r"let\s+(\w+)\s*=\s*byte_len\(\s*(\w+)\s*\)\s*;", b)
        if not re.search(r"let\s*\(\s*" + ma + r"\s*,\s*" + mb + r"\s*\)\s*=\s*self\.max_field_widths\(\)", b):
            raise ValueError("the widths are not (second field, third field) of max_field_widths()")
        w = re.search(r"\bw\s*:\s*vec!\[\s*(\d+)\s*,\s*" + aw + r"\s*,\s*" + bw + r"\s*\]", b).group(1)
        im = re.search(r"\bindex\s*:\s*vec!\[\s*(\d+)\s*,\s*([^\],]+?)\s*\]", b)
        if not X.is_alias(im.group(2), size, b, param=True):
            raise ValueError("/Index does not end with the size")
        sl = []
        for m in re.finditer(r"(\w+)(\.to_be_bytes\(\))?\s*\[\s*(\d+)\s*-\s*(\w+)\s*\.\.\s*\]", b):
            src_ = m.group(1) + m.group(2) if m.group(2) else (X.let_expr(b, m.group(1)) or "")
            if not src_.endswith(".to_be_bytes()"):
                raise ValueError("a field is not sliced out of to_be_bytes()")
            sl.append((m.group(3), m.group(4)))
        if [x[1] for x in sl] != [aw, bw]:
            raise ValueError("field slices")
        return cbytes(codes), w, im.group(1), cbytes([int(x[0]) for x in sl])
    g.attempt([("sto_xref_type_codes", "list N"), ("sto_xref_w0", "N"), ("sto_xref_index0", "N"), ("sto_xref_be_base", "list N")],
              "xref.rs:write_stream", write_stream)

    def byte_len():
        b = X.fn_body(X.source("pdf/src/xref.rs", fold=False), "byte_len")     # the formula's own constants, unfolded
        m = re.search(r"\((\d+)\s*\+\s*(\d+)\s*-\s*(\d+)\s*-\s*n\.leading_zeros\(\)\)\s*as\s+usize\s*/\s*(\d+)\s*\+\s*\(n\s*==\s*(\d+)\)\s*as\s+usize", b)
        return cbytes([int(x) for x in m.groups()])
    g.attempt([("sto_byte_len_consts", "list N")], "xref.rs:byte_len", byte_len)

    def resolve_first():
        b = X.fn_body(file_rs, "resolve_ref")
        # pending changes are consulted before the table: `match self.changes.get(..) { Some((p, _)) => Ok(p.clone()), None => … }`
        # or the same as an early `if let … { return … }`
        first = False
        try:
            arm = X.match_arms(b, r"self\.changes\.get\(\s*&\w+\.id\s*\)")[0]
            pm = re.fullmatch(r"Some\(\s*\(\s*(\w+)\s*,\s*_\s*\)\s*\)", arm.pattern)
            first = bool(pm and arm.guard is None and re.fullmatch(r"(?:return\s+)?Ok\(\s*(?:\(\s*\*" + pm.group(1) + r"\s*\)|" + pm.group(1) + r")\.clone\(\)\s*\)\s*;?", arm.expr)
                         and b.index("self.changes.get(") < b.index("self.refs.get("))
        except (KeyError, ValueError):
            first = False
        # the object is read at header position + table offset (plain or checked addition)
        off = re.search(r"self\.start_offset\s*\+\s*\w+\s*\.\.", b)
        if not off:
            ca = re.search(r"let\s+(\w+)\s*=\s*t!\(\s*self\.start_offset\.checked_add\(\s*\w+\s*\)", b)
            off = ca and re.search(r"self\.backend\.read\(\s*" + ca.group(1) + r"\s*\.\.\s*\)", b)
        return "1" if first and off else "0"
    g.attempt([("sto_resolve_changes_first", "N")], "file.rs:resolve_ref", resolve_first)
