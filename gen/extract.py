#!/usr/bin/env python3
"""gen/extract.py — the translator half of the model/code tie (DESIGN.md §5.1).

Reads /repo's Rust sources *as they are now* and regenerates
coq/theories/Gen/Generated.v: byte-class tables, escape tables, constants and
limits that the hand-written models are parameterised by.  An anchor that can
no longer be located is reported in anchors_missing (a broken tie for the
properties that use it); the previous value is NOT reused — the definition is
emitted as an empty/zero value so dependent lemmas fail visibly.

Pure stdlib; anchors are located by item name and brace matching, not by line, and are read with the syntax-aware
helpers below (DESIGN.md §13): the generated value depends on what the source DENOTES (the byte set of a predicate, the
arms of a match, the value of a literal), not on how it is spelled.  tools/translator_selftest.py checks both directions:
a behaviour-preserving patch must leave Generated.v byte-identical, a list of one-token behaviour changes must not.
"""
import json, os, re, sys, hashlib

sys.path.insert(0, os.path.dirname(os.path.abspath(__file__)))
import rsx  # noqa: E402  (the small Rust reader / evaluator, DESIGN.md §13 round 2)

REPO = os.environ.get("VERIF_REPO", "/repo")
HERE = os.path.dirname(os.path.abspath(__file__))
# VERIF_GEN_OUT=<dir> redirects both outputs (used by tools/translator_selftest.py, which must not disturb the tree)
_OUTDIR = os.environ.get("VERIF_GEN_OUT") or os.path.join(HERE, "..", "coq", "theories", "Gen")
OUT = os.path.join(_OUTDIR, "Generated.v")
MAP = os.path.join(_OUTDIR, "generated_map.json")


def read(rel):
    with open(os.path.join(REPO, rel), encoding="utf-8") as f:
        return f.read()


def strip_comments(s):
    # remove // comments and /* */ comments (good enough: no such tokens inside the literals we read)
    s = re.sub(r"/\*.*?\*/", "", s, flags=re.S)
    out = []
    for line in s.split("\n"):
        # keep b'/' etc.: only cut at // that is not inside a quote pair on the same line
        i = 0
        inq = None
        cut = None
        while i < len(line):
            c = line[i]
            if inq:
                if c == "\\":
                    i += 2
                    continue
                if c == inq:
                    inq = None
            else:
                if c in "\"'":
                    # lifetime 'a is not a quote: treat ' as quote only if a closing ' follows within 4 chars
                    if c == "'" and not re.match(r"'(\\.|[^'\\])'", line[i:i + 4] + "    "):
                        i += 1
                        continue
                    inq = c
                elif line.startswith("//", i):
                    cut = i
                    break
            i += 1
        out.append(line if cut is None else line[:cut])
    return "\n".join(out)


def item_body(src, header_re, what):
    """Return the brace-balanced body following the first match of header_re."""
    m = re.search(header_re, src)
    if not m:
        raise KeyError(what)
    i = src.index("{", m.end() - 1) if "{" not in m.group(0) else m.start() + m.group(0).rindex("{")
    depth = 0
    j = i
    n = len(src)
    while j < n:
        c = src[j]
        if c == "{":
            depth += 1
        elif c == "}":
            depth -= 1
            if depth == 0:
                return src[i + 1:j]
        elif c == '"':
            raw = j > 0 and src[j - 1] == "r"
            j += 1
            while j < n and src[j] != '"':
                if src[j] == "\\" and not raw:
                    j += 1
                j += 1
        elif c == "'" and re.match(r"'(\\.|[^'\\])'", src[j:j + 4]):
            j += len(re.match(r"'(\\.|[^'\\])'", src[j:j + 4]).group(0)) - 1
        j += 1
    raise KeyError(what + " (unbalanced)")


def fn_body(src, name, what=None):
    return item_body(src, r"\bfn\s+" + re.escape(name) + r"\s*(<[^>]*>)?\s*\(", what or ("fn " + name))


ESC = {"n": 10, "r": 13, "t": 9, "0": 0, "\\": 92, "'": 39, '"': 34}


def lit(tok):
    """value of a Rust integer / byte literal token (alias of int_value, kept for the area extractors)"""
    return int_value(tok)


def lits(s):
    return [int_value(t) for t in re.findall(BYTE, s)]


def alt_set(pat):
    """'0 | 9 | b'a' ..= b'c'' -> list of byte values in source order (see pattern_set for the set)"""
    vals = []
    for part in split_top(pat, "|"):
        m = re.fullmatch(r"(" + BYTE + r")\s*\.\.=\s*(" + BYTE + r")", part)
        if m:
            vals.extend(range(int_value(m.group(1)), int_value(m.group(2)) + 1))
        else:
            vals.append(int_value(part))
    return vals


# ======================================================================================================================
# Shared, syntax-aware helpers (DESIGN.md §13).  The area extractors use these instead of ad-hoc regular expressions so
# that a behaviour-preserving re-spelling of the Rust source (other literal spelling, `matches!` <-> `match`, reordered
# disjoint arms, a predicate moved into a private helper fn, a table moved into a `const`, a renamed local, an expression
# split into `let tmp = …;` + use) yields the same value, while every behaviour-changing edit of the same spot still does
# not: the helpers compute the VALUE / the SET / the ARMS that the source denotes and raise when they cannot.

def skip_literal(s, i):
    """if a string / byte-string / raw-string / char / byte literal starts at s[i]: index just after it, else None"""
    n = len(s)
    m = re.compile(r'b?r(#*)"').match(s, i)
    if m and (i == 0 or not (s[i - 1].isalnum() or s[i - 1] == "_")):
        end = s.find('"' + m.group(1), m.end())
        return n if end < 0 else end + 1 + len(m.group(1))
    if s.startswith('"', i) or (s.startswith('b"', i) and (i == 0 or not (s[i - 1].isalnum() or s[i - 1] == "_"))):
        j = i + (2 if s[i] == "b" else 1)
        while j < n and s[j] != '"':
            if s[j] == "\\":
                j += 1
            j += 1
        return j + 1
    k = i + 1 if s.startswith("b'", i) and (i == 0 or not (s[i - 1].isalnum() or s[i - 1] == "_")) else i
    if s.startswith("'", k):
        m = re.compile(r"'(?:\\x[0-9a-fA-F]{2}|\\u\{[0-9a-fA-F]+\}|\\.|[^'\\])'").match(s, k)
        if m:
            return m.end()
    return None


OPEN, CLOSE = "([{", ")]}"


def close_of(s, i):
    """index of the bracket closing the one at s[i] (strings and char literals skipped)"""
    depth, j, n = 0, i, len(s)
    while j < n:
        k = skip_literal(s, j)
        if k is not None:
            j = k
            continue
        c = s[j]
        if c in OPEN:
            depth += 1
        elif c in CLOSE:
            depth -= 1
            if depth == 0:
                return j
        j += 1
    raise KeyError("unbalanced bracket")


def split_top(s, sep=","):
    """split at top-level occurrences of sep (a string, e.g. ',', '|', '||', '=>') outside brackets and literals;
    '|' does not split '||'.  Empty pieces are dropped."""
    out, depth, cur, i, n = [], 0, 0, 0, len(s)
    while i < n:
        k = skip_literal(s, i)
        if k is not None:
            i = k
            continue
        c = s[i]
        if c in OPEN:
            depth += 1
        elif c in CLOSE:
            depth -= 1
        elif depth == 0 and s.startswith(sep, i):
            if sep == "|" and (s.startswith("||", i) or (i > 0 and s[i - 1] == "|")):
                i += 1
                continue
            out.append(s[cur:i])
            i += len(sep)
            cur = i
            continue
        i += 1
    out.append(s[cur:])
    return [x.strip() for x in out if x.strip()]


def strip_parens(e):
    e = e.strip()
    while e.startswith("(") and close_of(e, 0) == len(e) - 1:
        e = e[1:-1].strip()
    return e


def strip_block(e):
    """`{ expr }` -> `expr` (only when the braces enclose everything)"""
    e = e.strip()
    while e.startswith("{") and close_of(e, 0) == len(e) - 1:
        e = e[1:-1].strip()
    return e


INT_SUFFIX = r"(?:_?(?:u8|u16|u32|u64|u128|usize|i8|i16|i32|i64|i128|isize))?"
# any Rust spelling of an integer / byte literal token
BYTE = (r"(?:b'(?:\\x[0-9a-fA-F]{2}|\\.|[^'\\])'|0x[0-9a-fA-F_]+" + INT_SUFFIX + r"|0o[0-7_]+" + INT_SUFFIX +
        r"|0b[01_]+" + INT_SUFFIX + r"|\d[\d_]*" + INT_SUFFIX + r")")


LIT = BYTE      # old name


def int_value(text):
    """value of any Rust spelling of an unsigned integer or byte literal: b'x' b'\n' b'\\' b'\'' b'\0' b'\x0c' 12 12u8 0x0C 0x0C_u8
    0o14 0b1100 1_024"""
    tok = text.strip()
    m = re.fullmatch(r"b'(\\x[0-9a-fA-F]{2}|\\.|[^'\\])'", tok)
    if m:
        c = m.group(1)
        if c.startswith("\\x"):
            return int(c[2:], 16)
        if c.startswith("\\"):
            if c[1] not in ESC:
                raise ValueError("escape " + tok)
            return ESC[c[1]]
        return ord(c)
    if not re.fullmatch(BYTE, tok):
        raise ValueError("not an integer literal: %r" % tok[:40])
    tok = re.sub(INT_SUFFIX + "$", "", tok).replace("_", "")
    low = tok.lower()
    if low.startswith("0x"):
        return int(tok, 16)
    if low.startswith("0o"):
        return int(tok[2:], 8)
    if low.startswith("0b"):
        return int(tok[2:], 2)
    return int(tok)


def byte_value(text):
    v = int_value(text)
    if not 0 <= v <= 255:
        raise ValueError("not a u8: %r" % text)
    return v


def str_bytes(tok):
    """bytes of a "…" / b"…" literal token (escapes \\n \\r \\t \\0 \\\\ \\' \\" \\xNN)"""
    m = re.fullmatch(r'b?"((?:\\.|[^"\\])*)"', tok.strip(), flags=re.S)
    if not m:
        raise ValueError("not a string literal: %r" % tok[:40])
    s, out, i = m.group(1), [], 0
    while i < len(s):
        if s[i] == "\\":
            if s[i + 1] == "x":
                out.append(int(s[i + 2:i + 4], 16))
                i += 4
                continue
            if s[i + 1] not in ESC:
                raise ValueError("escape in " + tok)
            out.append(ESC[s[i + 1]])
            i += 2
        else:
            out += list(s[i].encode("utf-8"))
            i += 1
    return out


def const_expr(src, name):
    """initialiser text of `const NAME: T = <expr>;` / `static NAME …` anywhere in src (None if there is none)"""
    m = re.search(r"\b(?:const|static)\s+" + re.escape(name) + r"\s*:\s*(?:[^=;\[]|\[[^\]]*\])+?=\s*", src)
    if not m:
        return None
    i, depth = m.end(), 0
    j = i
    while j < len(src):
        k = skip_literal(src, j)
        if k is not None:
            j = k
            continue
        if src[j] in OPEN:
            depth += 1
        elif src[j] in CLOSE:
            depth -= 1
        elif src[j] == ";" and depth == 0:
            return src[i:j].strip()
        j += 1
    return None


def let_expr(body, name):
    """initialiser text of the (first) `let [mut] name [: T] = <expr>;` in body, None if there is none"""
    m = re.search(r"\blet\s+(?:mut\s+)?" + re.escape(name) + r"\s*(?::\s*[^=;]+?)?=\s*", body)
    if not m:
        return None
    i, depth, j = m.end(), 0, m.end()
    while j < len(body):
        k = skip_literal(body, j)
        if k is not None:
            j = k
            continue
        if body[j] in OPEN:
            depth += 1
        elif body[j] in CLOSE:
            depth -= 1
        elif body[j] == ";" and depth == 0:
            return body[i:j].strip()
        j += 1
    return None


def deref(expr, body="", src="", depth=3):
    """follow a bare identifier to the `let` (in body) or `const` (in body, then src) that defines it; other expressions
    are returned unchanged.  Used where the extractor needs the literal behind `let tmp = …;` / `const NAME = …;`."""
    e = strip_parens(expr)
    while depth > 0 and re.fullmatch(r"[A-Za-z_]\w*", e):
        v = let_expr(body, e) or const_expr(body, e) or const_expr(src, e)
        if v is None:
            break
        e = strip_parens(v)
        depth -= 1
    return e


def is_alias(expr, target, body, depth=3, param=False):
    """is `expr` the variable `target`, possibly through casts (`x as usize`) and `let tmp = x as usize;` hops in body"""
    e = strip_parens(expr)
    first = True
    while depth >= 0:
        e = strip_parens(re.sub(r"\s+as\s+\w+$", "", e).strip())
        if e == target:
            # a local that SHADOWS the target (`let size = size as u32;`) is the target only if it is initialised from it
            # (param=True: target is a parameter of the fn, so a `let target = …` in the body is a shadowing)
            shadow = let_expr(body, target) if (first and param) else None
            if shadow is not None:
                return strip_parens(re.sub(r"\s+as\s+\w+$", "", strip_parens(shadow)).strip()) == target
            return True
        first = False
        if not re.fullmatch(r"[A-Za-z_]\w*", e):
            return False
        v = let_expr(body, e)
        if v is None:
            return False
        e = strip_parens(v)
        depth -= 1
    return False


def byte_string(expr, body="", src=""):
    """the bytes denoted by b"…", "…", &[A, B], [A, B], [V; N], *b"…", b"…".to_vec(), "…".as_bytes(), or a const / let
    bound to one of these"""
    e = deref(expr, body, src)
    e = re.sub(r"^[&*]\s*", "", e).strip()
    e = re.sub(r"\.(?:to_vec|as_bytes|as_slice|as_ref|to_owned|iter|into)\(\)$", "", e).strip()
    e = deref(e, body, src)
    e = re.sub(r"^[&*]\s*", "", e).strip()
    if re.fullmatch(r'b?"(?:\\.|[^"\\])*"', e, flags=re.S):
        return str_bytes(e)
    if e.startswith("[") and close_of(e, 0) == len(e) - 1:
        inner = e[1:-1]
        rep = split_top(inner, ";")
        if len(rep) == 2:
            return [byte_value(deref(rep[0], body, src))] * int_value(deref(rep[1], body, src))
        return [byte_value(deref(t, body, src)) for t in split_top(inner, ",")]
    raise ValueError("not a byte string: %r" % expr[:60])


def pattern_set(pat, body="", src=""):
    """the set of bytes matched by a pattern  A | B..=C | NAME | _"""
    out = set()
    for part in split_top(strip_parens(pat), "|"):
        part = strip_parens(part)
        if part == "_":
            return set(range(256))
        m = re.fullmatch(r"(.+?)\s*\.\.=\s*(.+)", part)
        if m:
            out |= set(range(byte_value(deref(m.group(1), body, src)), byte_value(deref(m.group(2), body, src)) + 1))
        else:
            out.add(byte_value(deref(part, body, src)))
    return out


ALL_BYTES = frozenset(range(256))
ASCII_CLASSES = {
    "is_ascii_digit": range(48, 58),
    "is_ascii_hexdigit": list(range(48, 58)) + list(range(65, 71)) + list(range(97, 103)),
    "is_ascii_whitespace": [9, 10, 12, 13, 32],
    "is_ascii_uppercase": range(65, 91),
    "is_ascii_lowercase": range(97, 123),
    "is_ascii_alphabetic": list(range(65, 91)) + list(range(97, 123)),
    "is_ascii_alphanumeric": list(range(48, 58)) + list(range(65, 91)) + list(range(97, 123)),
    "is_ascii": range(0, 128),
    "is_ascii_graphic": range(33, 127),
    "is_ascii_control": list(range(0, 32)) + [127],
    "is_ascii_punctuation": list(range(33, 48)) + list(range(58, 65)) + list(range(91, 97)) + list(range(123, 127)),
}


class Arm:
    """one arm of a match: pats = top-level alternatives of the pattern, guard = text after `if` (or None),
    expr = the arm's expression with an enclosing block stripped"""
    def __init__(self, pat, expr):
        self.pattern, self.guard = pat.strip(), None
        i, depth = 0, 0
        while i < len(pat):                       # the guard starts at the top-level keyword `if`
            k = skip_literal(pat, i)
            if k is not None:
                i = k
                continue
            if pat[i] in OPEN:
                depth += 1
            elif pat[i] in CLOSE:
                depth -= 1
            elif depth == 0 and re.compile(r"(?<![\w])if\s").match(pat, i) and i > 0:
                self.pattern, self.guard = pat[:i].strip(), pat[i + 2:].strip()
                break
            i += 1
        self.pats = split_top(self.pattern, "|")
        self.expr = strip_block(expr)
        self.raw = expr.strip()

    def __iter__(self):                     # (patterns, guard, expression)
        return iter((self.pats, self.guard, self.expr))

    def __repr__(self):
        return "Arm(%r if %r => %r)" % (self.pats, self.guard, self.expr[:40])


def _arms_of_block(inner):
    """arms of the text between the braces of a `match`"""
    arms, i, n = [], 0, len(inner)
    while i < n:
        # pattern: up to the top-level `=>`
        depth, j = 0, i
        while j < n:
            k = skip_literal(inner, j)
            if k is not None:
                j = k
                continue
            c = inner[j]
            if c in OPEN:
                depth += 1
            elif c in CLOSE:
                depth -= 1
            elif depth == 0 and inner.startswith("=>", j):
                break
            j += 1
        if j >= n:
            break
        pat = inner[i:j].strip()
        k = j + 2
        while k < n and inner[k].isspace():
            k += 1
        if k < n and inner[k] == "{":
            e = close_of(inner, k)
            expr = inner[k:e + 1]
            e += 1
        else:
            depth, e = 0, k
            blocklike = bool(re.match(r"(match|if|loop|while|for|unsafe)\b", inner[k:]))
            while e < n:
                kk = skip_literal(inner, e)
                if kk is not None:
                    e = kk
                    continue
                c = inner[e]
                if c in OPEN:
                    depth += 1
                elif c in CLOSE:
                    depth -= 1
                    if blocklike and c == "}" and depth == 0 and not re.match(r"\s*(else\b|\.|\?)", inner[e + 1:]):
                        e += 1
                        break
                elif c == "," and depth == 0:
                    break
                e += 1
            expr = inner[k:e]
        while e < n and (inner[e].isspace() or inner[e] == ","):
            e += 1
        if pat:
            arms.append(Arm(pat, expr))
        i = e
    return arms


def _if_let_arms(s, i):
    """s[i:] starts with `if let PAT = SCRUT {A} [else {B} | else if let …]` -> (arms, scrutinee, end index)"""
    m = re.compile(r"if\s+let\s+").match(s, i)
    # pattern up to the top-level '='
    j, depth = m.end(), 0
    while j < len(s):
        k = skip_literal(s, j)
        if k is not None:
            j = k
            continue
        if s[j] in OPEN:
            depth += 1
        elif s[j] in CLOSE:
            depth -= 1
        elif s[j] == "=" and depth == 0 and s[j + 1] != "=":
            break
        j += 1
    pat = s[m.end():j].strip()
    # scrutinee up to the top-level '{'
    k, depth = j + 1, 0
    while k < len(s):
        kk = skip_literal(s, k)
        if kk is not None:
            k = kk
            continue
        if s[k] == "{" and depth == 0:
            break
        if s[k] in OPEN:
            depth += 1
        elif s[k] in CLOSE:
            depth -= 1
        k += 1
    scrut = s[j + 1:k].strip()
    e = close_of(s, k)
    arms = [Arm(pat, s[k:e + 1])]
    end = e + 1
    me = re.compile(r"\s*else\s*").match(s, end)
    if me:
        if s.startswith("{", me.end()):
            e2 = close_of(s, me.end())
            arms.append(Arm("_", s[me.end():e2 + 1]))
            end = e2 + 1
        elif re.compile(r"if\s+let\b").match(s, me.end()):
            more, scrut2, end = _if_let_arms(s, me.end())
            if scrut2 == scrut:
                arms += more
            else:
                arms.append(Arm("_", s[me.end():end]))
    else:
        arms.append(Arm("_", "{}"))
    return arms, scrut, end


def match_arms(body, scrutinee=None):
    """Arms of a match, independent of arm order conventions, trailing commas and block vs expression arms.
       scrutinee=None : `body` is the text between the braces of a match;
       scrutinee=regex: the first `match <scrutinee> { … }` in body — or the first `if let PAT = <scrutinee> { A } else { B }`
                        chain, normalised to the arms [PAT => A, _ => B] — whichever comes first.
    Each arm is an Arm (iterable as (patterns, guard, expression))."""
    if scrutinee is None:
        return _arms_of_block(body)
    best = None
    for m in re.finditer(r"\bmatch\s+(?:" + scrutinee + r")\s*\{", body):
        best = ("match", m)
        break
    for m in re.finditer(r"\bif\s+let\s+", body):
        try:
            arms, scrut, end = _if_let_arms(body, m.start())
        except (KeyError, IndexError, AttributeError):
            continue
        if re.fullmatch(scrutinee, scrut) and (best is None or m.start() < best[1].start()):
            return arms
    if best is None:
        raise KeyError("no match / if let on " + scrutinee)
    m = best[1]
    o = m.end() - 1
    return _arms_of_block(body[o + 1:close_of(body, o)])


def fn_params(src, name):
    """names of the parameters of fn name (self excluded)"""
    m = re.search(r"\bfn\s+" + re.escape(name) + r"\s*(?:<[^>]*>)?\s*\(", src)
    if not m:
        raise KeyError("fn " + name)
    o = m.end() - 1
    out = []
    for p in split_top(src[o + 1:close_of(src, o)], ","):
        mm = re.match(r"(?:mut\s+)?(\w+)\s*:", p)
        if mm:
            out.append(mm.group(1))
    return out


def byte_set(expr, var=None, src="", _depth=1, body=""):
    """The set of bytes (frozenset of 0..255) that a predicate over ONE byte variable accepts.  Understands
         matches!(v, A | B..=C)            match v { A | B => true, _ => false }      v == A || v == B      v != A && …
         [A, B].contains(&v)               b"…".contains(&v)      (A..=B).contains(&v)     NAME.contains(&v)  (const / let)
         !(…)   (…)   a block `{ … }` whose value is one of these, `return …;`
         helper(v)  — ONE level of call into a fn of `src` (the same file) is followed.
    `var`: the variable's name if known (else the first identifier in variable position binds it; every later test must be
    on the same variable).  Raises ValueError on anything it does not understand — never guesses."""
    st = {"var": var}

    def isvar(t):
        t = strip_parens(t)
        t = re.sub(r"^[&*]\s*", "", t).strip()
        if not re.fullmatch(r"[A-Za-z_]\w*", t) or re.fullmatch(r"[A-Z][A-Z0-9_]*", t):
            return False
        if st["var"] is None:
            st["var"] = t
        return st["var"] == t

    def ev(e):
        e = strip_parens(strip_block(e))
        e = re.sub(r"^return\s+", "", e).rstrip(";").strip()
        e = strip_parens(e)
        parts = split_top(e, "||")
        if len(parts) > 1:
            out = set()
            for p in parts:
                out |= ev(p)
            return out
        parts = split_top(e, "&&")
        if len(parts) > 1:
            out = set(ALL_BYTES)
            for p in parts:
                out &= ev(p)
            return out
        if e.startswith("!"):
            return set(ALL_BYTES) - ev(e[1:])
        if e == "true":
            return set(ALL_BYTES)
        if e == "false":
            return set()
        m = re.match(r"matches!\s*\(", e)
        if m and close_of(e, m.end() - 1) == len(e) - 1:
            args = split_top(e[m.end():-1], ",")
            if len(args) == 2 and isvar(args[0]):
                return pattern_set(args[1], body, src)
            raise ValueError("matches! on something else: %r" % e[:60])
        m = re.match(r"match\s+([&*]?\s*\w+)\s*\{", e)
        if m and close_of(e, m.end() - 1) == len(e) - 1 and isvar(m.group(1)):
            acc, seen = set(), set()
            for arm in _arms_of_block(e[m.end():-1]):
                if arm.guard is not None:
                    raise ValueError("guarded arm in a byte predicate")
                ps = pattern_set(arm.pattern, body, src) - seen
                v = arm.expr.strip()
                if v == "true":
                    acc |= ps
                elif v != "false":
                    raise ValueError("arm value %r" % v[:30])
                seen |= ps
            if seen != set(ALL_BYTES):
                raise ValueError("match without catch-all")
            return acc
        m = re.fullmatch(r"(.+?)\s*(==|!=)\s*(.+)", e, flags=re.S)
        if m and "contains" not in e:
            a, op, b = m.group(1), m.group(2), m.group(3)
            try:
                val, other = byte_value(deref(b, body, src)), a
            except ValueError:
                val, other = byte_value(deref(a, body, src)), b
            if not isvar(other):
                raise ValueError("comparison of something else: %r" % e[:60])
            return {val} if op == "==" else set(ALL_BYTES) - {val}
        m = re.fullmatch(r"([^<>=]+?)\s*(<=|>=|<|>)\s*([^<>=]+)", e, flags=re.S)
        if m:
            a, op, b = m.group(1), m.group(2), m.group(3)
            try:
                val, other = int_value(deref(b, body, src)), a
            except ValueError:
                val, other = int_value(deref(a, body, src)), b
                op = {"<": ">", ">": "<", "<=": ">=", ">=": "<="}[op]
            if not isvar(other):
                raise ValueError("comparison of something else: %r" % e[:60])
            test = {"<": lambda x: x < val, "<=": lambda x: x <= val, ">": lambda x: x > val, ">=": lambda x: x >= val}[op]
            return set(x for x in ALL_BYTES if test(x))
        m = re.fullmatch(r"(.+)\.contains\(\s*(&?\s*\w+)\s*\)", e, flags=re.S)
        if m and isvar(m.group(2)):
            recv = strip_parens(m.group(1))
            mm = re.fullmatch(r"(.+?)\s*\.\.=\s*(.+)", recv)
            if mm:
                return set(range(byte_value(deref(mm.group(1), body, src)), byte_value(deref(mm.group(2), body, src)) + 1))
            return set(byte_string(recv, body, src))
        m = re.fullmatch(r"(\*?\w+)\s*\.\s*(is_ascii_\w+)\s*\(\s*\)", e)
        if m and m.group(2) in ASCII_CLASSES and isvar(m.group(1)):
            return set(ASCII_CLASSES[m.group(2)])
        m = re.fullmatch(r"(?:self\s*\.\s*|Self\s*::\s*)?(\w+)\s*\(\s*([&*]?\s*\w+)\s*\)", e)
        if m and _depth > 0 and src and isvar(m.group(2)):
            fb = fn_body(src, m.group(1))
            ps = fn_params(src, m.group(1))
            if len(ps) != 1:
                raise ValueError("helper %s takes %d parameters" % (m.group(1), len(ps)))
            return set(byte_set(fb, ps[0], src, _depth - 1, body=fb))
        raise ValueError("byte predicate not understood: %r" % e[:80])

    try:
        return frozenset(ev(expr))
    except (ValueError, KeyError) as first:
        # not one of the spellings above: evaluate the expression for every byte (if / match / helpers at any depth)
        v = st["var"] or var
        if v is None:
            raise
        try:
            return eval_set(expr, v, src, scopes=[body] if body else ())
        except (ValueError, rsx.Unknown, KeyError):
            raise first


def ordered(vals, house=()):
    """Presentation order of a generated SET or key-indexed TABLE: the elements that occur in `house` (the order in which
    Generated.v has always listed this table — kept so that the file does not change when disjoint arms or alternatives are
    merely reordered in the source) come first in that order, every other element after them in ascending order.  Which
    elements there are comes from the source alone; duplicates are dropped."""
    vals = list(dict.fromkeys(vals))
    pos = {h: i for i, h in enumerate(house)}
    known = sorted((v for v in vals if v in pos), key=lambda v: pos[v])
    return known + sorted(v for v in vals if v not in pos)


def ordered_by_key(rows, house=(), key=lambda r: r[0]):
    """like ordered() for table rows: sorted by their key; two rows with the same key are an error (the arms would not be
    disjoint, so their order would matter)"""
    keys = [key(r) for r in rows]
    if len(set(keys)) != len(keys):
        raise ValueError("duplicate keys: %r" % (keys,))
    rank = {k: i for i, k in enumerate(ordered(keys, house))}
    return sorted(rows, key=lambda r: rank[key(r)])


def callees(body, src, exclude=()):
    """[(name, body)] of the fns defined in src that `body` calls by bare name (one level; used by search_deep)"""
    out, seen = [], set(exclude)
    for m in re.finditer(r"(?<![\w.:!])([a-z_]\w*)\s*\(", body):
        n = m.group(1)
        if n in seen or n in ("if", "while", "match", "for", "loop", "return", "fn", "Some", "Ok", "Err"):
            continue
        seen.add(n)
        if re.search(r"\bfn\s+" + re.escape(n) + r"\s*(?:<[^>]*>)?\s*\(", src):
            try:
                out.append((n, fn_body(src, n)))
            except KeyError:
                pass
    return out


def search_deep(rx, body, src, flags=0):
    """re.search(rx, body); when the body has no match, the bodies of the private helper fns (of src) that it calls are
    tried — ONE level.  A predicate / step that was extracted into a small helper is still found; a change inside the
    helper still changes the value."""
    m = re.search(rx, body, flags)
    if m:
        return m
    found = [mm for mm in (re.search(rx, b, flags) for _, b in callees(body, src)) if mm]
    if len(found) > 1 and len(set(mm.groups() for mm in found)) > 1:
        raise ValueError("helpers disagree on " + rx[:40])
    return found[0] if found else None


def min_consts(body, operand=r"[\w.]+(?:\(\))?"):
    """[(operand text, N)] of every `std::cmp::min(E, N)`, `min(N, E)`, `E.min(N)` with a literal N"""
    out = []
    for m in re.finditer(r"(?:std::cmp::|cmp::)?\bmin\(\s*(" + operand + r")\s*,\s*(" + BYTE + r")\s*\)", body):
        out.append((m.group(1), int_value(m.group(2)), m.start()))
    for m in re.finditer(r"(?:std::cmp::|cmp::)?\bmin\(\s*(" + BYTE + r")\s*,\s*(" + operand + r")\s*\)", body):
        out.append((m.group(2), int_value(m.group(1)), m.start()))
    for m in re.finditer(r"(" + operand + r"|\([^()]*\))\s*\.min\(\s*(" + BYTE + r")\s*\)", body):
        out.append((strip_parens(m.group(1)), int_value(m.group(2)), m.start()))
    for m in re.finditer(r"(?<!\w)(?<!\w\.)(" + BYTE + r")\s*\.min\(\s*(" + operand + r")\s*\)", body):
        out.append((m.group(2), int_value(m.group(1)), m.start()))
    out.sort(key=lambda t: t[2])
    return [(a, b) for a, b, _ in out]


def closures(body, method):
    """[(parameter text, expression text)] of every `.method([args,] |params| expr)` call in body"""
    out = []
    for m in re.finditer(r"\.\s*" + method + r"\s*\(", body):
        o = m.end() - 1
        inner = body[o + 1:close_of(body, o)]
        # the first top-level `|` opens the parameter list
        i, depth, bars = 0, 0, []
        while i < len(inner) and len(bars) < 2:
            k = skip_literal(inner, i)
            if k is not None:
                i = k
                continue
            c = inner[i]
            if c in OPEN:
                depth += 1
            elif c in CLOSE:
                depth -= 1
            elif c == "|" and (depth == 0 or bars):
                bars.append(i)
            i += 1
        if len(bars) < 2:
            continue
        lead = inner[:bars[0]].strip()
        if lead and not lead.endswith(",") and lead != "move":
            continue                                    # `a | b` inside an ordinary argument, not a closure
        out.append((inner[bars[0] + 1:bars[1]].strip(), inner[bars[1] + 1:].strip()))
    return out


def closure_var(params):
    """the identifier bound by a one-parameter closure head: `&b`, `b`, `&mut b`, `b: u8`"""
    m = re.fullmatch(r"&?\s*(?:mut\s+)?&?\s*(\w+)\s*(?::[^|]*)?", params.strip())
    if not m:
        raise ValueError("closure parameter %r" % params)
    return m.group(1)


def affine(expr, var):
    """k such that expr == var + k, for an expression made of `var` (optionally `var as T`) and integer / byte literals joined
    by + and - in any order (`b'a' - 10 + c`, `c - b'a' + 0xa`); raises otherwise"""
    e = strip_parens(expr)
    terms, sign, cur, depth, i = [], 1, "", 0, 0
    while i < len(e):
        k = skip_literal(e, i)
        if k is not None:
            cur += e[i:k]
            i = k
            continue
        c = e[i]
        if c in OPEN:
            depth += 1
        elif c in CLOSE:
            depth -= 1
        if c in "+-" and depth == 0 and cur.strip():
            terms.append((sign, cur.strip()))
            sign, cur = (1 if c == "+" else -1), ""
        elif c in "+-" and depth == 0:
            sign = sign if c == "+" else -sign
        else:
            cur += c
        i += 1
    if cur.strip():
        terms.append((sign, cur.strip()))
    k, nvar = 0, 0
    for sg, t in terms:
        t = strip_parens(t)
        t = re.sub(r"\s+as\s+\w+$", "", t).strip()
        t = strip_parens(t)
        if t == var or t == "*" + var:
            nvar += sg
        else:
            k += sg * int_value(t)
    if nvar != 1:
        raise ValueError("not %s + constant: %r" % (var, expr[:50]))
    return k


def range_arms(fnbody, param=None):
    """[(lo, hi, k)] for the arms `[v @] LO ..= HI => [Some(] v' + k [)]` of the (first) match in fnbody, where v' is the
    binding v or the scrutinee; other arms are ignored"""
    m = re.search(r"\bmatch\s+(\*?\w+)\s*\{", fnbody)
    if not m:
        raise KeyError("match")
    scrut = m.group(1).lstrip("*")
    out = []
    for arm in match_arms(fnbody, re.escape(m.group(1))):
        mm = re.fullmatch(r"(?:(\w+)\s*@\s*)?(" + BYTE + r")\s*\.\.=\s*(" + BYTE + r")", arm.pattern)
        if not mm or arm.guard:
            continue
        v = mm.group(1) or scrut
        e = arm.expr
        ms = re.fullmatch(r"Some\s*\((.*)\)", e, flags=re.S)
        if ms:
            e = ms.group(1)
        out.append((int_value(mm.group(2)), int_value(mm.group(3)), affine(e, v)))
    return out


def pred_fn_set(src, name):
    """the set of bytes accepted by the one-parameter predicate `fn name(b: u8) -> bool` of src (tabulated; the reader of
    round 1 is the fallback for bodies the evaluator refuses)"""
    try:
        t = fn_table(src, name)
        if all(o.how == "value" and isinstance(o.value, bool) and not o.effects for o in t.values()):
            return frozenset(k for k, o in t.items() if o.value)
    except (ValueError, KeyError, rsx.Unknown):
        pass
    b = fn_body(src, name)
    (v,) = fn_params(src, name)
    return byte_set(b, v, src, body=b)


def option_pred_set(body, src=""):
    """the set of bytes accepted by the predicate applied to an Option<&u8> in body: `.map(|b| P(b)).unwrap_or(false)`,
    `.map_or(false, |b| P(b))`, `.is_some_and(|b| P(b))`, `.filter(|b| P(b)).is_some()`"""
    found = []
    for method in ("map", "map_or", "is_some_and", "filter"):
        for params, expr in closures(body, method):
            found.append((method, params, expr))
    if len(found) != 1:
        raise ValueError("expected one predicate closure, found %d" % len(found))
    method, params, expr = found[0]
    if method == "map" and not re.search(r"\.unwrap_or\(\s*false\s*\)", body):
        raise ValueError(".map(..) without .unwrap_or(false)")
    if method == "filter" and not re.search(r"\.is_some\(\)", body):
        raise ValueError(".filter(..) without .is_some()")
    return byte_set(expr, closure_var(params), src, body=body)


def variant_name(pat):
    """`Enum::Variant`, `Enum::Variant(..)`, `Enum::Variant { .. }`, `&Enum::Variant(_)` -> 'Variant' (None for anything else)"""
    m = re.fullmatch(r"&?\s*(?:ref\s+)?(?:\w+::)*(\w+)\s*(?:\(.*\)|\{.*\})?", pat.strip(), flags=re.S)
    return m.group(1) if m and pat.strip() != "_" else None


def variant_pred(expr, variants):
    """{variant: bool} for a predicate over an enum value written as `match v { A | B(_) => true, …, _ => false }` or
    `[!]matches!(v, A | B(_))` (the two spellings of the same test); `variants` lists all variants of the enum.
    Also returns the scrutinee text: (map, scrutinee)."""
    e = strip_parens(strip_block(expr))
    neg = False
    while e.startswith("!"):
        neg, e = not neg, strip_parens(e[1:])
    out = {}
    m = re.match(r"matches!\s*\(", e)
    if m and close_of(e, m.end() - 1) == len(e) - 1:
        args = split_top(e[m.end():-1], ",")
        if len(args) != 2:
            raise ValueError("matches! with a guard")
        names = [variant_name(p) for p in split_top(args[1], "|")]
        if None in names:
            raise ValueError("pattern in %r" % e[:50])
        for v in variants:
            out[v] = (v in names) != neg
        return out, args[0].strip()
    m = re.match(r"match\s+([^{]+?)\s*\{", e)
    if m and close_of(e, m.end() - 1) == len(e) - 1:
        for arm in _arms_of_block(e[m.end():-1]):
            if arm.guard is not None or arm.expr not in ("true", "false"):
                raise ValueError("arm %r" % arm)
            val = (arm.expr == "true") != neg
            for p in arm.pats:
                if p == "_" or re.fullmatch(r"[a-z_]\w*", p):
                    for v in variants:
                        out.setdefault(v, val)
                    return out, m.group(1)
                n = variant_name(p)
                if n is None or n not in variants:
                    raise ValueError("pattern %r" % p)
                out.setdefault(n, val)
        if set(out) != set(variants):
            raise ValueError("match is not exhaustive")
        return out, m.group(1)
    raise ValueError("variant predicate not understood: %r" % e[:60])


# ---- evaluation (gen/rsx.py): tabulate small functions instead of reading how they are written ------------------------------

def _self_module():
    return sys.modules[__name__]


def tabulate_local(code, local, src, scopes=(), domain=range(256), env=None, more=None):
    """like tabulate for a LOCAL that `code` (the inside of a block) binds itself from something opaque
    (`let c = self.peek_byte()?; if c … `): the local is given each value of domain in turn.  more = {other local: value}."""
    out = {}
    for v in domain:
        inj = dict(more or {})
        inj[local] = v
        try:
            out[v] = rsx.run(_self_module(), code, dict(env or {}), src, scopes=list(scopes), inject=inj)
        except rsx.Unknown as ex:
            raise ValueError("cannot evaluate for %s = %r: %s" % (local, v, ex))
    return out


def tabulate(code, var, src, scopes=(), domain=range(256), is_expr=True, env=None, lenient=False):
    """{v: rsx.Outcome} of running `code` (an expression, or the inside of a block) with `var` bound to each v of domain;
    fns and consts are looked up in scopes (innermost first) and src.  Raises ValueError when a decision depends on
    something that cannot be evaluated."""
    out = {}
    for v in domain:
        e = dict(env or {})
        e[var] = v
        try:
            out[v] = rsx.run(_self_module(), code, e, src, scopes=list(scopes), is_expr=is_expr, lenient=lenient)
        except rsx.Unknown as ex:
            raise ValueError("cannot evaluate for %s = %r: %s" % (var, v, ex))
    return out


def fn_table(src, name, domain=range(256), scopes=()):
    """{v: Outcome} of the one-parameter fn `name` of src over domain (helpers it calls are followed, any depth)"""
    (v,) = fn_params(src, name)
    body = fn_body(src, name)
    t = tabulate(body, v, src, scopes=[body] + list(scopes), domain=domain, is_expr=False)
    for o in t.values():
        if o.how == "return":
            o.how = "value"
    return t


def value_runs(values):
    """{byte: int} -> [(lo, hi, value at lo)] : maximal runs of consecutive bytes on which value - byte is constant"""
    rows, run = [], None
    for b in sorted(values):
        v = values[b]
        if run and b == run[1] + 1 and v - b == run[2] - run[0]:
            run[1] = b
        else:
            if run:
                rows.append(tuple(run))
            run = [b, b, v]
    if run:
        rows.append(tuple(run))
    return rows


def option_int_values(table):
    """{b: v} for the inputs on which the outcome is Some(v) / Ok(v) / a plain integer v"""
    out = {}
    for b, o in table.items():
        v = o.value
        if o.how != "value":
            continue
        if isinstance(v, tuple) and v and v[0] in ("Some", "Ok") and isinstance(v[1], int) and not isinstance(v[1], bool):
            out[b] = v[1]
        elif isinstance(v, int) and not isinstance(v, bool):
            out[b] = v
    return out


def eval_set(expr, var, src, scopes=(), domain=range(256), env=None):
    """the set of v in domain for which the boolean expression holds — by evaluation (helpers followed to any depth,
    `if`/`match`/`matches!`/closures/Option combinators understood)"""
    t = tabulate(expr, var, src, scopes=scopes, domain=domain, env=env)
    out = set()
    for v, o in t.items():
        if o.how != "value" or not isinstance(o.value, bool):
            raise ValueError("not a boolean for %s = %r: %r" % (var, v, o))
        if o.value:
            out.add(v)
    return frozenset(out)


def hex_nibble_tables(b, src):
    """HexStringLexer::next_hex_byte: for every byte c read with next_non_whitespace_char()?, the expression that turns it into
    a nibble is TABULATED over the 256 bytes (so a digit-value helper fn, a tuple match, reordered arms or an if-chain give the
    same result): [(rows [(lo, hi, value at lo)] of the digit bytes, {byte: Outcome} of the bytes that are not plain digits,
    name of c)]"""
    names = re.findall(r"let\s+(\w+)\s*(?::\s*u8)?\s*=\s*self\.next_non_whitespace_char\(\)\?\s*;", b)
    env = {n: rsx.Opaque(n) for n in names}
    out = []
    for n in names:
        at = re.search(r"let\s+" + n + r"\b", b).end()
        init = None
        for m in re.finditer(r"let\s+(?:mut\s+)?(\w+)\s*(?::\s*\w+)?\s*=\s*(?=match\b|if\b)", b[at:]):
            cand = let_expr(b[at + m.start():], m.group(1))
            if cand and re.search(r"\b" + n + r"\b", cand.split("{")[0]):
                init = cand
                break
        if init is None:
            raise ValueError("no nibble computed from " + n)
        t = tabulate(init, n, src, scopes=[b], env=env)
        digits = {k: o.value for k, o in t.items()
                  if o.how == "value" and not o.effects and isinstance(o.value, int) and not isinstance(o.value, bool)}
        out.append((value_runs(digits), {k: o for k, o in t.items() if k not in digits}, n))
    return out


# ---- source-to-source normalisation used by extractors that read a fragment's TEXT (opt-in, DESIGN.md §13 round 2) ----------

def statements(body):
    """[(start, end)] of the top-level statements of a block's inside (a `;`-terminated statement includes the `;`; a block-like
    statement ends at its closing brace)"""
    out, i, n = [], 0, len(body)
    while i < n:
        while i < n and body[i].isspace():
            i += 1
        if i >= n:
            break
        start, depth, j = i, 0, i
        blocklike = bool(re.match(r"(if|match|for|while|loop|unsafe)\b|\{", body[i:]))
        while j < n:
            k = skip_literal(body, j)
            if k is not None:
                j = k
                continue
            c = body[j]
            if c in OPEN:
                depth += 1
            elif c in CLOSE:
                depth -= 1
                if depth == 0 and c == "}" and blocklike and not re.match(r"\s*(else\b|\.|\?|;)", body[j + 1:]):
                    j += 1
                    break
            elif c == ";" and depth == 0:
                j += 1
                break
            j += 1
        out.append((start, j))
        i = j
    return out


def _replace_ident(text, name, repl):
    """replace the identifier `name` (not a field `.name`, not a label `name:` of a struct literal, not a path segment) by repl"""
    out, i, n = [], 0, len(text)
    rx = re.compile(r"(?<![\w.])" + re.escape(name) + r"(?!\w)")
    while i < n:
        k = skip_literal(text, i)
        if k is not None:
            out.append(text[i:k])
            i = k
            continue
        m = rx.match(text, i)
        if m:
            after = text[m.end():]
            before = text[:i].rstrip()
            if re.match(r"\s*:(?!:)", after) and (before.endswith("{") or before.endswith(",")):
                out.append(text[i:m.end()])             # field label
            elif re.match(r"\s*(::|!\s*[\(\[{])", after) or before.endswith("::"):
                out.append(text[i:m.end()])             # path / macro name
            else:
                out.append(repl)
            i = m.end()
            continue
        out.append(text[i])
        i += 1
    return "".join(out)


def inline_lets(body, only=None):
    """`let tmp = EXPR; … tmp …`  ->  `… (EXPR) …` for immutable, simply named, singly bound locals whose initialiser has no
    `?` / `t!` (so that moving it does not move an early exit).  Applied repeatedly, innermost blocks included.  The result is
    for matching only (an expression used twice is duplicated)."""
    changed = True
    rounds = 0
    while changed and rounds < 8:
        changed, rounds = False, rounds + 1
        for m in re.finditer(r"\blet\s+([a-z_]\w*)\s*(?::\s*[^=;]+?)?=\s*", body):
            name = m.group(1)
            if only is not None and name not in only:
                continue
            if len(re.findall(r"\blet\s+(?:mut\s+)?" + name + r"\b", body)) != 1:
                continue
            if re.search(r"[(,|]\s*(?:ref\s+|mut\s+|&)?" + name + r"\s*[),|@]", body[:m.start()]) and False:
                continue
            # the initialiser, up to its `;`
            i, depth, j = m.end(), 0, m.end()
            while j < len(body):
                k = skip_literal(body, j)
                if k is not None:
                    j = k
                    continue
                if body[j] in OPEN:
                    depth += 1
                elif body[j] in CLOSE:
                    depth -= 1
                    if depth < 0:
                        break
                elif body[j] == ";" and depth == 0:
                    break
                j += 1
            if j >= len(body) or body[j] != ";":
                continue
            init = body[i:j].strip()
            if "?" in re.sub(r'"(?:\\.|[^"\\])*"', "", init) or re.search(r"\b(t|try_opt|bail|err)!\s*\(", init) or not init:
                continue
            rest = body[j + 1:]
            if not re.search(r"(?<![\w.])" + name + r"(?!\w)", rest):
                continue
            if re.search(r"(?<![\w.])" + name + r"\s*(?:[-+*/%|&^]|<<|>>)?=(?!=)", rest):
                continue                                 # assigned later: not a pure alias
            body = body[:m.start()] + _replace_ident(rest, name, "(" + init + ")")
            changed = True
            break
    return body


def call_sites(body, fname):
    """[(start, end, [argument texts])] of the calls `fname(..)`, `self.fname(..)`, `Self::fname(..)` in body"""
    out = []
    for m in re.finditer(r"(?<![\w])(?:self\s*\.\s*|Self\s*::\s*)?" + re.escape(fname) + r"\s*\(", body):
        if re.search(r"\bfn\s+$", body[:m.start()]):
            continue
        o = m.end() - 1
        c = close_of(body, o)
        out.append((m.start(), c + 1, split_top(body[o + 1:c], ",")))
    return out


def private_fns(src):
    """names of the non-`pub` fns defined in src"""
    return [m.group(2) for m in re.finditer(r"(?m)^(\s*)(?:#\[[^\]]*\]\s*)*(?:const\s+|unsafe\s+)?fn\s+(\w+)", src)]


def inline_calls(body, src, depth=3, exclude=()):
    """Replace calls to private helper fns of src that are used as a STATEMENT (`helper(a, &mut b)?;` / `helper(..);`) or as the
    initialiser of a let (`let x = helper(..);` / `…?;`) by the helper's body with its parameters renamed to the argument
    expressions (simple arguments only: identifiers, `&x`, `&mut x`, `self.f`, literals).  A trailing `Ok(())` / `Ok(value)` /
    `value` of the helper becomes nothing / the let's initialiser.  Followed `depth` levels (a simple chain of helpers)."""
    helpers = set(private_fns(src)) - set(exclude)
    for _ in range(100 * depth):                 # one call is replaced per round
        progressed = False
        for name in sorted(helpers):
            for (a, b, args) in call_sites(body, name):
                stmt = re.match(r"\s*(\?)?\s*;", body[b:])
                lead = body[:a]
                mlet = re.search(r"\blet\s+((?:mut\s+)?\w+)\s*(?::\s*[^=;]+?)?=\s*$", lead)
                at_stmt_start = bool(re.search(r"(?:^|[;{}])\s*$", lead))
                # `pattern => helper(..)?,` : the call is the whole expression of a match arm
                arm = re.match(r"\s*(\?)?\s*(?=[,}])", body[b:]) if re.search(r"=>\s*$", lead) else None
                if not (stmt and (at_stmt_start or mlet)) and not arm:
                    continue
                if not all(re.fullmatch(r'(?:&\s*(?:mut\s+)?)?(?:\*\s*)?[\w.]+(?:\(\))?|"(?:\\.|[^"\\])*"|' + BYTE, x) for x in args):
                    continue
                try:
                    params = fn_params(src, name)
                    hb = fn_body(src, name)
                except KeyError:
                    continue
                if len(params) != len(args) or re.search(r"\b" + name + r"\s*\(", hb):
                    continue
                text = hb
                for prm, arg in zip(params, args):
                    arg = re.sub(r"^&\s*(?:mut\s+)?", "", arg).strip()
                    text = _replace_ident(text, prm, arg)
                text = re.sub(r"(?m)^\s*use\s+[^;]*;", "", text)
                sts = statements(text)
                tail = text[sts[-1][0]:sts[-1][1]].strip() if sts else ""
                head = text[:sts[-1][0]] if sts else ""
                value = None
                if not tail.endswith(";") and not re.match(r"(if|match|for|while|loop)\b", tail):
                    mo = re.fullmatch(r"Ok\(\s*(.*)\s*\)", tail, flags=re.S)
                    value = (mo.group(1) if (mo and (stmt or arm).group(1)) else tail).strip()
                else:
                    head, value = text, None
                if arm and not (stmt and at_stmt_start):
                    blk = head + ("" if value in (None, "", "()") else value)
                    body = body[:a] + "{" + blk + "}" + body[b + arm.end():]
                    progressed = True
                    break
                if mlet:
                    if value in (None, "", "()"):
                        continue
                    new = head + "\nlet " + mlet.group(1) + " = " + value + ";"
                    body = body[:mlet.start()] + new + body[b + stmt.end():]
                else:
                    body = body[:a] + head + ("" if value in (None, "", "()") else value + ";") + body[b + stmt.end():]
                progressed = True
                break
            if progressed:
                break
        if not progressed:
            break
    return body


def instantiated_callees(body, src, depth=3, _seen=()):
    """[(fn name, body text with the parameters replaced by the argument expressions of the call)] for every call in `body` to a
    private fn of src, followed through a chain of helpers up to `depth` levels.  Lets an extractor look for a step "in the
    function or in the helper it was moved to" while keeping track of WHICH caller values the helper works on."""
    out = []
    if depth <= 0:
        return out
    for name in private_fns(src):
        if name in _seen:
            continue
        for (a, b, args) in call_sites(body, name):
            try:
                params, hb = fn_params(src, name), fn_body(src, name)
            except KeyError:
                continue
            if len(params) != len(args):
                continue
            text = hb
            for prm, arg in zip(params, args):
                arg = re.sub(r"^&\s*(?:mut\s+)?", "", arg).strip()
                if re.fullmatch(r"[\w.]+(?:\(\))?|" + BYTE, arg):
                    text = _replace_ident(text, prm, arg)
            out.append((name, text))
            out += instantiated_callees(text, src, depth - 1, _seen + (name,))
    return out


def enclosing_block(text, pos):
    """(start, end) of the inside of the innermost `{ … }` of text that contains pos"""
    stack, i = [], 0
    while i < len(text):
        k = skip_literal(text, i)
        if k is not None:
            i = k
            continue
        c = text[i]
        if c == "{":
            stack.append(i)
        elif c == "}" and stack:
            o = stack.pop()
            if o < pos <= i:
                return o + 1, i
        i += 1
    return 0, len(text)


def accepted_upto(src, name, bound, scopes=()):
    """the one-parameter checking fn `name` (returns Ok / the value for an admissible argument, an error otherwise — as
    `if x > B { bail } Ok(x)`, `if x <= B { Ok(x) } else { Err }`, a match, …) is run for bound - 1, bound, bound + 1:
    returns bound iff exactly the first two are accepted"""
    got = []
    for v in (bound - 1, bound, bound + 1):
        try:
            o = rsx.run_fn(_self_module(), src, name, [v], scopes=list(scopes))
        except rsx.Unknown as ex:
            raise ValueError("cannot evaluate %s(%d): %s" % (name, v, ex))
        got.append(not o.is_err and o.how == "value")
    if got != [True, True, False]:
        raise ValueError("%s does not accept exactly the values up to %d: %r" % (name, bound, got))
    return bound


def none_values(body):
    """the expressions a computation falls back to when an Option is None, however that is written: `None => X` / `None => v = X`
    (match arm), `.unwrap_or(X)`, `.unwrap_or_else(|| X)`, `.map_or(X, f)`, `.map_or_else(|| X, f)`, `else { X }` of an
    `if let Some(..)` — normalised texts"""
    out = []
    for m in re.finditer(r"\bNone\s*=>\s*(?:\{\s*)?(?:\w+\s*=\s*)?([^,;{}]+)", body):
        out.append(norm_text(m.group(1)))
    for m in re.finditer(r"\.(unwrap_or|unwrap_or_else|map_or|map_or_else)\s*\(", body):
        o = m.end() - 1
        args = split_top(body[o + 1:close_of(body, o)], ",")
        if args:
            out.append(norm_text(re.sub(r"^(?:move\s+)?\|\s*\|\s*", "", args[0])))
    for m in re.finditer(r"\bif\s+let\s+Some\(", body):
        try:
            arms, _, _ = _if_let_arms(body, m.start())
            if len(arms) == 2:
                out.append(norm_text(re.sub(r"^\w+\s*=\s*", "", arms[1].expr.rstrip(";"))))
        except (KeyError, IndexError, AttributeError):
            pass
    return out


def norm_text(t):
    return re.sub(r"\s+", " ", strip_block(strip_parens(t.strip()))).strip()


def none_error(body):
    """the error expression that an absent value is turned into: `None => Err(E)` / `None => return Err(E)` / `None => err!(E)` as
    a match arm, `else { return Err(E) }` of a let-else, or `.ok_or(E)` / `.ok_or_else(|| E)` — the text of E"""
    found = []
    for m in re.finditer(r"\bNone\s*=>\s*(?:return\s+)?(?:Err|err!)\s*\(", body):
        o = m.end() - 1
        found.append(body[o + 1:close_of(body, o)].strip())
    for m in re.finditer(r"\.ok_or(_else)?\s*\(", body):
        o = m.end() - 1
        inner = body[o + 1:close_of(body, o)].strip()
        if m.group(1):
            inner = re.sub(r"^(?:move\s+)?\|\s*\|\s*", "", inner).strip()
        found.append(strip_block(inner))
    for m in re.finditer(r"\blet\s+Some\([^=]*=[^;{]*?\belse\s*\{\s*return\s+Err\s*\(", body):
        o = m.end() - 1
        found.append(body[o + 1:close_of(body, o)].strip())
    for m in re.finditer(r"\bif\s+let\s+Some\(", body):
        try:
            arms, scrut, end = _if_let_arms(body, m.start())
        except (KeyError, IndexError, AttributeError):
            continue
        mm = len(arms) == 2 and re.fullmatch(r"(?:return\s+)?(?:Err|err!)\s*\((.*)\)\s*;?", arms[1].expr, flags=re.S)
        if mm:
            found.append(mm.group(1).strip())
    if len(found) != 1:
        raise ValueError("expected one None -> Err conversion, found %d" % len(found))
    return found[0]


def fmt_calls(body):
    """every `write!(DEST, "fmt", args…)` / `writeln!(DEST[, "fmt", args…])` of body in source order, normalised:
       dest, macro, template (bytes of the format string with every hole written `{}` or `{:spec}`, `{{`/`}}` unescaped to a
       single brace marker, and the newline of writeln! appended), holes [(argument text, spec)] — an inline `{name}` /
       `{name:spec}` and a positional `{}` + argument are the same hole — pos, end"""
    out = []
    for m in re.finditer(r"\b(writeln|write)!\s*\(", body):
        o = m.end() - 1
        c = close_of(body, o)
        parts = split_top(body[o + 1:c], ",")
        if not parts:
            continue
        dest, fmt, args = parts[0], (parts[1] if len(parts) > 1 else '""'), parts[2:]
        if not re.fullmatch(r'"(?:\\.|[^"\\])*"', fmt, flags=re.S):
            continue
        raw = str_bytes(fmt)
        tmpl, holes, i, pos_arg = [], [], 0, 0
        named = {}
        for a in list(args):
            mm = re.fullmatch(r"(\w+)\s*=\s*(.*)", a, flags=re.S)
            if mm:
                named[mm.group(1)] = mm.group(2)
                args.remove(a)
        while i < len(raw):
            ch = raw[i]
            if ch == 0x7B and i + 1 < len(raw) and raw[i + 1] == 0x7B:
                tmpl.append(0x7B)
                i += 2
            elif ch == 0x7D and i + 1 < len(raw) and raw[i + 1] == 0x7D:
                tmpl.append(0x7D)
                i += 2
            elif ch == 0x7B:
                j = raw.index(0x7D, i)
                inner = bytes(raw[i + 1:j]).decode("latin-1")
                name, _, spec = inner.partition(":")
                name = name.strip()
                if name == "":
                    arg = args[pos_arg] if pos_arg < len(args) else "?"
                    pos_arg += 1
                elif name.isdigit():
                    arg = args[int(name)] if int(name) < len(args) else "?"
                else:
                    arg = named.get(name, name)
                holes.append((arg.strip(), spec))
                tmpl += list(("\x00" + (":" + spec if spec else "") + "\x01").encode("latin-1"))
                i = j + 1
            else:
                tmpl.append(ch)
                i += 1
        if m.group(1) == "writeln":
            tmpl.append(10)
        out.append({"dest": dest.strip(), "macro": m.group(1), "template": bytes(tmpl), "holes": holes, "pos": m.start(), "end": c + 1})
    return out


def fmt_literal(call):
    """the bytes written by a call without holes"""
    if call["holes"]:
        raise ValueError("format string has holes")
    return list(call["template"])


def fmt_split(call):
    """the literal pieces between the holes of a call: [bytes before hole 1, between 1 and 2, …, after the last]"""
    return [list(x) for x in re.split(rb"\x00[^\x01]*\x01", call["template"])]


def branches(body, var):
    """A decision on `var` against string / byte / integer literals, written as an `if var == "a" {A} else if var == "b" {B} else
    {C}` chain (in any order, `"a" == var` too) or as `match var { "a" => A, "b" => B, _ => C }`: {literal text: block text},
    with the key None for the final else / wildcard.  Keys are the literals as written ("f", b'x' -> its value as int)."""
    out = {}

    def key(tok):
        tok = tok.strip()
        if re.fullmatch(r'b?"(?:\\.|[^"\\])*"', tok):
            return bytes(str_bytes(tok)).decode("latin-1")
        return int_value(tok)
    v = re.escape(var)
    m = re.search(r"\bif\s+(?:" + v + r"\s*==\s*([^{&|]+?)|([^{&|=]+?)\s*==\s*" + v + r")\s*\{", body)
    mm = re.search(r"\bmatch\s+[&*]?" + v + r"(?:\.\w+\(\))*\s*\{", body)
    if m and (not mm or m.start() < mm.start()):
        i = m.start()
        while True:
            m = re.compile(r"if\s+(?:" + v + r"\s*==\s*([^{&|]+?)|([^{&|=]+?)\s*==\s*" + v + r")\s*\{").match(body, i)
            if not m:
                raise ValueError("if-chain on %s has a branch that is not `== literal`" % var)
            o = m.end() - 1
            c = close_of(body, o)
            k = key(m.group(1) or m.group(2))
            if k in out:
                raise ValueError("duplicate key %r" % (k,))
            out[k] = body[o + 1:c]
            e = re.compile(r"\s*else\s*").match(body, c + 1)
            if not e:
                out.setdefault(None, "")
                return out
            if body.startswith("{", e.end()):
                c2 = close_of(body, e.end())
                out[None] = body[e.end() + 1:c2]
                return out
            i = e.end()
    if mm:
        o = mm.end() - 1
        for arm in _arms_of_block(body[o + 1:close_of(body, o)]):
            if arm.guard is not None:
                raise ValueError("guarded arm")
            for p in arm.pats:
                if p == "_" or re.fullmatch(r"[a-z_]\w*", p):
                    out[None] = arm.expr
                else:
                    k = key(p)
                    if k in out:
                        raise ValueError("duplicate key %r" % (k,))
                    out[k] = arm.expr
        return out
    raise KeyError("no decision on " + var)


def if_conditions(body):
    """[(condition text, then-block text, start offset)] of every boolean `if` in body (nested ones included), read with the
    rsx parser (so conditions that contain braces — a `match`, a struct pattern — are delimited correctly)"""
    out = []
    for m in re.finditer(r"\bif\b(?!\s+let\b)", body):
        if skip_inside_literal(body, m.start()):
            continue
        try:
            p = rsx.Parser(body[m.end():])
            cond = p.parse_expr(no_struct=True)
            if not p.at("{"):
                continue
            o = m.end() + p.peek().pos
            out.append((p.text(cond), body[o + 1:close_of(body, o)], m.start()))
        except (rsx.Unknown, KeyError, IndexError):
            continue
    return out


def skip_inside_literal(s, pos):
    """is pos inside a string / char literal of s? (scan from the start; bodies are short)"""
    i = 0
    while i < pos:
        k = skip_literal(s, i)
        if k is not None:
            if k > pos:
                return True
            i = k
        else:
            i += 1
    return False


def guard_values(cond, path, src, scopes=(), domain=range(256)):
    """`cond` is a disjunction `A || B || …` that rejects an input; the values of `path` (an expression such as
    `params.bits_per_component`, or a variable) for which the disjuncts that mention it hold — by evaluation"""
    v = "__v"
    parts = [d for d in split_top(strip_parens(cond), "||") if re.search(r"(?<![\w.])" + re.escape(path) + r"(?!\w)", d)]
    if not parts:
        raise ValueError("condition does not mention " + path)
    expr = " || ".join("(" + re.sub(r"(?<![\w.])" + re.escape(path) + r"(?!\w)", v, d) + ")" for d in parts)
    return eval_set(expr, v, src, scopes=scopes, domain=domain)


# ---- named constants (DESIGN.md §13 round 3) --------------------------------------------------------------------------------

def _const_defs(text):
    """[(name, start of the item, end (after `;`), initialiser text, (scope start, scope end))] of every `const` / `static`
    NAME: T = init; in text — file level, impl level (scope: the file) or local to a block (scope: that block)"""
    out = []
    for m in re.finditer(r"\b(?:const|static)\s+(?:mut\s+)?([A-Z][A-Z0-9_]*)\s*:", text):
        if skip_inside_literal_fast(text, m.start()):
            continue
        # the type ends at the top-level `=`
        i, depth, n = m.end(), 0, len(text)
        while i < n:
            k = skip_literal(text, i)
            if k is not None:
                i = k
                continue
            c = text[i]
            if c in "([{<":
                depth += 1
            elif c in ")]}>" and not (c == ">" and text[i - 1] in "-="):
                depth -= 1
            elif c == "=" and depth <= 0 and text[i + 1] != "=":
                break
            elif c == ";" and depth <= 0:
                i = -1
                break
            i += 1
        if i < 0 or i >= n:
            continue
        j, depth = i + 1, 0
        while j < n:
            k = skip_literal(text, j)
            if k is not None:
                j = k
                continue
            if text[j] in OPEN:
                depth += 1
            elif text[j] in CLOSE:
                depth -= 1
            elif text[j] == ";" and depth == 0:
                break
            j += 1
        init = text[i + 1:j].strip()
        a, b = enclosing_block(text, m.start())
        if (a, b) != (0, len(text)):
            head = text[max(0, a - 300):a - 1]
            head = head[max(head.rfind(";"), head.rfind("}")) + 1:]
            if re.search(r"\b(impl|trait|mod)\b", head) and not re.search(r"\bfn\b", head):
                a, b = 0, len(text)
        out.append((m.group(1), m.start(), j + 1, init, (a, b)))
    return out


_LIT_POS_CACHE = {}


def skip_inside_literal_fast(text, pos):
    """is pos inside a string / char literal? (the literal spans of a text are computed once)"""
    key = id(text), len(text)
    spans = _LIT_POS_CACHE.get(key)
    if spans is None or spans[0] is not text:
        sp, i, n = [], 0, len(text)
        while i < n:
            k = skip_literal(text, i)
            if k is not None:
                sp.append((i, k))
                i = k
            else:
                i += 1
        spans = (text, sp)
        _LIT_POS_CACHE.clear()
        _LIT_POS_CACHE[key] = spans
    for a, b in spans[1]:
        if a < pos < b:
            return True
        if a > pos:
            break
    return False


def _render_const(init, src):
    """the canonical literal text of a constant's initialiser, or None when it is not a compile-time literal we understand:
    integers (any arithmetic on literals / other resolved constants, `X.len()`, `size_of::<T>()`, casts, indexing and slicing of
    byte constants) -> decimal; byte strings -> the string literal if the initialiser is one, else `[d, d, …]`; tables made of
    literals only (`&[("BPC", "BitsPerComponent"), …]`) -> their text"""
    e = init.strip()
    try:
        o = rsx.run(_self_module(), e, {}, src, is_expr=True, depth=2)
        v = o.value if o.how == "value" and not o.effects else None
    except (rsx.Unknown, rsx.Leave, KeyError, ValueError, IndexError, RecursionError):
        v = None
    if isinstance(v, bool):
        return "true" if v else "false"
    if isinstance(v, int):
        return str(v)
    if isinstance(v, tuple) and v and v[0] == "Bytes":
        core = re.sub(r"^[&*]\s*", "", e).strip()
        if re.fullmatch(r'b?"(?:\\.|[^"\\])*"', core, flags=re.S):
            return core
        return "[" + ", ".join(str(x) for x in v[1]) + "]"
    # a table of literals: nothing but literals, brackets, commas, `&`
    rest, i, out = e, 0, []
    while i < len(rest):
        k = skip_literal(rest, i)
        if k is not None:
            i = k
            continue
        out.append(rest[i])
        i += 1
    if re.fullmatch(r"(?:[\s&\[\](),;]|" + BYTE + r"|true|false)*", "".join(out)) and re.search(r"[\[(]", e):
        return e
    return None


def literal_spans(text):
    out, i, n = [], 0, len(text)
    while i < n:
        k = skip_literal(text, i)
        if k is not None:
            out.append((i, k))
            i = k
        else:
            i += 1
    return out


def propagate_consts(text):
    """Every use of a named constant whose value is a compile-time literal is replaced by that literal (scope-aware: a constant
    local to a fn body is replaced in that body only and shadows an outer one; `Self::NAME` / `Type::NAME` are uses too;
    constants that depend on other constants are resolved in rounds).  The definitions stay where they are (with the
    constants inside THEM resolved).  After this, a magic value and the same value hoisted into a `const` are the same text."""
    defs = _const_defs(text)
    if not defs:
        return text
    value = {}                                            # index of def -> literal text
    length = {}                                           # index of def -> number of bytes (byte constants)

    def visible(i, pos):
        a, b = defs[i][4]
        return a <= pos < b

    def lookup(name, pos):
        """the innermost definition of `name` visible at pos"""
        best = None
        for i, d in enumerate(defs):
            if d[0] == name and visible(i, pos) and (best is None or (d[4][1] - d[4][0]) < (defs[best][4][1] - defs[best][4][0])):
                best = i
        return best
    names = sorted(set(d[0] for d in defs), key=len, reverse=True)
    name_rx = re.compile(r"(?<![\w])(?:(?:Self|[A-Z]\w*)\s*::\s*)?(" + "|".join(re.escape(n) for n in names) + r")(?!\w)")

    def substitute(fragment, base, skip_def=None):
        """fragment = text[base:…]: uses of resolved constants replaced"""
        spans = literal_spans(fragment)
        out, last, si = [], 0, 0
        for m in name_rx.finditer(fragment):
            while si < len(spans) and spans[si][1] <= m.start():
                si += 1
            if si < len(spans) and spans[si][0] < m.start() + 1 <= spans[si][1] and spans[si][0] <= m.start():
                continue
            i = lookup(m.group(1), base + m.start(1))
            if i is None or i not in value:
                continue
            pos = base + m.start(1)
            if defs[i][1] <= pos < defs[i][1] + (defs[i][2] - defs[i][1]) and re.match(r"(?:const|static)\s+(?:mut\s+)?" + m.group(1) + r"\s*:", text[defs[i][1]:]) \
                    and pos < defs[i][1] + text[defs[i][1]:].index(":"):
                continue                                  # the name in its own definition
            before = fragment[:m.start()].rstrip()
            after = fragment[m.end():]
            if before.endswith(".") and not before.endswith(".."):
                continue                                  # a field / method of that name
            if re.match(r"\s*(::|!\s*[\(\[{]|\()", after):
                continue                                  # a path segment, a macro, a call
            if re.match(r"\s*:(?!:)", after) and (before.endswith("{") or before.endswith(",")) and m.group(0) == m.group(1):
                continue                                  # a field label
            if before.endswith("::") and m.group(0) == m.group(1):
                continue
            out.append(fragment[last:m.start()])
            ml = re.match(r"\s*\.\s*len\(\)", after)
            if ml and i in length:
                out.append(str(length[i]))
                last = m.end() + ml.end()
            else:
                out.append(value[i])
                last = m.end()
        out.append(fragment[last:])
        return "".join(out)
    for _ in range(6):
        progressed = False
        for i, (name, start, end, init, scope) in enumerate(defs):
            if i in value:
                continue
            init_at = text.index(init, start) if init else start
            resolved = substitute(init, init_at)
            if name_rx.search(re.sub(r'"(?:\\.|[^"\\])*"', '""', resolved)) and \
                    any(lookup(mm.group(1), init_at) is not None for mm in name_rx.finditer(re.sub(r'"(?:\\.|[^"\\])*"', '""', resolved))):
                continue                                  # still depends on an unresolved constant
            lit = _render_const(resolved, text)
            if lit is not None:
                value[i] = lit
                try:
                    length[i] = len(byte_string(lit))        # NAME.len() of a byte constant is a number too
                except (ValueError, KeyError, IndexError):
                    pass
                progressed = True
        if not progressed:
            break
    if not value:
        return text
    return substitute(text, 0)


def join_chains(text):
    """rustfmt breaks method chains over lines (`dict\n    .get("X")\n    .map(..)`): the line breaks in front of `.name` are
    removed (outside literals), so that a chain reads the same however it is laid out"""
    spans = literal_spans(text)
    out, last, si = [], 0, 0
    for m in re.finditer(r"\s*\n\s*\.(?=[A-Za-z_])", text):
        while si < len(spans) and spans[si][1] <= m.start():
            si += 1
        if si < len(spans) and spans[si][0] < m.end() and m.start() < spans[si][1]:
            continue
        out.append(text[last:m.start()])
        out.append(".")
        last = m.end()
    out.append(text[last:])
    text = "".join(out)
    # … and arguments over lines: no white-space after an opening / before a closing parenthesis or bracket, no trailing comma
    spans = literal_spans(text)
    out, last, si = [], 0, 0
    for m in re.finditer(r"(?<=[(\[])\s+|\s*,?\s+(?=[)\]])|,(?=[)\]])", text):
        while si < len(spans) and spans[si][1] <= m.start():
            si += 1
        if si < len(spans) and spans[si][0] < m.end() and m.start() < spans[si][1]:
            continue
        out.append(text[last:m.start()])
        last = m.end()
    out.append(text[last:])
    return "".join(out)


def fold_literals(text):
    """`32 - 1`, `16 + 5`, `8 * 4` between decimal literals -> the number, where that cannot change the meaning: the left literal
    starts an operand position (after `( [ , = < > { ; : ..`, `return`, `=>`), `+ -` only when no `* / %` follows, nothing
    method-like follows.  (After constant propagation `PADDING.len() - 1` is `32 - 1`; a reader that wants the literal must
    see 31.)"""
    spans = literal_spans(text)

    def inside(pos):
        for a, b in spans:
            if a <= pos < b:
                return True
            if a > pos:
                return False
        return False
    rx = re.compile(r"(?:(?<=[(\[,=<>{;:])|(?<=\.\.)|(?<==>)|(?<=\breturn))(\s*)(\d+)\s*([-+*])\s*(\d+)(?![\w.]|\s*[*/%]|\s+as\b)")
    for _ in range(8):
        changed = False
        out, last = [], 0
        for m in rx.finditer(text):
            if inside(m.start(2)) or m.start() < last:
                continue
            a, op, b = int(m.group(2)), m.group(3), int(m.group(4))
            if op == "-" and a < b:
                continue
            if op == "*" and re.match(r"\s*[-+]", text[m.end():]) is None and False:
                continue
            v = a + b if op == "+" else a - b if op == "-" else a * b
            out.append(text[last:m.start()])
            out.append(m.group(1) + str(v))
            last = m.end()
            changed = True
        out.append(text[last:])
        text = "".join(out)
        if not changed:
            break
        spans = literal_spans(text)
    return text


_SOURCE_CACHE = {}


def source(rel, fold=True):
    """the text the extractors read: comments stripped, method chains / argument lists joined, named constants propagated and
    (fold=True) arithmetic between literals folded.  fold=False for the few readers that want a formula's own constants"""
    key = (rel, fold)
    if key not in _SOURCE_CACHE:
        base = propagate_consts(join_chains(strip_comments(read(rel))))
        _SOURCE_CACHE[(rel, False)] = base
        _SOURCE_CACHE[(rel, True)] = fold_literals(base)
    return _SOURCE_CACHE[key]


class Gen:
    def __init__(self):
        self.defs = []      # (name, coq type, coq term, anchor)
        self.missing = []

    def add(self, name, ty, term, anchor):
        self.defs.append((name, ty, term, anchor))

    def attempt(self, names_types, anchor, f):
        """f() returns a tuple of coq terms, one per (name, type)."""
        try:
            terms = f()
            if len(names_types) == 1 and not isinstance(terms, tuple):
                terms = (terms,)
            for (n, t), term in zip(names_types, terms):
                self.add(n, t, term, anchor)
        except Exception as e:  # anchor not found / shape changed
            self.missing.append("%s: %s" % (anchor, e))
            for n, t in names_types:
                self.add(n, t, default_of(t), anchor + " (MISSING)")


def default_of(t):
    if t.startswith("list"):
        return "[]"
    if t == "bool":
        return "false"
    return "0"


def cl(xs):
    return "[" + "; ".join(str(x) for x in xs) + "]"


def ctuples(xs):
    return "[" + "; ".join("(" + ", ".join(str(v) for v in x) + ")" for x in xs) + "]"


def main():
    g = Gen()
    enc = source("pdf/src/enc.rs")

    # ---- enc.rs ------------------------------------------------------------
    def nibble():
        # decode_nibble tabulated over the 256 bytes: rows (lo, hi, value at lo) of the digit runs
        out = value_runs(option_int_values({k: o for k, o in fn_table(enc, "decode_nibble").items() if not o.effects}))
        if not out:
            raise ValueError("no digits")
        return ctuples(ordered_by_key(out, [48, 97, 65]))
    g.attempt([("nibble_ranges", "list (N * N * N)")], "enc.rs:decode_nibble", nibble)

    def enc_nibble():
        # encode_nibble tabulated: rows (lo, hi, byte written for lo)
        out = value_runs(option_int_values({k: o for k, o in fn_table(enc, "encode_nibble").items() if not o.effects}))
        if not out:
            raise ValueError("no arms")
        return ctuples(ordered_by_key(out))
    g.attempt([("enc_nibble_ranges", "list (N * N * N)")], "enc.rs:encode_nibble", enc_nibble)

    def dropped_by_filter(b):
        """bytes that the `.filter(|b| …)` of a decoder drops"""
        (params, expr), = closures(b, "filter")
        return sorted(ALL_BYTES - byte_set(expr, closure_var(params), enc))

    def stop_byte(b):
        """the single byte at which `.take_while(|b| b != X)` stops"""
        (params, expr), = closures(b, "take_while")
        (x,) = ALL_BYTES - byte_set(expr, closure_var(params), enc)
        return x

    def hexws():
        b = fn_body(enc, "decode_hex")
        return cl(dropped_by_filter(b)), str(stop_byte(b))
    g.attempt([("hexfilter_ws", "list N"), ("hex_eod", "N")], "enc.rs:decode_hex", hexws)

    def sym85():
        (lo, hi, v0), = value_runs(option_int_values({k: o for k, o in fn_table(enc, "sym_85").items() if not o.effects}))
        if v0 != 0:
            raise ValueError("sym_85 offset differs from range start")
        return str(lo), str(hi)
    g.attempt([("sym85_lo", "N"), ("sym85_hi", "N")], "enc.rs:sym_85", sym85)

    def a85():
        b = fn_body(enc, "decode_85")
        z = re.search(r"Some\(\s*(" + BYTE + r")\s*\)\s*=>\s*\w+\.extend_from_slice\(\s*&\[\s*0\s*;\s*4\s*\]\s*\)", b)
        pad = re.search(r"None\s*=>\s*break\s*\(\s*0\s*,\s*\[\s*(" + BYTE + r")\s*;\s*5\s*\]\s*\)", b)
        pads = set()
        for mm in re.finditer(r"break\s*\(\s*([1-4])\s*,\s*\[([^\]]*)\]\s*\)", b):
            pads |= set(int_value(t) for t in split_top(mm.group(2), ",") if re.fullmatch(BYTE, t))
        if pads != {int_value(pad.group(1))}:
            raise ValueError("tail padding bytes differ: %r" % pads)
        gt = re.search(r"\(\s*Some\(\s*(" + BYTE + r")\s*\)\s*,\s*None\s*\)\s*=>\s*Ok\(\s*\w+\s*\)", b)
        return (cl(dropped_by_filter(b)), str(stop_byte(b)), str(int_value(z.group(1))), str(int_value(pad.group(1))),
                str(int_value(gt.group(1))))
    g.attempt([("a85_ws", "list N"), ("a85_tilde", "N"), ("a85_z", "N"), ("a85_pad", "N"), ("a85_gt", "N")], "enc.rs:decode_85", a85)

    def rle():
        b = fn_body(enc, "run_length_decode")
        # the loop body is RUN for every value of the length byte (an if / else-if chain and a match on ranges are the same
        # table): literal copy (extend_from_slice) below L, repeated byte (repeat / resize) from R, the rest ends the data
        wl = re.search(r"\bwhile\b[^{]*\{", b)
        loop = item_body(b[wl.start():], r"\{", "loop over the runs")
        lm = re.search(r"let\s+(\w+)\s*(?::\s*u8)?\s*=\s*\*?\w+\[\s*\w+\s*\]\s*;", loop)
        if lm:
            v, names = lm.group(1), [lm.group(1)]
            t = tabulate_local(loop, v, enc, scopes=[b])
        else:
            # no local: the byte is the scrutinee itself (`match data[cursor] { length @ 0..=127 => …`): the indexing
            # expression is given each value in turn; the names it is bound to in the patterns stand for it
            sm = re.search(r"\bmatch\s+(\*?\w+\[\s*\w+\s*\])\s*\{", loop)
            names = sorted(set(re.findall(r"\b(\w+)\s*@", loop)))
            t = {}
            for k in range(256):
                try:
                    t[k] = rsx.run(_self_module(), loop, {}, enc, scopes=[b], inject_expr={sm.group(1).lstrip("*"): k})
                except rsx.Unknown as ex:
                    raise ValueError("cannot evaluate for the length byte %d: %s" % (k, ex))
        lit = set(k for k, o in t.items() if o.how == "value" and any("extend_from_slice" in e for e in o.effects))
        rep = set(k for k, o in t.items() if o.how == "value" and k not in lit and any(re.search(r"\brepeat\(|\.resize\(", e) for e in o.effects))
        eod = set(k for k, o in t.items() if o.how == "break" and not o.effects)
        if lit != set(range(0, len(lit))) or not rep or rep != set(range(min(rep), 256)) or lit | rep | eod != set(range(256)):
            raise ValueError("run classes: %d literal, %d repeat, %d end" % (len(lit), len(rep), len(eod)))
        base = None
        for m in re.finditer(r"(" + BYTE + r")\s*-\s*(?:usize::from\(\s*)?(\w+)", loop):
            if any(is_alias(m.group(2), nm, loop) for nm in names):
                base = m
                break
        return str(len(lit)), str(min(rep)), str(int_value(base.group(1)))
    g.attempt([("rle_lit_below", "N"), ("rle_rep_from", "N"), ("rle_rep_base", "N")], "enc.rs:run_length_decode", rle)

    def ptags():
        b = fn_body(enc, "from_u8")
        out = []
        for arm in match_arms(b, r"\w+"):
            m = re.fullmatch(r"(?:Ok\s*\(\s*)?PredictorType::(\w+)\s*\)?", arm.expr)
            if m and arm.guard is None and all(re.fullmatch(BYTE, p) for p in arm.pats):
                for p in arm.pats:
                    out.append((int_value(p), ["NoFilter", "Sub", "Up", "Avg", "Paeth"].index(m.group(1))))
        if not out:
            raise ValueError("no arms")
        return ctuples(ordered_by_key(out))
    g.attempt([("predictor_tags", "list (N * N)")], "enc.rs:PredictorType::from_u8", ptags)

    def pngthr():
        # smallest /Predictor value that selects the PNG un-prediction, and the TIFF value: unpredict is RUN for
        # /Predictor 0..40; a value selects PNG when what it executes (helpers expanded one level) un-filters rows
        # (PredictorType::from_u8), TIFF when it does something else than hand the data back
        b = fn_body(enc, "unpredict")
        path = re.search(r"\b(\w+\.predictor)\b", b).group(1)
        t = tabulate(b, path, enc, scopes=[b], domain=range(0, 41), is_expr=False, lenient=True)

        def reach(o):
            txt = " ".join(o.effects) + " " + (o.value.text if isinstance(o.value, rsx.Opaque) else repr(o.value))
            for n, hb in callees(txt, enc):
                txt += " " + hb
            return txt
        png = set(k for k, o in t.items() if "PredictorType::from_u8" in reach(o))
        same = set(k for k, o in t.items() if k not in png and not o.effects and o.value == ("Ok", rsx.Opaque("decoded")))
        tiff = set(t) - png - same
        if not png or png != set(range(min(png), 41)) or len(tiff) != 1:
            raise ValueError("predictor classes: png %r tiff %r" % (sorted(png)[:3], sorted(tiff)))
        return "%d%%Z" % min(png), "%d%%Z" % min(tiff)
    g.attempt([("png_from", "Z"), ("tiff_pred", "Z")], "enc.rs:unpredict", pngthr)

    # further anchors are appended by gen/extract_*.py modules
    for modname in sorted(os.listdir(HERE)):
        if modname.startswith("extract_") and modname.endswith(".py"):
            import importlib.util
            spec = importlib.util.spec_from_file_location(modname[:-3], os.path.join(HERE, modname))
            mod = importlib.util.module_from_spec(spec)
            spec.loader.exec_module(mod)
            mod.extract(g, sys.modules[__name__])

    lines = ["(* GENERATED by gen/extract.py from the Rust sources under %s — do not edit. *)" % REPO,
             "From Coq Require Import List NArith ZArith.", "Import ListNotations.", "Open Scope N_scope.", ""]
    for name, ty, term, anchor in g.defs:
        lines.append("(* %s *)" % anchor)
        lines.append("Definition %s : %s := %s." % (name, ty, term))
    text = "\n".join(lines) + "\n"
    old = None
    os.makedirs(os.path.dirname(OUT), exist_ok=True)   # Gen/ holds only ignored files: absent in a fresh worktree
    if os.path.exists(OUT):
        with open(OUT) as f:
            old = f.read()
    os.makedirs(os.path.dirname(OUT), exist_ok=True)
    if old != text:
        with open(OUT, "w") as f:
            f.write(text)
    info = {"sha256": hashlib.sha256(text.encode()).hexdigest(), "anchors_missing": g.missing,
            "definitions": len(g.defs), "changed": old != text}
    with open(MAP, "w") as f:
        json.dump(info, f, indent=1)
    print(json.dumps(info))
    return 0


if __name__ == "__main__":
    sys.exit(main())
