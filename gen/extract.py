#!/usr/bin/env python3
"""gen/extract.py — the translator half of the model/code tie (DESIGN.md §5.1).

Reads /repo's Rust sources *as they are now* and regenerates
coq/theories/Gen/Generated.v: byte-class tables, escape tables, constants and
limits that the hand-written models are parameterised by.  An anchor that can
no longer be located is reported in anchors_missing (a broken tie for the
properties that use it); the previous value is NOT reused — the definition is
emitted as an empty/zero value so dependent lemmas fail visibly.

Pure stdlib; anchors are located by item name and brace matching, not by line.
"""
import json, os, re, sys, hashlib

REPO = os.environ.get("VERIF_REPO", "/repo")
HERE = os.path.dirname(os.path.abspath(__file__))
OUT = os.path.join(HERE, "..", "coq", "theories", "Gen", "Generated.v")
MAP = os.path.join(HERE, "..", "coq", "theories", "Gen", "generated_map.json")


def read(rel):
    with open(os.path.join(REPO, rel), encoding="utf-8") as f:
        return f.read()


def strip_comments(s):
    # remove // comments and /* */ comments (good enough: no such tokens inside the literals we read)
    s = re.sub(r"/\*.*?\*/", "", s, flags=re.S)
    out = []
    for line in s.split("\n"):
        # keep b'/' etc.: only cut at // that is not inside a quote pair on the same line
        i = 0
        inq = None
        cut = None
        while i < len(line):
            c = line[i]
            if inq:
                if c == "\\":
                    i += 2
                    continue
                if c == inq:
                    inq = None
            else:
                if c in "\"'":
                    # lifetime 'a is not a quote: treat ' as quote only if a closing ' follows within 4 chars
                    if c == "'" and not re.match(r"'(\\.|[^'\\])'", line[i:i + 4] + "    "):
                        i += 1
                        continue
                    inq = c
                elif line.startswith("//", i):
                    cut = i
                    break
            i += 1
        out.append(line if cut is None else line[:cut])
    return "\n".join(out)


def item_body(src, header_re, what):
    """Return the brace-balanced body following the first match of header_re."""
    m = re.search(header_re, src)
    if not m:
        raise KeyError(what)
    i = src.index("{", m.end() - 1) if "{" not in m.group(0) else m.start() + m.group(0).rindex("{")
    depth = 0
    j = i
    n = len(src)
    while j < n:
        c = src[j]
        if c == "{":
            depth += 1
        elif c == "}":
            depth -= 1
            if depth == 0:
                return src[i + 1:j]
        elif c == '"':
            raw = j > 0 and src[j - 1] == "r"
            j += 1
            while j < n and src[j] != '"':
                if src[j] == "\\" and not raw:
                    j += 1
                j += 1
        elif c == "'" and re.match(r"'(\\.|[^'\\])'", src[j:j + 4]):
            j += len(re.match(r"'(\\.|[^'\\])'", src[j:j + 4]).group(0)) - 1
        j += 1
    raise KeyError(what + " (unbalanced)")


def fn_body(src, name, what=None):
    return item_body(src, r"\bfn\s+" + re.escape(name) + r"\s*(<[^>]*>)?\s*\(", what or ("fn " + name))


ESC = {"n": 10, "r": 13, "t": 9, "0": 0, "\\": 92, "'": 39, '"': 34}


def lit(tok):
    """value of a Rust integer / byte literal token"""
    tok = tok.strip()
    m = re.fullmatch(r"b'(\\x[0-9a-fA-F]{2}|\\.|[^'\\])'", tok)
    if m:
        c = m.group(1)
        if c.startswith("\\x"):
            return int(c[2:], 16)
        if c.startswith("\\"):
            return ESC[c[1]]
        return ord(c)
    tok = re.sub(r"(_?(u8|u16|u32|u64|usize|i8|i16|i32|i64|isize))$", "", tok).replace("_", "")
    if tok.lower().startswith("0x"):
        return int(tok, 16)
    if tok.lower().startswith("0b"):
        return int(tok, 2)
    return int(tok)


LIT = r"(?:b'(?:\\x[0-9a-fA-F]{2}|\\.|[^'\\])'|0x[0-9a-fA-F_]+|\d[\d_]*)"


def lits(s):
    return [lit(t) for t in re.findall(LIT, s)]


def alt_set(pat):
    """'0 | 9 | b'a' ..= b'c'' -> sorted list of byte values"""
    vals = []
    for part in pat.split("|"):
        part = part.strip()
        if not part:
            continue
        m = re.fullmatch(r"(" + LIT + r")\s*\.\.=\s*(" + LIT + r")", part)
        if m:
            vals.extend(range(lit(m.group(1)), lit(m.group(2)) + 1))
        else:
            vals.append(lit(part))
    return vals


class Gen:
    def __init__(self):
        self.defs = []      # (name, coq type, coq term, anchor)
        self.missing = []

    def add(self, name, ty, term, anchor):
        self.defs.append((name, ty, term, anchor))

    def attempt(self, names_types, anchor, f):
        """f() returns a tuple of coq terms, one per (name, type)."""
        try:
            terms = f()
            if len(names_types) == 1 and not isinstance(terms, tuple):
                terms = (terms,)
            for (n, t), term in zip(names_types, terms):
                self.add(n, t, term, anchor)
        except Exception as e:  # anchor not found / shape changed
            self.missing.append("%s: %s" % (anchor, e))
            for n, t in names_types:
                self.add(n, t, default_of(t), anchor + " (MISSING)")


def default_of(t):
    if t.startswith("list"):
        return "[]"
    if t == "bool":
        return "false"
    return "0"


def cl(xs):
    return "[" + "; ".join(str(x) for x in xs) + "]"


def ctuples(xs):
    return "[" + "; ".join("(" + ", ".join(str(v) for v in x) + ")" for x in xs) + "]"


def main():
    g = Gen()
    enc = strip_comments(read("pdf/src/enc.rs"))

    # ---- enc.rs ------------------------------------------------------------
    def nibble():
        b = fn_body(enc, "decode_nibble")
        out = []
        for m in re.finditer(r"(\w+)\s*@\s*(" + LIT + r")\s*\.\.=\s*(" + LIT + r")\s*=>\s*Some\(\s*\1\s*-\s*(" + LIT + r")\s*(?:\+\s*(" + LIT + r"))?\s*\)", b):
            lo, hi, sub, add = lit(m.group(2)), lit(m.group(3)), lit(m.group(4)), lit(m.group(5)) if m.group(5) else 0
            if sub != lo:
                raise ValueError("decode_nibble arm subtracts %d, range starts %d" % (sub, lo))
            out.append((lo, hi, add))
        if not out:
            raise ValueError("no arms")
        return ctuples(out)
    g.attempt([("nibble_ranges", "list (N * N * N)")], "enc.rs:decode_nibble", nibble)

    def enc_nibble():
        b = fn_body(enc, "encode_nibble")
        out = []
        for m in re.finditer(r"(" + LIT + r")\s*\.\.=\s*(" + LIT + r")\s*=>\s*([^,\n]+)", b):
            lo, hi = lit(m.group(1)), lit(m.group(2))
            expr = m.group(3)
            # forms: b'0'+ c   |   b'a' - 10 + c
            mm = re.fullmatch(r"\s*(" + LIT + r")\s*(?:-\s*(" + LIT + r")\s*)?\+\s*c\s*", expr)
            if not mm:
                raise ValueError("encode_nibble arm " + expr)
            base = lit(mm.group(1)) - (lit(mm.group(2)) if mm.group(2) else 0)
            # value = base + c ; our table computes c - lo + b0
            out.append((lo, hi, base + lo))
        if not out:
            raise ValueError("no arms")
        return ctuples(out)
    g.attempt([("enc_nibble_ranges", "list (N * N * N)")], "enc.rs:encode_nibble", enc_nibble)

    def hexws():
        b = fn_body(enc, "decode_hex")
        m = re.search(r"filter\(\|&b\|\s*!matches!\(b,\s*([^)]*)\)\)", b)
        e = re.search(r"take_while\(\|&b\|\s*b\s*!=\s*(" + LIT + r")\)", b)
        return cl(alt_set(m.group(1))), str(lit(e.group(1)))
    g.attempt([("hexfilter_ws", "list N"), ("hex_eod", "N")], "enc.rs:decode_hex", hexws)

    def sym85():
        b = fn_body(enc, "sym_85")
        m = re.search(r"(\w+)\s*@\s*(" + LIT + r")\s*\.\.=\s*(" + LIT + r")\s*=>\s*Some\(\s*\1\s*-\s*(" + LIT + r")\s*\)", b)
        if lit(m.group(4)) != lit(m.group(2)):
            raise ValueError("sym_85 offset differs from range start")
        return str(lit(m.group(2))), str(lit(m.group(3)))
    g.attempt([("sym85_lo", "N"), ("sym85_hi", "N")], "enc.rs:sym_85", sym85)

    def a85():
        b = fn_body(enc, "decode_85")
        ws = re.search(r"filter\(\|&b\|\s*!matches!\(b,\s*([^)]*)\)\)", b)
        til = re.search(r"take_while\(\|&b\|\s*b\s*!=\s*(" + LIT + r")\)", b)
        z = re.search(r"Some\((" + LIT + r")\)\s*=>\s*out\.extend_from_slice\(&\[0;\s*4\]\)", b)
        pad = re.search(r"None\s*=>\s*break\s*\(0,\s*\[(" + LIT + r");\s*5\]\)", b)
        pads = set()
        for mm in re.finditer(r"break\s*\(([1-4]),\s*\[([^\]]*)\]\)", b):
            pads |= set(lit(t) for t in re.findall(r"b'(?:\\.|[^'\\])'", mm.group(2)))
        if pads != {lit(pad.group(1))}:
            raise ValueError("tail padding bytes differ: %r" % pads)
        gt = re.search(r"\(Some\((" + LIT + r")\),\s*None\)\s*=>\s*Ok\(out\)", b)
        return cl(alt_set(ws.group(1))), str(lit(til.group(1))), str(lit(z.group(1))), str(lit(pad.group(1))), str(lit(gt.group(1)))
    g.attempt([("a85_ws", "list N"), ("a85_tilde", "N"), ("a85_z", "N"), ("a85_pad", "N"), ("a85_gt", "N")], "enc.rs:decode_85", a85)

    def rle():
        b = fn_body(enc, "run_length_decode")
        lt = re.search(r"if\s+length\s*<\s*(\d+)", b)
        ge = re.search(r"else\s+if\s+length\s*>=\s*(\d+)", b)
        base = re.search(r"let\s+copy\s*=\s*(\d+)\s*-\s*length", b)
        return lt.group(1), ge.group(1), base.group(1)
    g.attempt([("rle_lit_below", "N"), ("rle_rep_from", "N"), ("rle_rep_base", "N")], "enc.rs:run_length_decode", rle)

    def ptags():
        variants = item_body(enc, r"pub\s+enum\s+PredictorType\s*\{", "enum PredictorType")
        order = [m.group(1) for m in re.finditer(r"(\w+)\s*=\s*\d+", variants)]
        b = fn_body(enc, "from_u8")
        out = []
        for m in re.finditer(r"(\d+)\s*=>\s*Ok\(PredictorType::(\w+)\)", b):
            out.append((int(m.group(1)), ["NoFilter", "Sub", "Up", "Avg", "Paeth"].index(m.group(2))))
        if not out:
            raise ValueError("no arms")
        return ctuples(out)
    g.attempt([("predictor_tags", "list (N * N)")], "enc.rs:PredictorType::from_u8", ptags)

    def pngthr():
        # smallest /Predictor value that selects the PNG un-prediction, and the TIFF value
        b = fn_body(enc, "unpredict")
        m = re.search(r"if\s+predictor\s*(>=|>)\s*(\d+)\s*\{", b)
        t = re.search(r"else\s+if\s+predictor\s*==\s*(\d+)\s*\{", b)
        return "%d%%Z" % (int(m.group(2)) + (1 if m.group(1) == ">" else 0)), "%d%%Z" % int(t.group(1))
    g.attempt([("png_from", "Z"), ("tiff_pred", "Z")], "enc.rs:unpredict", pngthr)

    # further anchors are appended by gen/extract_*.py modules
    for modname in sorted(os.listdir(HERE)):
        if modname.startswith("extract_") and modname.endswith(".py"):
            import importlib.util
            spec = importlib.util.spec_from_file_location(modname[:-3], os.path.join(HERE, modname))
            mod = importlib.util.module_from_spec(spec)
            spec.loader.exec_module(mod)
            mod.extract(g, sys.modules[__name__])

    lines = ["(* GENERATED by gen/extract.py from the Rust sources under %s — do not edit. *)" % REPO,
             "From Coq Require Import List NArith ZArith.", "Import ListNotations.", "Open Scope N_scope.", ""]
    for name, ty, term, anchor in g.defs:
        lines.append("(* %s *)" % anchor)
        lines.append("Definition %s : %s := %s." % (name, ty, term))
    text = "\n".join(lines) + "\n"
    old = None
    os.makedirs(os.path.dirname(OUT), exist_ok=True)   # Gen/ holds only ignored files: absent in a fresh worktree
    if os.path.exists(OUT):
        with open(OUT) as f:
            old = f.read()
    os.makedirs(os.path.dirname(OUT), exist_ok=True)
    if old != text:
        with open(OUT, "w") as f:
            f.write(text)
    info = {"sha256": hashlib.sha256(text.encode()).hexdigest(), "anchors_missing": g.missing,
            "definitions": len(g.defs), "changed": old != text}
    with open(MAP, "w") as f:
        json.dump(info, f, indent=1)
    print(json.dumps(info))
    return 0


if __name__ == "__main__":
    sys.exit(main())
