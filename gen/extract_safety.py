"""gen/extract_safety.py — constants the Safety models (C01/C14) are parameterised by: depth budgets and the
literal bounds of the guards in front of indexing / arithmetic, in the files of this area only (tree walks in
object/types.rs, object/color.rs, object/function.rs, encoding.rs).  Regenerated from the Rust source on every run.
The guards of sites owned by other areas (page walk, crypt key length, …) are read by those areas' extractors."""
import re


def extract(g, X):
    ty = X.source("pdf/src/object/types.rs")
    co = X.source("pdf/src/object/color.rs")
    fu = X.source("pdf/src/object/function.rs")
    en = X.source("pdf/src/encoding.rs")
    ec = X.source("pdf/src/enc.rs")

    def tree_depth():
        vals = re.findall(r"self\.walk_limited\(\s*\w+\s*,\s*\w+\s*,\s*(\d+)\s*,", ty)
        if len(vals) != 2 or vals[0] != vals[1]:
            raise ValueError("NameTree/NumberTree::walk budgets: %r" % (vals,))
        bodies = re.findall(r"fn\s+walk_limited\b", ty)
        if len(bodies) != 2:
            raise ValueError("walk_limited definitions: %d" % len(bodies))
        # both walks: depth test first, visited test before the recursive call, recursion with depth - 1
        for m in re.finditer(r"fn\s+walk_limited\b", ty):
            r_, cb, depth, seen = X.fn_params(ty[m.start():], "walk_limited")[-4:]
            # hoisted sub-expressions (`let plain = tree_ref.get_inner();`) are read where they are used
            b = X.inline_lets(X.item_body(ty[m.start():], r"fn\s+walk_limited[^{]*\{", "walk_limited"))
            if not re.search(r"^\s*if\s+" + depth + r"\s*==\s*0\s*\{\s*bail!", b):
                raise ValueError("walk_limited: depth test missing")
            visited = re.search(r"if\s*!\s*" + seen + r"\.insert\(\s*\(?\s*(\w+)\.get_inner\(\)\s*\)?\s*\)\s*\{\s*bail!", b)
            rec = re.search(r"\.walk_limited\(\s*" + r_ + r"\s*,\s*" + cb + r"\s*,\s*" + depth + r"\s*-\s*1\s*,\s*" + seen + r"\s*\)", b)
            if not visited or not rec or visited.start() > rec.start():
                raise ValueError("walk_limited: visited test / depth - 1 recursion missing")
        return vals[0]
    g.attempt([("tree_depth", "N")], "object/types.rs:NameTree::walk,NumberTree::walk", tree_depth)

    def cs_depth():
        m = re.search(r"ColorSpace::from_primitive_depth\(\s*\w+\s*,\s*\w+\s*,\s*(\d+)\s*\)", co)
        b = X.fn_body(co, "from_primitive_depth")
        if not re.search(r"if\s+depth\s*==\s*0\s*\{\s*bail!", b) or b.count("depth-1") + b.count("depth - 1") < 2:
            raise ValueError("from_primitive_depth: budget test / decrement missing")
        return m.group(1)
    g.attempt([("cs_depth", "N")], "object/color.rs:ColorSpace::from_primitive", cs_depth)

    def fn2_guard():
        b = X.fn_body(fu, "from_dict")
        m = re.search(r"if\s+(\w+)\.domain\.len\(\)\s*<\s*(\d+)\s*\{\s*bail!", b)
        raw = m.group(1)                                   # the raw dictionary, whatever the local is called
        idx = [int(x) for x in re.findall(raw + r"\.domain\[(\d+)\]", b)]
        if not idx or b.find(raw + ".domain.len()") > b.find(raw + ".domain["):
            raise ValueError("domain guard does not precede the indexing")
        return m.group(2), str(max(idx))
    g.attempt([("fn2_domain_min", "N"), ("fn2_domain_max_index", "N")], "object/function.rs:Function::from_dict", fn2_guard)

    def ps_guards():
        b = X.fn_body(fu, "exec_inner")
        roll = b[b.index("PsOp::Roll"):b.index("PsOp::Index")]
        index = b[b.index("PsOp::Index"):b.index("PsOp::Cvr")]
        r1 = 1 if re.search(r"if\s+n\s*>\s*stack\.len\(\)\s*\{\s*return\s+Err", roll) and roll.find("if n > stack.len()") < roll.find("stack.len() - n") else 0
        r2 = 1 if re.search(r"if\s+n\s*>\s*0\s*\{\s*slice\.rotate_right\(\s*j\.rem_euclid\(\s*n\s+as\s+isize\s*\)\s+as\s+usize\s*\)", roll) else 0
        i1 = 1 if re.search(r"if\s+n\s*>=\s*stack\.len\(\)\s*\{\s*return\s+Err", index) and index.find("n >= stack.len()") < index.find("stack[") else 0
        p = X.fn_body(fu, "parse")
        s1 = 1 if re.search(r"s\.get\(\s*start\s*\+\s*1\s*\.\.\s*end\s*\)\.ok_or\(", p) and "s[" not in p else 0
        return str(r1), str(r2), str(i1), str(s1)
    g.attempt([("ps_roll_len_guard", "N"), ("ps_roll_mod_guard", "N"), ("ps_index_guard", "N"), ("ps_parse_get", "N")],
              "object/function.rs:PsFunc::exec_inner,PsFunc::parse", ps_guards)

    def diff():
        b = X.fn_body(en, "from_primitive")
        m = re.search(r"\b(\w+)\s*=\s*\1\.wrapping_add\(1\)", b)        # the running glyph code, whatever it is called
        return "1" if m and not re.search(r"\b" + m.group(1) + r"\s*\+=\s*1", b) else "0"
    g.attempt([("diff_wrapping", "N")], "encoding.rs:Encoding::from_primitive", diff)

    def fax():
        b = X.fn_body(ec, "fax_decode")
        # `unimplemented!()` is a bail! in this crate (error.rs): either spelling refuses K >= 0 with an error value
        k = 1 if re.search(r"if\s+params\.k\s*>=\s*0\s*\{\s*(bail!|unimplemented!)", b) else 0
        # the guards must precede the decoder call
        call = b.find("decode_g4(")
        mc = re.search(r"match\s+u16::try_from\(params\.columns\)\s*\{\s*Ok\(c\)\s+if\s+c\s*>\s*0\s*=>\s*c\s*,\s*_\s*=>\s*bail!", b)
        mr = re.search(r"0\s*=>\s*None\s*,\s*rows\s*=>\s*Some\(u16::try_from\(rows\)\.map_err\(", b)
        cols = 1 if mc and 0 <= mc.start() < call else 0
        rows = 1 if mr and 0 <= mr.start() < call else 0
        no_assert = 1 if not re.search(r"\bassert(_eq|_ne)?!", b) and ".unwrap()" not in b else 0
        no_cap = 1 if "with_capacity" not in b else 0
        return str(k), str(cols), str(rows), str(no_assert), str(no_cap)
    g.attempt([("fax_k_guard", "N"), ("fax_columns_guard", "N"), ("fax_rows_guard", "N"), ("fax_no_assert", "N"), ("fax_no_capacity", "N")],
              "enc.rs:fax_decode", fax)
