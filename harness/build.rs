// Generates the mode registry from the files present in src/modes/, so that a
// new mode file needs no edit of a shared source file.
use std::{env, fs, path::PathBuf};
fn main() {
    let dir = PathBuf::from(env::var("CARGO_MANIFEST_DIR").unwrap()).join("src/modes");
    println!("cargo:rerun-if-changed=src/modes");
    let mut names: Vec<String> = fs::read_dir(&dir).unwrap()
        .filter_map(|e| e.ok())
        .filter_map(|e| {
            let n = e.file_name().into_string().ok()?;
            n.strip_suffix(".rs").map(|s| s.to_string())
        })
        .collect();
    names.sort();
    let mut out = String::new();
    for n in &names {
        out += &format!("#[path = {:?}] pub mod {};\n", dir.join(format!("{}.rs", n)), n);
    }
    out += "pub fn dispatch(mode: &str, f: &[Vec<u8>]) -> Option<crate::R> {\n";
    for n in &names {
        out += &format!("    if let Some(r) = {}::dispatch(mode, f) {{ return Some(r); }}\n", n);
    }
    out += "    None\n}\n";
    fs::write(PathBuf::from(env::var("OUT_DIR").unwrap()).join("modes_gen.rs"), out).unwrap();
}
