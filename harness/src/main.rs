//! pdfh — runs the real pdf crate on harness cases (correspondence side "impl").
//! Protocol: one case per line on stdin, `mode field field …` (fields hex, `-` = empty);
//! one result per line on stdout: `OK f…` | `ERR kind` | `PANIC file:line` | `NOMODE`.
use std::io::{self, BufRead, Write};
use std::panic;
use std::sync::Mutex;

pub type R = Result<Vec<Vec<u8>>, String>;

pub mod util;
mod modes { include!(concat!(env!("OUT_DIR"), "/modes_gen.rs")); }

static LAST_PANIC: Mutex<String> = Mutex::new(String::new());

fn hex(b: &[u8]) -> String {
    if b.is_empty() { return "-".into(); }
    let mut s = String::with_capacity(b.len() * 2);
    for x in b { s.push_str(&format!("{:02x}", x)); }
    s
}
fn unhex(s: &str) -> Option<Vec<u8>> {
    if s == "-" { return Some(vec![]); }
    let b = s.as_bytes();
    if b.len() % 2 != 0 { return None; }
    let mut v = Vec::with_capacity(b.len() / 2);
    for i in (0..b.len()).step_by(2) {
        v.push(u8::from_str_radix(std::str::from_utf8(&b[i..i + 2]).ok()?, 16).ok()?);
    }
    Some(v)
}

fn main() {
    panic::set_hook(Box::new(|info| {
        let loc = info.location().map(|l| format!("{}:{}", l.file(), l.line())).unwrap_or_else(|| "?".into());
        let msg = if let Some(s) = info.payload().downcast_ref::<&str>() { s.to_string() }
                  else if let Some(s) = info.payload().downcast_ref::<String>() { s.clone() } else { String::new() };
        if let Ok(mut g) = LAST_PANIC.lock() { *g = format!("{} {}", loc, msg.replace('\n', " ").chars().take(120).collect::<String>()); }
    }));
    let stdin = io::stdin();
    let stdout = io::stdout();
    let mut out = stdout.lock();
    for line in stdin.lock().lines() {
        let line = match line { Ok(l) => l, Err(_) => break };
        let mut it = line.split(' ').filter(|s| !s.is_empty());
        let mode = match it.next() { Some(m) => m.to_string(), None => { writeln!(out, "NOMODE").ok(); out.flush().ok(); continue } };
        let fields: Option<Vec<Vec<u8>>> = it.map(unhex).collect();
        let fields = match fields { Some(f) => f, None => { writeln!(out, "BADINPUT").ok(); out.flush().ok(); continue } };
        let res = panic::catch_unwind(panic::AssertUnwindSafe(|| modes::dispatch(&mode, &fields)));
        match res {
            Ok(Some(Ok(fs))) => { let v: Vec<String> = fs.iter().map(|f| hex(f)).collect(); writeln!(out, "OK {}", v.join(" ")).ok(); }
            Ok(Some(Err(k))) => { writeln!(out, "ERR {}", k.replace(' ', "_").replace('\n', "_")).ok(); }
            Ok(None) => { writeln!(out, "NOMODE").ok(); }
            Err(_) => { let g = LAST_PANIC.lock().map(|g| g.clone()).unwrap_or_default(); writeln!(out, "PANIC {}", g).ok(); }
        }
        out.flush().ok();
    }
}
