//! helpers shared by the mode files
use pdf::error::PdfError;

/// coarse error kind (DESIGN.md §4): only the kinds some property names, else "Other"
pub fn ekind(e: &PdfError) -> String {
    fn inner(e: &PdfError) -> &'static str {
        match e {
            PdfError::InvalidPassword => "InvalidPassword",
            PdfError::PageOutOfBounds { .. } => "PageOutOfBounds",
            PdfError::MissingEntry { .. } => "MissingEntry",
            PdfError::NullRef { .. } => "NullRef",
            PdfError::FreeObject { .. } => "FreeObject",
            PdfError::EOF => "EOF",
            PdfError::MaxDepth => "MaxDepth",
            PdfError::UnspecifiedXRefEntry { .. } => "UnspecifiedXRefEntry",
            PdfError::Try { source, .. } => inner(source),
            PdfError::Shared { source } => inner(source),
            PdfError::FromPrimitive { source, .. } => inner(source),
            _ => "Other",
        }
    }
    inner(e).to_string()
}

pub fn dec(b: &[u8]) -> i128 {
    std::str::from_utf8(b).ok().and_then(|s| s.parse::<i128>().ok()).unwrap_or(0)
}
pub fn fld<'a>(f: &'a [Vec<u8>], i: usize) -> &'a [u8] {
    f.get(i).map(|v| &v[..]).unwrap_or(&[])
}
