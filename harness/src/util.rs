//! helpers shared by the mode files
use pdf::error::PdfError;

/// coarse error kind (DESIGN.md §4): only the kinds some property names, else "Other"
pub fn ekind(e: &PdfError) -> String {
    fn inner(e: &PdfError) -> &'static str {
        match e {
            PdfError::InvalidPassword => "InvalidPassword",
            PdfError::PageOutOfBounds { .. } => "PageOutOfBounds",
            PdfError::MissingEntry { .. } => "MissingEntry",
            PdfError::NullRef { .. } => "NullRef",
            PdfError::FreeObject { .. } => "FreeObject",
            PdfError::EOF => "EOF",
            PdfError::MaxDepth => "MaxDepth",
            PdfError::UnspecifiedXRefEntry { .. } => "UnspecifiedXRefEntry",
            PdfError::Try { source, .. } => inner(source),
            PdfError::Shared { source } => inner(source),
            PdfError::FromPrimitive { source, .. } => inner(source),
            _ => "Other",
        }
    }
    inner(e).to_string()
}

pub fn dec(b: &[u8]) -> i128 {
    std::str::from_utf8(b).ok().and_then(|s| s.parse::<i128>().ok()).unwrap_or(0)
}
pub fn fld<'a>(f: &'a [Vec<u8>], i: usize) -> &'a [u8] {
    f.get(i).map(|v| &v[..]).unwrap_or(&[])
}

// ---------------------------------------------------------------------------------------------
// canonical text form of a Primitive (mirrored by tools/oracle/canon.py and, for the parser model,
// by Syn/Canon.v):  n t f i<dec> r<8 hex: f32 bits> N<hex>; S<hex>; R<id>,<gen> [v v] {<hexkey>:v <hexkey>:v}
// s{dict}<hex raw data>;   (s{dict}!<ErrKind>; when the raw data cannot be read)
use pdf::primitive::{Primitive, Dictionary};
use pdf::object::Resolve;

pub fn hexs(b: &[u8], out: &mut String) {
    for x in b { out.push_str(&format!("{:02x}", x)); }
}
pub fn canon_dict(d: &Dictionary, r: &impl Resolve, out: &mut String) {
    out.push('{');
    let mut first = true;
    for (k, v) in d.iter() {
        if !first { out.push(' '); }
        first = false;
        hexs(k.as_str().as_bytes(), out);
        out.push(':');
        canon_into(v, r, out);
    }
    out.push('}');
}
pub fn canon_into(p: &Primitive, r: &impl Resolve, out: &mut String) {
    match p {
        Primitive::Null => out.push('n'),
        Primitive::Boolean(true) => out.push('t'),
        Primitive::Boolean(false) => out.push('f'),
        Primitive::Integer(i) => out.push_str(&format!("i{}", i)),
        Primitive::Number(x) => out.push_str(&format!("r{:08x}", x.to_bits())),
        Primitive::Name(s) => { out.push('N'); hexs(s.as_str().as_bytes(), out); out.push(';'); }
        Primitive::String(s) => { out.push('S'); hexs(s.as_bytes(), out); out.push(';'); }
        Primitive::Reference(x) => out.push_str(&format!("R{},{}", x.id, x.gen)),
        Primitive::Array(a) => {
            out.push('[');
            for (i, v) in a.iter().enumerate() { if i > 0 { out.push(' '); } canon_into(v, r, out); }
            out.push(']');
        }
        Primitive::Dictionary(d) => canon_dict(d, r, out),
        Primitive::Stream(s) => {
            out.push('s');
            canon_dict(&s.info, r, out);
            match s.raw_data(r) {
                Ok(d) => hexs(&d, out),
                Err(e) => { out.push('!'); out.push_str(&ekind(&e)); }
            }
            out.push(';');
        }
    }
}
pub fn canon(p: &Primitive, r: &impl Resolve) -> Vec<u8> {
    let mut s = String::new();
    canon_into(p, r, &mut s);
    s.into_bytes()
}
pub fn canon_res(p: pdf::error::Result<Primitive>, r: &impl Resolve) -> Vec<u8> {
    match p { Ok(p) => canon(&p, r), Err(e) => format!("!{}", ekind(&e)).into_bytes() }
}
