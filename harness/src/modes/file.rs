//! modes that open a whole file (raw Storage level: no catalog needed)
use crate::util::*;
use crate::R;
use pdf::file::{Storage, NoCache, NoLog};
use pdf::object::{ParseOptions, PlainRef, Resolve};
use pdf::primitive::Primitive;

pub fn opts_of(b: &[u8]) -> ParseOptions {
    if b.first() == Some(&b't') { ParseOptions::tolerant() } else { ParseOptions::strict() }
}

pub fn dispatch(mode: &str, f: &[Vec<u8>]) -> Option<R> {
    Some(match mode {
        // opts count file  ->  one field per object number 0..count (canon | !Kind), then the trailer
        "resolve_all" => {
            let mut st = match Storage::with_cache(f[2].clone(), opts_of(fld(f, 0)), NoCache, NoCache, NoLog) {
                Ok(s) => s, Err(e) => return Some(Err(ekind(&e))) };
            let tr = match st.load_storage_and_trailer() { Ok(t) => t, Err(e) => return Some(Err(ekind(&e))) };
            let r = st.resolver();
            let n = dec(fld(f, 1)) as u64;
            let mut out = vec![];
            for id in 0..n {
                // the generation in the reference is not used for look-up
                out.push(canon_res(r.resolve(PlainRef { id, gen: 0 }), &r));
            }
            out.push(canon(&Primitive::Dictionary(tr), &r));
            Ok(out)
        }
        _ => return None,
    })
}
