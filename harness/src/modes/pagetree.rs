//! C07 — page tree modes: the public page API of a loaded file.
//!   page_query <c|u> <nq> <file> [<n,n,…>]  ->  num_pages, then for i in 0..nq and then for each listed n one field
//!        `P<objnr> <mediabox> <cropbox> <resources>`   or   `!<ErrKind>`   (File::get_page(i))
//!        box       = 4 x f32 bit patterns `xxxxxxxx,xxxxxxxx,xxxxxxxx,xxxxxxxx` | `!<ErrKind>`
//!        resources = `R<objnr>` (indirect) | `D<first sorted /Properties key>` (direct) | `!<ErrKind>`
//!   page_iter  <c|u> <file>       ->  one field per item of File::pages(): `P<objnr>` | `!<ErrKind>`
use crate::util::*;
use crate::R;
use pdf::error::PdfError;
use pdf::file::{File, FileOptions};
use pdf::object::{MaybeRef, PageRc, Rectangle, Resources};

fn rect(r: Result<Rectangle, PdfError>) -> String {
    match r {
        Ok(b) => format!("{:08x},{:08x},{:08x},{:08x}", b.left.to_bits(), b.bottom.to_bits(), b.right.to_bits(), b.top.to_bits()),
        Err(e) => format!("!{}", ekind(&e)),
    }
}
fn res(r: Result<&MaybeRef<Resources>, PdfError>) -> String {
    match r {
        Ok(m) => match m.as_ref() {
            Some(rf) => format!("R{}", rf.get_inner().id),
            None => {
                let mut keys: Vec<String> = m.properties.keys().map(|k| k.as_str().to_string()).collect();
                keys.sort();
                format!("D{}", keys.first().cloned().unwrap_or_default())
            }
        },
        Err(e) => format!("!{}", ekind(&e)),
    }
}
fn describe(p: Result<PageRc, PdfError>) -> Vec<u8> {
    match p {
        Ok(page) => format!("P{} {} {} {}", page.get_ref().get_inner().id, rect(page.media_box()), rect(page.crop_box()), res(page.resources())).into_bytes(),
        Err(e) => format!("!{}", ekind(&e)).into_bytes(),
    }
}
fn ident(p: Result<PageRc, PdfError>) -> Vec<u8> {
    match p {
        Ok(page) => format!("P{}", page.get_ref().get_inner().id).into_bytes(),
        Err(e) => format!("!{}", ekind(&e)).into_bytes(),
    }
}

fn query<B, OC, SC, L>(file: &File<B, OC, SC, L>, nq: u32, extra: &[u8]) -> Vec<Vec<u8>>
where B: pdf::backend::Backend,
      OC: pdf::file::Cache<Result<pdf::any::AnySync, std::sync::Arc<PdfError>>>,
      SC: pdf::file::Cache<Result<std::sync::Arc<[u8]>, std::sync::Arc<PdfError>>>,
      L: pdf::file::Log,
{
    let mut out = vec![format!("{}", file.num_pages()).into_bytes()];
    for i in 0..nq {
        out.push(describe(file.get_page(i)));
    }
    for tok in extra.split(|&b| b == b',').filter(|t| !t.is_empty()) {
        out.push(describe(file.get_page(dec(tok) as u32)));
    }
    out
}
fn iter<B, OC, SC, L>(file: &File<B, OC, SC, L>) -> Vec<Vec<u8>>
where B: pdf::backend::Backend,
      OC: pdf::file::Cache<Result<pdf::any::AnySync, std::sync::Arc<PdfError>>>,
      SC: pdf::file::Cache<Result<std::sync::Arc<[u8]>, std::sync::Arc<PdfError>>>,
      L: pdf::file::Log,
{
    file.pages().map(ident).collect()
}

pub fn dispatch(mode: &str, f: &[Vec<u8>]) -> Option<R> {
    Some(match mode {
        // page_spec: same query; the model side runs the Coq specification object instead of the code model
        "page_query" | "page_spec" => {
            let nq = dec(fld(f, 1)) as u32;
            if fld(f, 0).first() == Some(&b'c') {
                match FileOptions::cached().load(fld(f, 2).to_vec()) { Ok(file) => Ok(query(&file, nq, fld(f, 3))), Err(e) => Err(ekind(&e)) }
            } else {
                match FileOptions::uncached().load(fld(f, 2).to_vec()) { Ok(file) => Ok(query(&file, nq, fld(f, 3))), Err(e) => Err(ekind(&e)) }
            }
        }
        "page_iter" => {
            if fld(f, 0).first() == Some(&b'c') {
                match FileOptions::cached().load(fld(f, 1).to_vec()) { Ok(file) => Ok(iter(&file)), Err(e) => Err(ekind(&e)) }
            } else {
                match FileOptions::uncached().load(fld(f, 1).to_vec()) { Ok(file) => Ok(iter(&file)), Err(e) => Err(ekind(&e)) }
            }
        }
        _ => return None,
    })
}
