//! C07 — page tree modes: the public page API of a loaded file.
//!   page_query <c|u> <nq> <file> [<n,n,…>]  ->  num_pages, then for i in 0..nq and then for each listed n one field
//!        `P<objnr> <mediabox> <cropbox> <resources>`   or   `!<ErrKind>`   (File::get_page(i))
//!        box       = 4 x f32 bit patterns `xxxxxxxx,xxxxxxxx,xxxxxxxx,xxxxxxxx` | `!<ErrKind>`
//!        resources = `R<objnr>` (indirect) | `D<first sorted /Properties key>` (direct) | `!<ErrKind>`
//!   page_iter  <c|u> <file>       ->  one field per item of File::pages(): `P<objnr>` | `!<ErrKind>`
//!   page_cs    <c|u> <nq> <file>  ->  num_pages, then for i in 0..nq  `P<objnr> <resources> <colour spaces>` | `P<objnr> !<ErrKind>` | `!<ErrKind>`
//!        colour spaces = `-` | `name=desc;name=desc…` sorted by name (Resources.color_spaces of Page::resources()); desc as in
//!        tools/oracle/pagetree.py: DeviceGray | DeviceRGB | DeviceCMYK | Pattern | CalGray{keys} | CalRGB{keys} | Lab{keys} | ICCBased(N,alt|-)
//!        | Indexed(base,hival,hex) | Separation(name,alt,fn) | DeviceN(n+n…,alt,fn,-|{keys}) ; fn = F<type>:<inputs>><outputs>
use crate::util::*;
use crate::R;
use pdf::error::PdfError;
use pdf::file::{File, FileOptions};
use pdf::object::{ColorSpace, Function, MaybeRef, PageRc, Rectangle, Resources};
use pdf::primitive::{Dictionary, Primitive};

fn rect(r: Result<Rectangle, PdfError>) -> String {
    match r {
        Ok(b) => format!("{:08x},{:08x},{:08x},{:08x}", b.left.to_bits(), b.bottom.to_bits(), b.right.to_bits(), b.top.to_bits()),
        Err(e) => format!("!{}", ekind(&e)),
    }
}
fn res(r: Result<&MaybeRef<Resources>, PdfError>) -> String {
    match r {
        Ok(m) => match m.as_ref() {
            Some(rf) => format!("R{}", rf.get_inner().id),
            None => {
                let mut keys: Vec<String> = m.properties.keys().map(|k| k.as_str().to_string()).collect();
                keys.sort();
                format!("D{}", keys.first().cloned().unwrap_or_default())
            }
        },
        Err(e) => format!("!{}", ekind(&e)),
    }
}
fn keys(d: &Dictionary) -> String {
    let mut ks: Vec<String> = d.iter().map(|(k, _)| k.as_str().to_string()).collect();
    ks.sort();
    format!("{{{}}}", ks.join("+"))
}
fn fn_desc(f: &Function) -> String {
    let t = match f { Function::Sampled(_) => "0", Function::Interpolated(_) => "2", Function::Stiching => "3", Function::PostScript { .. } => "4",
                      Function::Calculator => "?" };
    format!("F{}:{}>{}", t, f.input_dim(), f.output_dim())
}
fn cs_desc(cs: &ColorSpace) -> String {
    match cs {
        ColorSpace::DeviceGray => "DeviceGray".into(),
        ColorSpace::DeviceRGB => "DeviceRGB".into(),
        ColorSpace::DeviceCMYK => "DeviceCMYK".into(),
        ColorSpace::Pattern => "Pattern".into(),
        ColorSpace::Named(n) => format!("Named({})", n.as_str()),
        ColorSpace::CalGray(d) => format!("CalGray{}", keys(d)),
        ColorSpace::CalRGB(d) => format!("CalRGB{}", keys(d)),
        ColorSpace::CalCMYK(d) => format!("CalCMYK{}", keys(d)),
        ColorSpace::Icc(s) => format!("ICCBased({},{})", s.info.info.components,
                                      s.info.info.alternate.as_ref().map(|a| cs_desc(a)).unwrap_or_else(|| "-".into())),
        ColorSpace::Indexed(base, hival, table) => {
            let mut h = String::new();
            hexs(table, &mut h);
            format!("Indexed({},{},{})", cs_desc(base), hival, h)
        }
        ColorSpace::Separation(n, alt, f) => format!("Separation({},{},{})", n.as_str(), cs_desc(alt), fn_desc(f)),
        ColorSpace::DeviceN { names, alt, tint, attr } => format!("DeviceN({},{},{},{})",
            names.iter().map(|n| n.as_str().to_string()).collect::<Vec<_>>().join("+"), cs_desc(alt), fn_desc(tint),
            attr.as_ref().map(keys).unwrap_or_else(|| "-".into())),
        // families the reader keeps as the array it found (Lab): family name and the keys of its dictionary
        ColorSpace::Other(arr) => format!("{}{}", arr.first().and_then(|p| p.as_name().ok()).unwrap_or("?"),
                                          match arr.get(1) { Some(Primitive::Dictionary(d)) => keys(d), _ => "".into() }),
    }
}
fn describe_cs(p: Result<PageRc, PdfError>) -> Vec<u8> {
    match p {
        Ok(page) => {
            let id = page.get_ref().get_inner().id;
            match page.resources() {
                Ok(m) => {
                    let mut kv: Vec<(String, String)> = m.color_spaces.iter().map(|(k, v)| (k.as_str().to_string(), cs_desc(v))).collect();
                    kv.sort();
                    let l: Vec<String> = kv.into_iter().map(|(k, v)| format!("{}={}", k, v)).collect();
                    format!("P{} {} {}", id, res(Ok(m)), if l.is_empty() { "-".to_string() } else { l.join(";") }).into_bytes()
                }
                Err(e) => format!("P{} !{}", id, ekind(&e)).into_bytes(),
            }
        }
        Err(e) => format!("!{}", ekind(&e)).into_bytes(),
    }
}
fn describe(p: Result<PageRc, PdfError>) -> Vec<u8> {
    match p {
        Ok(page) => format!("P{} {} {} {}", page.get_ref().get_inner().id, rect(page.media_box()), rect(page.crop_box()), res(page.resources())).into_bytes(),
        Err(e) => format!("!{}", ekind(&e)).into_bytes(),
    }
}
fn ident(p: Result<PageRc, PdfError>) -> Vec<u8> {
    match p {
        Ok(page) => format!("P{}", page.get_ref().get_inner().id).into_bytes(),
        Err(e) => format!("!{}", ekind(&e)).into_bytes(),
    }
}

fn query<B, OC, SC, L>(file: &File<B, OC, SC, L>, nq: u32, extra: &[u8]) -> Vec<Vec<u8>>
where B: pdf::backend::Backend,
      OC: pdf::file::Cache<Result<pdf::any::AnySync, std::sync::Arc<PdfError>>>,
      SC: pdf::file::Cache<Result<std::sync::Arc<[u8]>, std::sync::Arc<PdfError>>>,
      L: pdf::file::Log,
{
    let mut out = vec![format!("{}", file.num_pages()).into_bytes()];
    for i in 0..nq {
        out.push(describe(file.get_page(i)));
    }
    for tok in extra.split(|&b| b == b',').filter(|t| !t.is_empty()) {
        out.push(describe(file.get_page(dec(tok) as u32)));
    }
    out
}
fn query_cs<B, OC, SC, L>(file: &File<B, OC, SC, L>, nq: u32) -> Vec<Vec<u8>>
where B: pdf::backend::Backend,
      OC: pdf::file::Cache<Result<pdf::any::AnySync, std::sync::Arc<PdfError>>>,
      SC: pdf::file::Cache<Result<std::sync::Arc<[u8]>, std::sync::Arc<PdfError>>>,
      L: pdf::file::Log,
{
    let mut out = vec![format!("{}", file.num_pages()).into_bytes()];
    for i in 0..nq {
        out.push(describe_cs(file.get_page(i)));
    }
    out
}
fn iter<B, OC, SC, L>(file: &File<B, OC, SC, L>) -> Vec<Vec<u8>>
where B: pdf::backend::Backend,
      OC: pdf::file::Cache<Result<pdf::any::AnySync, std::sync::Arc<PdfError>>>,
      SC: pdf::file::Cache<Result<std::sync::Arc<[u8]>, std::sync::Arc<PdfError>>>,
      L: pdf::file::Log,
{
    file.pages().map(ident).collect()
}

pub fn dispatch(mode: &str, f: &[Vec<u8>]) -> Option<R> {
    Some(match mode {
        // page_spec: same query; the model side runs the Coq specification object instead of the code model
        "page_query" | "page_spec" => {
            let nq = dec(fld(f, 1)) as u32;
            if fld(f, 0).first() == Some(&b'c') {
                match FileOptions::cached().load(fld(f, 2).to_vec()) { Ok(file) => Ok(query(&file, nq, fld(f, 3))), Err(e) => Err(ekind(&e)) }
            } else {
                match FileOptions::uncached().load(fld(f, 2).to_vec()) { Ok(file) => Ok(query(&file, nq, fld(f, 3))), Err(e) => Err(ekind(&e)) }
            }
        }
        "page_cs" => {
            let nq = dec(fld(f, 1)) as u32;
            if fld(f, 0).first() == Some(&b'c') {
                match FileOptions::cached().load(fld(f, 2).to_vec()) { Ok(file) => Ok(query_cs(&file, nq)), Err(e) => Err(ekind(&e)) }
            } else {
                match FileOptions::uncached().load(fld(f, 2).to_vec()) { Ok(file) => Ok(query_cs(&file, nq)), Err(e) => Err(ekind(&e)) }
            }
        }
        "page_iter" => {
            if fld(f, 0).first() == Some(&b'c') {
                match FileOptions::cached().load(fld(f, 1).to_vec()) { Ok(file) => Ok(iter(&file)), Err(e) => Err(ekind(&e)) }
            } else {
                match FileOptions::uncached().load(fld(f, 1).to_vec()) { Ok(file) => Ok(iter(&file)), Err(e) => Err(ekind(&e)) }
            }
        }
        _ => return None,
    })
}
