//! modes for the storage state machine (pdf/src/file.rs Updater + save) and the builder (pdf/src/build.rs)
//!
//! storage_history  opts base ops      -> one field per op (+ reload listing after every successful save)
//! build            opts pages info    -> bytes, reload view
//! storage_save_to  opts base ops      -> per `S` op three fields: result of File::save_to on a temporary path (`ok` | `!Kind`), result of
//!                                        Storage::save for the same history on a twin storage, `1`/`0` = the bytes on disk equal the twin's
//!                                        last successfully saved bytes (the base before the first successful save)
use crate::util::*;
use crate::R;
use pdf::file::{Storage, NoCache, NoLog, Trailer, Cache, Log, FileOptions};
use pdf::object::*;
use pdf::primitive::{Primitive, Dictionary, PdfString, PdfStream};
use pdf::any::AnySync;
use pdf::error::PdfError;
use std::sync::Arc;

// ------------------------------------------------------------------------------------------------
// canon text -> Primitive (inverse of util::canon for values that carry their own stream data)

struct P<'a> { s: &'a [u8], i: usize }
impl<'a> P<'a> {
    fn peek(&self) -> Option<u8> { self.s.get(self.i).copied() }
    fn eat(&mut self, c: u8) -> Option<()> { if self.peek() == Some(c) { self.i += 1; Some(()) } else { None } }
    fn dec(&mut self) -> Option<i64> {
        let neg = self.eat(b'-').is_some();
        let st = self.i;
        let mut v: i64 = 0;
        while let Some(c) = self.peek() { if c.is_ascii_digit() { v = v.checked_mul(10)?.checked_add((c - b'0') as i64)?; self.i += 1; } else { break; } }
        if self.i == st { return None; }
        Some(if neg { -v } else { v })
    }
    fn hexbytes(&mut self) -> Option<Vec<u8>> {
        let mut out = vec![];
        loop {
            let a = self.peek()?; let h = |c: u8| (c as char).to_digit(16);
            match h(a) { Some(x) => { let b = h(*self.s.get(self.i + 1)?)?; out.push((x * 16 + b) as u8); self.i += 2; } None => break }
        }
        Some(out)
    }
    fn dict(&mut self) -> Option<Dictionary> {
        self.eat(b'{')?;
        let mut d = Dictionary::new();
        loop {
            if self.eat(b'}').is_some() { break; }
            if self.peek() == Some(b' ') { self.i += 1; }
            let k = self.hexbytes()?;
            self.eat(b':')?;
            let v = self.value()?;
            d.insert(String::from_utf8(k).ok()?, v);
        }
        Some(d)
    }
    fn value(&mut self) -> Option<Primitive> {
        let c = self.peek()?;
        self.i += 1;
        Some(match c {
            b'n' => Primitive::Null,
            b't' => Primitive::Boolean(true),
            b'f' => Primitive::Boolean(false),
            b'i' => Primitive::Integer(self.dec()? as i32),
            b'r' => { let h = std::str::from_utf8(self.s.get(self.i..self.i + 8)?).ok()?; self.i += 8; Primitive::Number(f32::from_bits(u32::from_str_radix(h, 16).ok()?)) }
            b'N' => { let b = self.hexbytes()?; self.eat(b';')?; Primitive::Name(String::from_utf8(b).ok()?.into()) }
            b'S' => { let b = self.hexbytes()?; self.eat(b';')?; Primitive::String(PdfString::new(b.into())) }
            b'R' => { let id = self.dec()?; self.eat(b',')?; let g = self.dec()?; Primitive::Reference(PlainRef { id: id as u64, gen: g as u64 }) }
            b'[' => {
                let mut v = vec![];
                loop {
                    if self.eat(b']').is_some() { break; }
                    if self.peek() == Some(b' ') { self.i += 1; }
                    v.push(self.value()?);
                }
                Primitive::Array(v)
            }
            b'{' => { self.i -= 1; Primitive::Dictionary(self.dict()?) }
            b's' => {
                let d = self.dict()?;
                let data = self.hexbytes()?;
                self.eat(b';')?;
                // a pending stream with exactly the dictionary given (the caller supplies /Length)
                let mut st = Stream::new(Dictionary::new(), data).to_pdf_stream(&mut NoUpdate).ok()?;
                st.info = d;
                Primitive::Stream(st)
            }
            _ => return None,
        })
    }
}
pub fn uncanon(b: &[u8]) -> Option<Primitive> {
    let mut p = P { s: b, i: 0 };
    let v = p.value()?;
    if p.i == b.len() { Some(v) } else { None }
}

fn rtext(r: PlainRef) -> Vec<u8> { format!("R{},{}", r.id, r.gen).into_bytes() }
fn etext(e: &PdfError) -> Vec<u8> { format!("!{}", ekind(e)).into_bytes() }

/// reference designator: `h<n>` = n-th reference handed out so far, else `<id>,<gen>`
fn refd(tok: &[u8], handed: &[PlainRef]) -> Option<PlainRef> {
    let s = std::str::from_utf8(tok).ok()?;
    if let Some(n) = s.strip_prefix('h') { return handed.get(n.parse::<usize>().ok()?).copied(); }
    let mut it = s.split(',');
    Some(PlainRef { id: it.next()?.parse().ok()?, gen: it.next()?.parse().ok()? })
}

/// a value whose ObjectWrite::to_primitive itself creates an object through the Updater it is handed (like PageRc::create with
/// direct contents/resources): the child is created first, the parent is `<< /Child c 0 R >>`; the child's reference is recorded
struct Nested { child: Primitive, child_ref: std::sync::Mutex<Option<PlainRef>> }
impl ObjectWrite for Nested {
    fn to_primitive(&self, update: &mut impl Updater) -> pdf::error::Result<Primitive> {
        let c = update.create(self.child.clone())?;
        let r = c.get_ref().get_inner();
        *self.child_ref.lock().unwrap() = Some(r);
        let mut d = Dictionary::new();
        d.insert("Child", Primitive::Reference(r));
        Ok(Primitive::Dictionary(d))
    }
}

/// two levels: the conversion creates a Nested, whose conversion creates the leaf: `<< /Child m >>`, m = `<< /Child c >>`, c = the value
struct Nested2 { child: Primitive, refs: std::sync::Mutex<Option<(PlainRef, PlainRef)>> }
impl ObjectWrite for Nested2 {
    fn to_primitive(&self, update: &mut impl Updater) -> pdf::error::Result<Primitive> {
        let m = update.create(Nested { child: self.child.clone(), child_ref: std::sync::Mutex::new(None) })?;
        let mr = m.get_ref().get_inner();
        let c = m.child_ref.lock().unwrap().expect("leaf");
        *self.refs.lock().unwrap() = Some((mr, c));
        let mut d = Dictionary::new();
        d.insert("Child", Primitive::Reference(mr));
        Ok(Primitive::Dictionary(d))
    }
}

fn listing<OC, SC, L>(bytes: Vec<u8>, mk: &dyn Fn() -> (OC, SC, L), out: &mut Vec<Vec<u8>>)
where OC: Cache<pdf::error::Result<AnySync, Arc<PdfError>>>, SC: Cache<pdf::error::Result<Arc<[u8]>, Arc<PdfError>>>, L: Log
{
    let (oc, sc, l) = mk();
    let mut st = match Storage::with_cache(bytes, ParseOptions::strict(), oc, sc, l) {
        Ok(s) => s, Err(e) => { out.push(etext(&e)); return; } };
    let tr = match st.load_storage_and_trailer() { Ok(t) => t, Err(e) => { out.push(etext(&e)); return; } };
    let r = st.resolver();
    let size = tr.get("Size").and_then(|p| p.as_u32().ok()).unwrap_or(0) as u64;
    out.push(format!("{}", size).into_bytes());
    for id in 0..size {
        out.push(canon_res(r.resolve(PlainRef { id, gen: 0 }), &r));
    }
    let mut t2 = Dictionary::new();
    for k in ["Root", "Info", "ID", "Prev"] {
        if let Some(v) = tr.get(k) { t2.insert(k, v.clone()); }
    }
    out.push(canon(&Primitive::Dictionary(t2), &r));
}

fn history<OC, SC, L>(f: &[Vec<u8>], mk: &dyn Fn() -> (OC, SC, L)) -> R
where OC: Cache<pdf::error::Result<AnySync, Arc<PdfError>>>, SC: Cache<pdf::error::Result<Arc<[u8]>, Arc<PdfError>>>, L: Log
{
    let base = f[1].clone();
    let (oc, sc, l) = mk();
    let mut st = Storage::with_cache(base.clone(), ParseOptions::strict(), oc, sc, l).map_err(|e| ekind(&e))?;
    let td = st.load_storage_and_trailer().map_err(|e| ekind(&e))?;
    let mut trailer = Trailer::from_primitive(Primitive::Dictionary(td), &st.resolver()).map_err(|e| ekind(&e))?;
    let mut handed: Vec<PlainRef> = vec![];
    let mut promises: Vec<(PlainRef, Option<PromisedRef<Primitive>>)> = vec![];
    let mut out: Vec<Vec<u8>> = vec![];
    let mut prev_len = base.len();
    let mut prev_bytes = base;
    for line in fld(f, 2).split(|&c| c == b'\n') {
        if line.is_empty() { continue; }
        let toks: Vec<&[u8]> = if line.first() == Some(&b'C') || line.first() == Some(&b'N') || line.first() == Some(&b'M') { line.splitn(2, |&c| c == b' ').collect() } else { line.splitn(3, |&c| c == b' ').collect() };
        // value designator: canon text, or `@ref` = whatever resolving ref yields now (may be an in-file stream)
        let val = |t: &[u8], st: &Storage<Vec<u8>, OC, SC, L>, handed: &[PlainRef]| -> std::result::Result<Primitive, String> {
            if t.first() == Some(&b'@') {
                let r = refd(&t[1..], handed).ok_or("badref")?;
                st.resolver().resolve(r).map_err(|e| ekind(&e))
            } else {
                uncanon(t).ok_or_else(|| "badvalue".to_string())
            }
        };
        match toks[0] {
            b"C" => {
                let v = val(toks[1], &st, &handed)?;
                match st.create(v) { Ok(rc) => { let r = rc.get_ref().get_inner(); handed.push(r); out.push(rtext(r)); } Err(e) => out.push(etext(&e)) }
            }
            b"N" => {
                // create of a value whose conversion creates a child: two references are handed out, parent then child
                let v = val(toks[1], &st, &handed)?;
                match st.create(Nested { child: v, child_ref: std::sync::Mutex::new(None) }) {
                    Ok(rc) => {
                        let r = rc.get_ref().get_inner();
                        let c = rc.child_ref.lock().unwrap().ok_or("nochild")?;
                        handed.push(r); handed.push(c);
                        out.push(rtext(r)); out.push(rtext(c));
                    }
                    Err(e) => out.push(etext(&e)),
                }
            }
            b"M" => {
                // two levels of conversion-created objects: parent, middle, leaf
                let v = val(toks[1], &st, &handed)?;
                match st.create(Nested2 { child: v, refs: std::sync::Mutex::new(None) }) {
                    Ok(rc) => {
                        let r = rc.get_ref().get_inner();
                        let (m, c) = rc.refs.lock().unwrap().ok_or("nochild")?;
                        handed.push(r); handed.push(m); handed.push(c);
                        out.push(rtext(r)); out.push(rtext(m)); out.push(rtext(c));
                    }
                    Err(e) => out.push(etext(&e)),
                }
            }
            b"U" => {
                let r = refd(toks[1], &handed).ok_or("badref")?;
                let v = val(toks[2], &st, &handed)?;
                match st.update(r, v) { Ok(rc) => { let r = rc.get_ref().get_inner(); handed.push(r); out.push(rtext(r)); } Err(e) => out.push(etext(&e)) }
            }
            b"P" => {
                let p = st.promise::<Primitive>();
                let r = p.get_inner();
                handed.push(r);
                promises.push((r, Some(p)));
                out.push(rtext(r));
            }
            b"F" => {
                let r = refd(toks[1], &handed).ok_or("badref")?;
                let v = val(toks[2], &st, &handed)?;
                let p = promises.iter_mut().find(|(q, p)| *q == r && p.is_some()).and_then(|(_, p)| p.take()).ok_or("nopromise")?;
                match st.fulfill(p, v) { Ok(rc) => { let r = rc.get_ref().get_inner(); handed.push(r); out.push(rtext(r)); } Err(e) => out.push(etext(&e)) }
            }
            b"R" => {
                let r = refd(toks[1], &handed).ok_or("badref")?;
                let rs = st.resolver();
                out.push(canon_res(rs.resolve(r), &rs));
            }
            b"G" => {
                let r = refd(toks[1], &handed).ok_or("badref")?;
                let rs = st.resolver();
                match rs.get::<Primitive>(Ref::new(r)) {
                    Ok(rc) => out.push(canon(&*rc, &rs)),
                    Err(e) => out.push(etext(&e)),
                }
            }
            b"S" => {
                match st.save(&mut trailer) {
                    Ok(b) => {
                        let b = b.to_vec();
                        out.push(b"ok".to_vec());
                        out.push(if b.len() >= prev_len && b[..prev_len] == prev_bytes[..] { b"1".to_vec() } else { b"0".to_vec() });
                        listing(b.clone(), mk, &mut out);
                        prev_len = b.len();
                        prev_bytes = b;
                    }
                    Err(e) => out.push(etext(&e)),
                }
            }
            _ => return Err("badop".into()),
        }
    }
    Ok(out)
}


// ------------------------------------------------------------------------------------------------
// the same history on a File opened through FileOptions and saved with File::save_to, next to a twin Storage saved with Storage::save

trait Doc {
    fn create_p(&mut self, v: Primitive) -> pdf::error::Result<PlainRef>;
    /// create(Nested { child: v }): (parent, child)
    fn create_n(&mut self, v: Primitive) -> pdf::error::Result<(PlainRef, PlainRef)>;
    fn create_m(&mut self, v: Primitive) -> pdf::error::Result<(PlainRef, PlainRef, PlainRef)>;
    fn update_p(&mut self, r: PlainRef, v: Primitive) -> pdf::error::Result<PlainRef>;
    fn promise_p(&mut self) -> PromisedRef<Primitive>;
    fn fulfill_p(&mut self, p: PromisedRef<Primitive>, v: Primitive) -> pdf::error::Result<PlainRef>;
    fn resolve_p(&self, r: PlainRef) -> pdf::error::Result<Primitive>;
    /// (result text, the bytes this save left behind: returned bytes / file content; None = nothing new)
    fn save_p(&mut self) -> (Vec<u8>, Option<Vec<u8>>);
}
struct Twin<OC, SC, L> { st: Storage<Vec<u8>, OC, SC, L>, trailer: Trailer }
impl<OC, SC, L> Doc for Twin<OC, SC, L>
where OC: Cache<pdf::error::Result<AnySync, Arc<PdfError>>>, SC: Cache<pdf::error::Result<Arc<[u8]>, Arc<PdfError>>>, L: Log
{
    fn create_p(&mut self, v: Primitive) -> pdf::error::Result<PlainRef> { self.st.create(v).map(|rc| rc.get_ref().get_inner()) }
    fn create_n(&mut self, v: Primitive) -> pdf::error::Result<(PlainRef, PlainRef)> {
        let rc = self.st.create(Nested { child: v, child_ref: std::sync::Mutex::new(None) })?;
        let c = rc.child_ref.lock().unwrap().expect("child");
        Ok((rc.get_ref().get_inner(), c))
    }
    fn create_m(&mut self, v: Primitive) -> pdf::error::Result<(PlainRef, PlainRef, PlainRef)> {
        let rc = self.st.create(Nested2 { child: v, refs: std::sync::Mutex::new(None) })?;
        let (m, c) = rc.refs.lock().unwrap().expect("children");
        Ok((rc.get_ref().get_inner(), m, c))
    }
    fn update_p(&mut self, r: PlainRef, v: Primitive) -> pdf::error::Result<PlainRef> { self.st.update(r, v).map(|rc| rc.get_ref().get_inner()) }
    fn promise_p(&mut self) -> PromisedRef<Primitive> { self.st.promise::<Primitive>() }
    fn fulfill_p(&mut self, p: PromisedRef<Primitive>, v: Primitive) -> pdf::error::Result<PlainRef> { self.st.fulfill(p, v).map(|rc| rc.get_ref().get_inner()) }
    fn resolve_p(&self, r: PlainRef) -> pdf::error::Result<Primitive> { self.st.resolver().resolve(r) }
    fn save_p(&mut self) -> (Vec<u8>, Option<Vec<u8>>) {
        match self.st.save(&mut self.trailer) { Ok(b) => (b"ok".to_vec(), Some(b.to_vec())), Err(e) => (etext(&e), None) }
    }
}
struct OnDisk<OC, SC, L> { file: pdf::file::File<Vec<u8>, OC, SC, L>, path: std::path::PathBuf }
impl<OC, SC, L> Doc for OnDisk<OC, SC, L>
where OC: Cache<pdf::error::Result<AnySync, Arc<PdfError>>>, SC: Cache<pdf::error::Result<Arc<[u8]>, Arc<PdfError>>>, L: Log
{
    fn create_p(&mut self, v: Primitive) -> pdf::error::Result<PlainRef> { self.file.create(v).map(|rc| rc.get_ref().get_inner()) }
    fn create_n(&mut self, v: Primitive) -> pdf::error::Result<(PlainRef, PlainRef)> {
        let rc = self.file.create(Nested { child: v, child_ref: std::sync::Mutex::new(None) })?;
        let c = rc.child_ref.lock().unwrap().expect("child");
        Ok((rc.get_ref().get_inner(), c))
    }
    fn create_m(&mut self, v: Primitive) -> pdf::error::Result<(PlainRef, PlainRef, PlainRef)> {
        let rc = self.file.create(Nested2 { child: v, refs: std::sync::Mutex::new(None) })?;
        let (m, c) = rc.refs.lock().unwrap().expect("children");
        Ok((rc.get_ref().get_inner(), m, c))
    }
    fn update_p(&mut self, r: PlainRef, v: Primitive) -> pdf::error::Result<PlainRef> { self.file.update(r, v).map(|rc| rc.get_ref().get_inner()) }
    fn promise_p(&mut self) -> PromisedRef<Primitive> { self.file.promise::<Primitive>() }
    fn fulfill_p(&mut self, p: PromisedRef<Primitive>, v: Primitive) -> pdf::error::Result<PlainRef> { self.file.fulfill(p, v).map(|rc| rc.get_ref().get_inner()) }
    fn resolve_p(&self, r: PlainRef) -> pdf::error::Result<Primitive> { self.file.resolver().resolve(r) }
    fn save_p(&mut self) -> (Vec<u8>, Option<Vec<u8>>) {
        let r = match self.file.save_to(&self.path) { Ok(()) => b"ok".to_vec(), Err(e) => etext(&e) };
        (r, std::fs::read(&self.path).ok())
    }
}
/// the write / save ops of a history (reads are skipped); one entry per `S`
fn run_doc<D: Doc>(d: &mut D, ops: &[u8]) -> std::result::Result<Vec<(Vec<u8>, Option<Vec<u8>>)>, String> {
    let mut handed: Vec<PlainRef> = vec![];
    let mut promises: Vec<(PlainRef, Option<PromisedRef<Primitive>>)> = vec![];
    let mut saves = vec![];
    for line in ops.split(|&c| c == b'\n') {
        if line.is_empty() { continue; }
        let toks: Vec<&[u8]> = if line.first() == Some(&b'C') || line.first() == Some(&b'N') || line.first() == Some(&b'M') { line.splitn(2, |&c| c == b' ').collect() } else { line.splitn(3, |&c| c == b' ').collect() };
        let val = |t: &[u8], d: &D, handed: &[PlainRef]| -> std::result::Result<Primitive, String> {
            if t.first() == Some(&b'@') { d.resolve_p(refd(&t[1..], handed).ok_or("badref")?).map_err(|e| ekind(&e)) }
            else { uncanon(t).ok_or_else(|| "badvalue".to_string()) }
        };
        // a failed write hands out nothing (as in storage_history)
        match toks[0] {
            b"C" => { let v = val(toks[1], d, &handed)?; if let Ok(r) = d.create_p(v) { handed.push(r); } }
            b"N" => { let v = val(toks[1], d, &handed)?; if let Ok((r, c)) = d.create_n(v) { handed.push(r); handed.push(c); } }
            b"M" => { let v = val(toks[1], d, &handed)?; if let Ok((r, m, c)) = d.create_m(v) { handed.push(r); handed.push(m); handed.push(c); } }
            b"U" => { let r = refd(toks[1], &handed).ok_or("badref")?; let v = val(toks[2], d, &handed)?; if let Ok(r) = d.update_p(r, v) { handed.push(r); } }
            b"P" => { let p = d.promise_p(); let r = p.get_inner(); handed.push(r); promises.push((r, Some(p))); }
            b"F" => {
                let r = refd(toks[1], &handed).ok_or("badref")?;
                let v = val(toks[2], d, &handed)?;
                let p = promises.iter_mut().find(|(q, p)| *q == r && p.is_some()).and_then(|(_, p)| p.take()).ok_or("nopromise")?;
                if let Ok(r) = d.fulfill_p(p, v) { handed.push(r); }
            }
            b"S" => saves.push(d.save_p()),
            b"R" | b"G" => {}
            _ => return Err("badop".into()),
        }
    }
    Ok(saves)
}
static TMP_N: std::sync::atomic::AtomicUsize = std::sync::atomic::AtomicUsize::new(0);
fn save_to_history<OC, SC, L>(f: &[Vec<u8>], opts: FileOptions<'static, OC, SC, L>, mk: &dyn Fn() -> (OC, SC, L)) -> R
where OC: Cache<pdf::error::Result<AnySync, Arc<PdfError>>>, SC: Cache<pdf::error::Result<Arc<[u8]>, Arc<PdfError>>>, L: Log
{
    let base = f[1].clone();
    let (oc, sc, l) = mk();
    let mut st = Storage::with_cache(base.clone(), ParseOptions::strict(), oc, sc, l).map_err(|e| ekind(&e))?;
    let td = st.load_storage_and_trailer().map_err(|e| ekind(&e))?;
    let trailer = Trailer::from_primitive(Primitive::Dictionary(td), &st.resolver()).map_err(|e| ekind(&e))?;
    let mut twin = Twin { st, trailer };
    let expected = run_doc(&mut twin, fld(f, 2))?;
    let file = opts.load(base.clone()).map_err(|e| format!("load:{}", ekind(&e)))?;
    let path = std::env::temp_dir().join(format!("pdfh_save_to_{}_{}.pdf", std::process::id(), TMP_N.fetch_add(1, std::sync::atomic::Ordering::SeqCst)));
    std::fs::write(&path, &base).map_err(|e| format!("tmp:{}", e))?;      // the previously saved revision
    let mut doc = OnDisk { file, path: path.clone() };
    let got = run_doc(&mut doc, fld(f, 2));
    let _ = std::fs::remove_file(&path);
    let got = got?;
    let mut out = vec![];
    let mut last_good = base;
    for ((r, disk), (tr, tb)) in got.into_iter().zip(expected.into_iter()) {
        if let Some(b) = tb { last_good = b; }
        out.push(r);
        out.push(tr);
        out.push(if disk.as_deref() == Some(&last_good[..]) { b"1".to_vec() } else { format!("0:{}", disk.map(|d| d.len() as i64).unwrap_or(-1)).into_bytes() });
    }
    Ok(out)
}

// ------------------------------------------------------------------------------------------------
// build: pages text + info text -> bytes, then the reloaded view
//   page line:  mb=<l,b,r,t|-> cb=… tb=… rot=<int> ops=<letters> other=<canon dict>
//   info line:  <Key>=<hex>   (Title Author Subject Keywords Creator Producer), `-` = no info dictionary
use pdf::build::{PageBuilder, CatalogBuilder, PdfBuilder};
use pdf::content::{Op, Point, Winding};

fn rect_of(t: &str) -> Option<Option<Rectangle>> {
    if t == "-" { return Some(None); }
    let v: Vec<f32> = t.split(',').map(|x| x.parse::<f32>().ok()).collect::<Option<_>>()?;
    if v.len() != 4 { return None; }
    Some(Some(Rectangle { left: v[0], bottom: v[1], right: v[2], top: v[3] }))
}
fn op_of(c: char) -> Option<Op> {
    Some(match c {
        'q' => Op::Save, 'Q' => Op::Restore, 'B' => Op::BeginText, 'E' => Op::EndText, 'S' => Op::Stroke,
        'f' => Op::Fill { winding: Winding::NonZero }, 'F' => Op::Fill { winding: Winding::EvenOdd },
        'n' => Op::EndPath, 'h' => Op::Close,
        'm' => Op::MoveTo { p: Point { x: 10., y: 20. } }, 'l' => Op::LineTo { p: Point { x: 30.5, y: 40. } },
        'M' => Op::MoveTo { p: Point { x: 0., y: -7.25 } }, 'w' => Op::LineWidth { width: 2.5 },
        // text positioning: serialize_ops folds Leading{l} + MoveTextPosition{(x, -l)} into `x -l TD` (and only that pair)
        'L' => Op::Leading { leading: 12. }, 'T' => Op::MoveTextPosition { translation: Point { x: 5., y: -12. } },
        'U' => Op::MoveTextPosition { translation: Point { x: 5., y: 12. } }, 'N' => Op::TextNewline,
        _ => return None })
}
fn op_letter(o: &Op) -> char {
    match o {
        Op::Save => 'q', Op::Restore => 'Q', Op::BeginText => 'B', Op::EndText => 'E', Op::Stroke => 'S',
        Op::Fill { winding: Winding::NonZero } => 'f', Op::Fill { winding: Winding::EvenOdd } => 'F',
        Op::EndPath => 'n', Op::Close => 'h',
        Op::MoveTo { p } if p.x == 10. && p.y == 20. => 'm', Op::LineTo { p } if p.x == 30.5 && p.y == 40. => 'l',
        Op::MoveTo { p } if p.x == 0. && p.y == -7.25 => 'M', Op::LineWidth { width } if *width == 2.5 => 'w',
        Op::Leading { leading } if *leading == 12. => 'L',
        Op::MoveTextPosition { translation } if translation.x == 5. && translation.y == -12. => 'T',
        Op::MoveTextPosition { translation } if translation.x == 5. && translation.y == 12. => 'U',
        Op::TextNewline => 'N',
        _ => '?' }
}
fn rect_text(r: &Option<Rectangle>) -> String {
    match r { None => "-".into(), Some(r) => format!("{},{},{},{}", r.left, r.bottom, r.right, r.top) }
}
fn info_of(t: &[u8]) -> Option<Option<InfoDict>> {
    if t == b"-" { return Some(None); }
    let mut i = InfoDict::default();
    for line in t.split(|&c| c == b'\n') {
        if line.is_empty() { continue; }
        let s = std::str::from_utf8(line).ok()?;
        let (k, v) = s.split_once('=')?;
        let mut b = vec![];
        for j in (0..v.len()).step_by(2) { b.push(u8::from_str_radix(&v[j..j + 2], 16).ok()?); }
        let ps = Some(PdfString::new(b.into()));
        match k { "Title" => i.title = ps, "Author" => i.author = ps, "Subject" => i.subject = ps, "Keywords" => i.keywords = ps,
                  "Creator" => i.creator = ps, "Producer" => i.producer = ps, _ => return None }
    }
    Some(Some(i))
}
fn info_text(i: &Option<InfoDict>) -> Vec<u8> {
    match i {
        None => b"-".to_vec(),
        Some(i) => {
            let mut out = String::new();
            for (k, v) in [("Title", &i.title), ("Author", &i.author), ("Subject", &i.subject), ("Keywords", &i.keywords), ("Creator", &i.creator), ("Producer", &i.producer)] {
                if let Some(s) = v { out.push_str(k); out.push('='); hexs(s.as_bytes(), &mut out); out.push('\n'); }
            }
            out.into_bytes()
        }
    }
}

fn build_bytes(f: &[Vec<u8>]) -> std::result::Result<Vec<u8>, String> {
    let mut pages = vec![];
    for line in fld(f, 1).split(|&c| c == b'\n') {
        if line.is_empty() { continue; }
        let s = std::str::from_utf8(line).map_err(|_| "badpage")?;
        let mut pb = PageBuilder::default();
        for part in s.splitn(6, ' ') {
            let (k, v) = part.split_once('=').ok_or("badpage")?;
            match k {
                "mb" => pb.media_box = rect_of(v).ok_or("badrect")?,
                "cb" => pb.crop_box = rect_of(v).ok_or("badrect")?,
                "tb" => pb.trim_box = rect_of(v).ok_or("badrect")?,
                "rot" => pb.rotate = v.parse().map_err(|_| "badrot")?,
                "ops" => pb.ops = if v == "-" { vec![] } else { v.chars().map(op_of).collect::<Option<_>>().ok_or("badop")? },
                "other" => pb.other = match uncanon(v.as_bytes()) { Some(Primitive::Dictionary(d)) => d, _ => return Err("badother".into()) },
                _ => return Err("badpage".into()),
            }
        }
        pages.push(pb);
    }
    let mut b = PdfBuilder::new(FileOptions::uncached());
    if let Some(i) = info_of(fld(f, 2)).ok_or("badinfo")? { b = b.info(i); }
    b.build(CatalogBuilder::from_pages(pages)).map_err(|e| ekind(&e))
}

fn view(bytes: Vec<u8>, cached: bool, out: &mut Vec<Vec<u8>>) -> std::result::Result<(), String> {
    macro_rules! go { ($file:expr) => {{
        let file = $file.map_err(|e| format!("load:{}", ekind(&e)))?;
        let r = file.resolver();
        out.push(format!("{}", file.num_pages()).into_bytes());
        for p in file.pages() {
            let p = p.map_err(|e| format!("page:{}", ekind(&e)))?;
            let ops = match &p.contents { Some(c) => c.operations(&r).map_err(|e| format!("ops:{}", ekind(&e)))?, None => vec![] };
            let letters: String = ops.iter().map(op_letter).collect();
            let mb = p.media_box().ok();
            let line = format!("mb={} cb={} tb={} rot={} ops={} other=", rect_text(&p.media_box), rect_text(&p.crop_box), rect_text(&p.trim_box),
                               p.rotate, if letters.is_empty() { "-".to_string() } else { letters });
            let _ = mb;
            let mut l = line.into_bytes();
            l.extend_from_slice(&canon(&Primitive::Dictionary(p.other.clone()), &r));
            out.push(l);
        }
        out.push(info_text(&file.trailer.info_dict));
        Ok(())
    }} }
    if cached { go!(FileOptions::cached().load(bytes)) } else { go!(FileOptions::uncached().load(bytes)) }
}

pub fn dispatch(mode: &str, f: &[Vec<u8>]) -> Option<R> {
    Some(match mode {
        "storage_history" => {
            if fld(f, 0).first() == Some(&b'c') {
                history(f, &|| { let o = FileOptions::cached(); let _ = &o; (pdf::file::SyncCache::new(), pdf::file::SyncCache::new(), NoLog) })
            } else {
                history(f, &|| (NoCache, NoCache, NoLog))
            }
        }
        "storage_save_to" => {
            if fld(f, 0).first() == Some(&b'c') {
                save_to_history(f, FileOptions::cached(), &|| (pdf::file::SyncCache::new(), pdf::file::SyncCache::new(), NoLog))
            } else {
                save_to_history(f, FileOptions::uncached(), &|| (NoCache, NoCache, NoLog))
            }
        }
        // the bytes after the last successful save of a history (for the validator and for probing)
        "storage_bytes" => {
            let mut st = match Storage::with_cache(f[1].clone(), ParseOptions::strict(), NoCache, NoCache, NoLog) { Ok(s) => s, Err(e) => return Some(Err(ekind(&e))) };
            let td = match st.load_storage_and_trailer() { Ok(t) => t, Err(e) => return Some(Err(ekind(&e))) };
            let mut trailer = match Trailer::from_primitive(Primitive::Dictionary(td), &st.resolver()) { Ok(t) => t, Err(e) => return Some(Err(ekind(&e))) };
            for line in fld(f, 2).split(|&c| c == b'\n') {
                let toks: Vec<&[u8]> = if line.first() == Some(&b'C') || line.first() == Some(&b'N') || line.first() == Some(&b'M') { line.splitn(2, |&c| c == b' ').collect() } else { line.splitn(3, |&c| c == b' ').collect() };
                match toks[0] {
                    b"C" => { let _ = st.create(uncanon(toks[1])?); }
                    b"U" => { let _ = st.update(refd(toks[1], &[])?, uncanon(toks[2])?); }
                    b"S" => { if let Err(e) = st.save(&mut trailer) { return Some(Err(ekind(&e))); } }
                    _ => {}
                }
            }
            Ok(vec![st.into_inner()])
        }
        // the bytes PdfBuilder::build produces (compared byte for byte with the builder model, Storage/Builder.v)
        "build_bytes" => build_bytes(f).map(|b| vec![b]),
        "build" => {
            let bytes = match build_bytes(f) { Ok(b) => b, Err(e) => return Some(Err(e)) };
            let mut out = vec![bytes.clone()];
            if let Err(e) = view(bytes, fld(f, 0).first() == Some(&b'c'), &mut out) { return Some(Err(e)); }
            Ok(out)
        }
        // does the library itself accept these bytes as a document (every page reachable)?  "0" = yes
        "accepts" => {
            let mut out = vec![];
            match view(f[0].clone(), false, &mut out) { Ok(()) => Ok(vec![b"0".to_vec()]), Err(e) => Err(e) }
        }
        _ => return None,
    })
}
