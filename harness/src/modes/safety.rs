//! C01 / C14 exploration: walk the whole public read interface of a document, one case per child process.
//!
//! mode `walk`      opts(s|t) cache(c|n) file [extra-budget-bytes]
//!     parent side: re-executes this binary under `prlimit` (8 MiB stack, 4 GiB address space, CPU limit),
//!     feeds it ONE line `walkchild <opts> <cache> <hexfile>`, reads the transcript, classifies the outcome.
//!     result fields: status | stats | detail (one `site@call` per line) | call histogram (`kind ok err panic` per line)
//! mode `walkchild` opts cache file
//!     child side: opens the file and calls everything, each call under catch_unwind, printing
//!     `> name` before and `< OK` | `< ERR kind` | `< PANIC file:line msg` after every call.
use crate::util::*;
use crate::R;
use pdf::content::{Content, FormXObject, Op};
use pdf::error::PdfError;
use pdf::file::{File, FileOptions, NoCache, NoLog, ScanItem, Storage, SyncCache};
use pdf::font::Font;
use pdf::object::*;
use pdf::primitive::{Dictionary, Primitive};
use std::collections::{BTreeMap, HashSet};
use std::io::{Read, Write};
use std::panic::{self, AssertUnwindSafe};
use std::process::{Command, Stdio};
use std::sync::mpsc;
use std::sync::Mutex;
use std::time::{Duration, Instant};

pub fn dispatch(mode: &str, f: &[Vec<u8>]) -> Option<R> {
    Some(match mode {
        "walk" => walk_parent(f),
        "walkchild" => walk_child(f),
        _ => return None,
    })
}

// =================================================================================================
// child side

static LAST: Mutex<String> = Mutex::new(String::new());
const MAX_CALLS: usize = 60_000;
const MAX_PAGES: u32 = 64;
const MAX_OBJECTS: u64 = 4096;
const MAX_SCAN: usize = 10_000;
const MAX_OUTLINE: usize = 256;
const MAX_DEPTH: usize = 4;

/// `/abs/…/pdf/src/font.rs` -> `pdf/src/font.rs`; registry crates -> `<crate-ver>/src/…`; std -> `library/…`
fn short_loc(file: &str) -> String {
    for key in ["/pdf/src/", "/pdf_derive/src/"] {
        if let Some(i) = file.rfind(key) { return file[i + 1..].to_string(); }
    }
    if let Some(i) = file.find("/registry/src/") {
        let rest = &file[i + "/registry/src/".len()..];
        if let Some(j) = rest.find('/') { return rest[j + 1..].to_string(); }
    }
    if let Some(rest) = file.strip_prefix("/rustc/") {
        if let Some(j) = rest.find('/') { return rest[j + 1..].to_string(); }
    }
    if let Some(i) = file.find("/harness/src/") { return file[i + 1..].to_string(); }
    file.to_string()
}

fn say(s: &str) {
    let out = std::io::stdout();
    let mut o = out.lock();
    let _ = o.write_all(s.as_bytes());
    let _ = o.write_all(b"\n");
    let _ = o.flush();
}

struct Ctx {
    calls: usize,
    seen: HashSet<(u8, u64)>,
    stop: bool,
}

impl Ctx {
    fn new() -> Ctx { Ctx { calls: 0, seen: HashSet::new(), stop: false } }
    /// true the first time a (kind, object) pair is seen
    fn first(&mut self, kind: u8, r: PlainRef) -> bool { self.seen.insert((kind, r.id)) }

    /// one observed call
    fn call<T>(&mut self, name: &str, f: impl FnOnce() -> Result<T, PdfError>) -> Option<T> {
        if self.stop { return None; }
        self.calls += 1;
        if self.calls > MAX_CALLS {
            self.stop = true;
            say("= BUDGET");
            return None;
        }
        say(&format!("> {}", name));
        match panic::catch_unwind(AssertUnwindSafe(f)) {
            Ok(Ok(v)) => { say("< OK"); Some(v) }
            Ok(Err(e)) => { say(&format!("< ERR {}", ekind(&e))); None }
            Err(_) => {
                let g = LAST.lock().map(|g| g.clone()).unwrap_or_else(|e| e.into_inner().clone());
                say(&format!("< PANIC {}", g));
                None
            }
        }
    }
    /// a call whose API has no error channel
    fn plain<T>(&mut self, name: &str, f: impl FnOnce() -> T) -> Option<T> { self.call(name, || Ok(f())) }
}

fn opts_of(b: &[u8]) -> ParseOptions {
    if b.first() == Some(&b't') { ParseOptions::tolerant() } else { ParseOptions::strict() }
}

fn walk_child(f: &[Vec<u8>]) -> R {
    panic::set_hook(Box::new(|info| {
        let loc = info.location().map(|l| format!("{}:{}", short_loc(l.file()), l.line())).unwrap_or_else(|| "?:0".into());
        let msg = if let Some(s) = info.payload().downcast_ref::<&str>() { s.to_string() }
                  else if let Some(s) = info.payload().downcast_ref::<String>() { s.clone() } else { String::new() };
        let line = format!("{} {}", loc, msg.replace(['\n', '\r'], " ").chars().take(100).collect::<String>());
        match LAST.lock() { Ok(mut g) => *g = line, Err(e) => *e.into_inner() = line }
    }));
    let tolerant = fld(f, 0).first() == Some(&b't');
    let cached = fld(f, 1).first() == Some(&b'c');
    let data = f.get(2).cloned().unwrap_or_default();
    let mut cx = Ctx::new();
    let popts = move || if tolerant { ParseOptions::tolerant() } else { ParseOptions::strict() };
    let loaded = if cached {
        let d = data.clone();
        match cx.call("load", move || FileOptions::cached().parse_options(popts()).load(d)) {
            Some(file) => { walk_file(&mut cx, &file); true }
            None => false,
        }
    } else {
        let d = data.clone();
        match cx.call("load", move || FileOptions::uncached().parse_options(popts()).load(d)) {
            Some(file) => { walk_file(&mut cx, &file); true }
            None => false,
        }
    };
    if !loaded {
        // no typed trailer / catalog: everything that does not need one
        if cached {
            let d = data.clone();
            if let Some(mut st) = cx.call("storage.new", move || Storage::with_cache(d, popts(), SyncCache::new(), SyncCache::new(), NoLog)) {
                walk_storage(&mut cx, &mut st);
            }
        } else {
            let d = data.clone();
            if let Some(mut st) = cx.call("storage.new", move || Storage::with_cache(d, popts(), NoCache, NoCache, NoLog)) {
                walk_storage(&mut cx, &mut st);
            }
        }
    }
    say(&format!("= DONE calls={}", cx.calls));
    let _ = opts_of;
    Ok(vec![])
}

fn walk_storage<OC, SC>(cx: &mut Ctx, st: &mut Storage<Vec<u8>, OC, SC, NoLog>)
where
    OC: pdf::file::Cache<Result<pdf::any::AnySync, std::sync::Arc<PdfError>>>,
    SC: pdf::file::Cache<Result<std::sync::Arc<[u8]>, std::sync::Arc<PdfError>>>,
{
    let trailer = cx.call("storage.load_trailer", || st.load_storage_and_trailer());
    let size = trailer.as_ref().and_then(|t| t.get("Size")).and_then(|p| p.as_integer().ok()).unwrap_or(0);
    {
        let r = st.resolver();
        if let Some(t) = trailer.as_ref() {
            if let Some(Primitive::Reference(root)) = t.get("Root") {
                let root = *root;
                cx.call("storage.root", || r.resolve(root));
            }
        }
        walk_objects(cx, &r, size);
    }
    walk_scan(cx, "storage.scan", || st.scan());
}

fn walk_file<OC, SC>(cx: &mut Ctx, file: &File<Vec<u8>, OC, SC, NoLog>)
where
    OC: pdf::file::Cache<Result<pdf::any::AnySync, std::sync::Arc<PdfError>>>,
    SC: pdf::file::Cache<Result<std::sync::Arc<[u8]>, std::sync::Arc<PdfError>>>,
{
    let r = file.resolver();
    // ---- trailer
    cx.plain("trailer", || {
        let t = &file.trailer;
        let _ = (t.size, t.prev_trailer_pos, t.id.len(), t.encrypt_dict.is_some());
        if let Some(i) = t.info_dict.as_ref() {
            let _ = (i.title.as_ref().map(|s| s.to_string_lossy()), i.author.as_ref().map(|s| s.to_string_lossy()),
                     i.creation_date.is_some(), i.mod_date.is_some());
        }
    });
    cx.call("version", || file.version());
    // ---- pages
    let n = cx.plain("num_pages", || file.num_pages()).unwrap_or(0);
    let mut idx: Vec<u32> = (0..n.min(MAX_PAGES)).collect();
    for extra in [n.wrapping_sub(2), n.wrapping_sub(1), n, n.wrapping_add(1), u32::MAX / 2, u32::MAX - 1, u32::MAX] {
        if !idx.contains(&extra) { idx.push(extra); }
    }
    for i in idx {
        if let Some(page) = cx.call(&format!("page[{}].get_page", i), || file.get_page(i)) {
            walk_page(cx, &r, &page, &format!("page[{}]", i));
        }
    }
    if let Some(mut it) = cx.plain("pages", || file.pages()) {
        for i in 0..(MAX_PAGES + 4) {
            let mut end = false;
            cx.call(&format!("pages[{}].next", i), || match it.next() { None => { end = true; Ok(()) } Some(Ok(_)) => Ok(()), Some(Err(e)) => Err(e) });
            if end || cx.stop { break; }
        }
    }
    // ---- catalog
    let cat = file.get_root();
    cx.plain("catalog", || { let _ = (cat.version.as_ref().map(|n| n.as_str().len()), cat.pages.count, cat.pages.kids.len()); });
    if let Some(res) = cat.pages.resources.as_ref() {
        walk_resources(cx, &r, res, "catalog.pages.res", MAX_DEPTH);
    }
    if let Some(names) = cat.names.as_ref() {
        let nd: &NameDictionary = names;
        macro_rules! tree { ($field:ident) => {
            if let Some(t) = nd.$field.as_ref() {
                let mut k = 0usize;
                cx.call(concat!("names.", stringify!($field), ".nametree.walk"), || t.walk(&r, &mut |_n, _v| { k += 1; }));
            }
        } }
        tree!(pages); tree!(ap); tree!(javascript); tree!(templates); tree!(ids); tree!(urls);
        if let Some(t) = nd.dests.as_ref() {
            let mut pages = vec![];
            cx.call("names.dests.nametree.walk", || t.walk(&r, &mut |_n, v| { if let Some(d) = v { if let Some(p) = d.page { pages.push(p); } } }));
            for (i, p) in pages.into_iter().take(8).enumerate() {
                cx.call(&format!("names.dests[{}].page", i), || r.get(p).map(|_| ()));
            }
        }
        if let Some(t) = nd.embedded_files.as_ref() {
            let mut specs: Vec<FileSpec> = vec![];
            cx.call("names.embedded_files.nametree.walk", || t.walk(&r, &mut |_n, v| { specs.push(v.clone()); }));
            for (i, s) in specs.into_iter().take(16).enumerate() {
                if let Some(ef) = s.ef.as_ref() {
                    for (k, rf) in [("f", ef.f), ("uf", ef.uf), ("dos", ef.dos), ("mac", ef.mac), ("unix", ef.unix)] {
                        if let Some(rf) = rf {
                            if let Some(s) = cx.call(&format!("names.embedded_files[{}].{}.get", i, k), || r.get(rf)) {
                                cx.call(&format!("names.embedded_files[{}].{}.data", i, k), || (*s).data(&r).map(|d| d.len()));
                            }
                        }
                    }
                }
            }
        }
    }
    if let Some(d) = cat.dests.as_ref() {
        let d: &Dictionary = d;
        let vals: Vec<Primitive> = d.iter().map(|(_, v)| v.clone()).take(32).collect();
        for (i, v) in vals.into_iter().enumerate() {
            cx.call(&format!("dests[{}].from_primitive", i), || Option::<Dest>::from_primitive(v, &r).map(|_| ()));
        }
    }
    if let Some(t) = cat.page_labels.as_ref() {
        let mut k = 0usize;
        cx.call("page_labels.numtree.walk", || t.walk(&r, &mut |_i, l| { let _ = (&l.style, &l.prefix, l.start); k += 1; }));
    }
    if let Some(o) = cat.outlines.as_ref() {
        let mut steps = 0usize;
        let mut stack: Vec<(Ref<OutlineItem>, usize)> = vec![];
        if let Some(f) = o.first { stack.push((f, 0)); }
        if let Some(l) = o.last { stack.push((l, 0)); }
        while let Some((rf, depth)) = stack.pop() {
            if steps >= MAX_OUTLINE || cx.stop { break; }
            if !cx.first(b'O', rf.get_inner()) { continue; }
            steps += 1;
            if let Some(item) = cx.call(&format!("outline[{}].get", steps), || r.get(rf)) {
                cx.plain(&format!("outline[{}].fields", steps), || {
                    let _ = (item.title.as_ref().map(|t| t.to_string_lossy()), item.count, item.flags, item.color.as_ref().map(|c| c.len()));
                });
                if let Some(d) = item.dest.clone() {
                    cx.call(&format!("outline[{}].dest", steps), || MaybeNamedDest::from_primitive(d, &r).map(|_| ()));
                }
                if let Some(nx) = item.next { stack.push((nx, depth)); }
                if let Some(pv) = item.prev { if steps < 32 { stack.push((pv, depth)); } }
                if depth < 8 { if let Some(fi) = item.first { stack.push((fi, depth + 1)); } }
            }
        }
    }
    if let Some(forms) = cat.forms.as_ref() {
        cx.plain("forms", || { let _ = (forms.fields.len(), forms.sig_flags, forms.q, forms.da.as_ref().map(|s| s.to_string_lossy())); });
        if let Some(dr) = forms.dr.as_ref() { walk_resources(cx, &r, dr, "forms.dr", 2); }
        let mut todo: Vec<Ref<FieldDictionary>> = vec![];
        for f in forms.fields.iter().take(64) { todo.extend(f.kids.iter().cloned()); if let Some(p) = f.parent { todo.push(p); } }
        let mut k = 0;
        while let Some(rf) = todo.pop() {
            if k >= 128 || cx.stop { break; }
            k += 1;
            if let Some(fd) = cx.call(&format!("forms.field[{}].get", k), || r.get(rf)) {
                todo.extend(fd.kids.iter().cloned());
            }
        }
    }
    if let Some(m) = cat.metadata {
        if let Some(s) = cx.call("catalog.metadata.get", || r.get(m)) {
            cx.call("catalog.metadata.data", || (*s).data(&r).map(|d| d.len()));
        }
    }
    if let Some(st) = cat.struct_tree_root.as_ref() {
        let kids: Vec<_> = st.children.iter().take(32).map(|c| (c.parent, c.page)).collect();
        for (i, (p, pg)) in kids.into_iter().enumerate() {
            cx.call(&format!("struct[{}].parent", i), || r.get(p).map(|_| ()));
            if let Some(pg) = pg { cx.call(&format!("struct[{}].page", i), || r.get(pg).map(|_| ())); }
        }
    }
    // ---- every object number
    walk_objects(cx, &r, file.trailer.size);
    // ---- recovery scan
    walk_scan(cx, "scan", || file.scan());
}

fn walk_scan<I: Iterator<Item = Result<ScanItem, PdfError>>>(cx: &mut Ctx, name: &str, mk: impl FnOnce() -> I) {
    if let Some(mut it) = cx.plain(name, mk) {
        for i in 0..MAX_SCAN {
            let mut end = false;
            cx.call(&format!("{}.next[{}]", name, i), || match it.next() { None => { end = true; Ok(()) } Some(Ok(_)) => Ok(()), Some(Err(e)) => Err(e) });
            if end || cx.stop { break; }
        }
    }
}

fn walk_objects(cx: &mut Ctx, r: &impl Resolve, size: i32) {
    let n = ((size.max(0) as u64) + 2).min(MAX_OBJECTS);
    for id in 0..n {
        if cx.stop { return; }
        let pr = PlainRef { id, gen: 0 };
        let p = match cx.call(&format!("obj[{}].resolve", id), || r.resolve(pr)) { Some(p) => p, None => continue };
        match p {
            Primitive::Stream(ref s) => {
                cx.call(&format!("obj[{}].stream.raw_data", id), || s.raw_data(r).map(|d| d.len()));
                let p2 = p.clone();
                if let Some(st) = cx.call(&format!("obj[{}].stream.from_primitive", id), || Stream::<()>::from_primitive(p2, r)) {
                    cx.call(&format!("obj[{}].stream.data", id), || st.data(r).map(|d| d.len()));
                }
                typed_by_key(cx, r, id, &s.info, &p);
            }
            Primitive::Dictionary(ref d) => typed_by_key(cx, r, id, d, &p),
            Primitive::Array(ref a) => {
                if let Some(Primitive::Name(n)) = a.first() {
                    if ["Indexed", "Separation", "DeviceN", "ICCBased", "CalRGB", "CalGray", "Lab", "Pattern"].contains(&n.as_str()) {
                        let p2 = p.clone();
                        if let Some(cs) = cx.call(&format!("obj[{}].as.colorspace", id), || ColorSpace::from_primitive(p2, r)) {
                            walk_cs(cx, r, &cs, &format!("obj[{}].as.colorspace", id), 3);
                        }
                    }
                }
            }
            _ => {}
        }
    }
}

/// load an object as the type its own /Type, /Subtype or /FunctionType announces (reaches typed loading also where
/// a mutation cut the link from the page tree)
fn typed_by_key(cx: &mut Ctx, r: &impl Resolve, id: u64, d: &Dictionary, p: &Primitive) {
    let ty = d.get("Type").and_then(|t| t.as_name().ok()).unwrap_or("").to_string();
    let sub = d.get("Subtype").and_then(|t| t.as_name().ok()).unwrap_or("").to_string();
    let me = PlainRef { id, gen: 0 };
    let pfx = format!("obj[{}].as", id);
    if ty == "Font" || ["Type0", "Type1", "TrueType", "CIDFontType0", "CIDFontType2", "MMType1", "Type3"].contains(&sub.as_str()) {
        if cx.first(b'F', me) {
            let p2 = p.clone();
            if let Some(f) = cx.call(&format!("{}.font", pfx), || Font::from_primitive(p2, r)) { walk_font(cx, r, &f, &format!("{}.font", pfx)); }
        }
    } else if sub == "Image" || sub == "Form" || sub == "PS" {
        if cx.first(b'X', me) {
            let p2 = p.clone();
            if let Some(x) = cx.call(&format!("{}.xobject", pfx), || XObject::from_primitive(p2, r)) { walk_xobject(cx, r, &x, &format!("{}.xobject", pfx), 2); }
        }
    } else if d.get("FunctionType").is_some() {
        let p2 = p.clone();
        if let Some(f) = cx.call(&format!("{}.function", pfx), || Function::from_primitive(p2, r)) { walk_function(cx, &f, &format!("{}.function", pfx)); }
    } else if ty == "Pages" || ty == "Page" {
        let p2 = p.clone();
        cx.call(&format!("{}.pagesnode", pfx), || PagesNode::from_primitive(p2, r).map(|_| ()));
    } else if ty == "ObjStm" {
        let p2 = p.clone();
        if let Some(os) = cx.call(&format!("{}.objstm", pfx), || ObjectStream::from_primitive(p2, r)) {
            let n = os.n_objects();
            for i in (0..n.min(16)).chain([n, usize::MAX]) {
                cx.call(&format!("{}.objstm.slice[{}]", pfx, i), || os.get_object_slice(i, r).map(|(d, rg)| d.get(rg).map(|s| s.len())));
            }
        }
    } else if ty == "ExtGState" {
        let p2 = p.clone();
        cx.call(&format!("{}.extgstate", pfx), || GraphicsStateParameters::from_primitive(p2, r).map(|_| ()));
    } else if ty == "Annot" {
        let p2 = p.clone();
        if let Some(a) = cx.call(&format!("{}.annot", pfx), || Annot::from_primitive(p2, r)) {
            // the page the annotation names (/P): read something through the handle
            if let Some(pg) = a.page.as_ref() {
                cx.plain(&format!("{}.annot.page", pfx), || { let _ = (pg.media_box, pg.parent.count, pg.rotate, pg.other.len()); });
            }
        }
    } else if ty == "Encoding" {
        let p2 = p.clone();
        cx.call(&format!("{}.encoding", pfx), || pdf::encoding::Encoding::from_primitive(p2, r).map(|_| ()));
    } else if ty == "Outlines" {
        let p2 = p.clone();
        cx.call(&format!("{}.outlines", pfx), || Outlines::from_primitive(p2, r).map(|_| ()));
    } else if ty == "FontDescriptor" {
        let p2 = p.clone();
        if let Some(fd) = cx.call(&format!("{}.fontdescriptor", pfx), || pdf::font::FontDescriptor::from_primitive(p2, r)) {
            cx.call(&format!("{}.fontdescriptor.data", pfx), || fd.data(r).transpose().map(|d| d.map(|d| d.len())));
        }
    } else if ty == "Pattern" || d.get("PatternType").is_some() {
        let p2 = p.clone();
        cx.call(&format!("{}.pattern", pfx), || Pattern::from_primitive(p2, r).map(|_| ()));
    } else if ty == "Catalog" {
        let p2 = p.clone();
        cx.call(&format!("{}.catalog", pfx), || Catalog::from_primitive(p2, r).map(|_| ()));
    } else if d.get("Kids").is_some() && (d.get("Limits").is_some() || d.get("Names").is_some()) || d.get("Names").is_some() && ty.is_empty() {
        let p2 = p.clone();
        if let Some(t) = cx.call(&format!("{}.nametree", pfx), || NameTree::<Primitive>::from_primitive(p2, r)) {
            cx.call(&format!("{}.nametree.walk", pfx), || t.walk(r, &mut |_, _| {}));
        }
    } else if d.get("Nums").is_some() {
        let p2 = p.clone();
        if let Some(t) = cx.call(&format!("{}.numtree", pfx), || NumberTree::<Primitive>::from_primitive(p2, r)) {
            cx.call(&format!("{}.numtree.walk", pfx), || t.walk(r, &mut |_, _| {}));
        }
    }
}

fn walk_page(cx: &mut Ctx, r: &impl Resolve, page: &PageRc, pfx: &str) {
    cx.call(&format!("{}.media_box", pfx), || page.media_box());
    cx.call(&format!("{}.crop_box", pfx), || page.crop_box());
    cx.plain(&format!("{}.fields", pfx), || { let _ = (page.rotate, page.trim_box, page.other.len(), page.parent.count); });
    let key = page.get_ref().get_inner();
    let fresh = cx.first(b'P', key);
    if let Some(res) = cx.call(&format!("{}.resources", pfx), || page.resources().map(|r| r.clone())) {
        if fresh { walk_resources(cx, r, &res, &format!("{}.res", pfx), MAX_DEPTH); }
    }
    if !fresh { return; }
    if let Some(c) = page.contents.as_ref() {
        walk_content(cx, r, c, &format!("{}.contents", pfx));
    }
    if let Some(annots) = cx.call(&format!("{}.annots.load", pfx), || page.annotations.load(r)) {
        for (i, a) in annots.iter().take(32).enumerate() {
            let apfx = format!("{}.annot[{}]", pfx, i);
            cx.plain(&format!("{}.fields", apfx), || { let _ = (a.subtype.as_str().len(), a.rect, a.annot_flags, a.contents.as_ref().map(|s| s.to_string_lossy())); });
            // the page the annotation names (/P): the handle is dereferenced (media box, parent, rotation read through it);
            // `.own` is reported when it is the page the annotation was found on
            if let Some(pg) = a.page.as_ref() {
                cx.plain(&format!("{}.page", apfx), || { let _ = (pg.media_box, pg.parent.count, pg.rotate, pg.other.len()); });
                if pg.get_ref().get_inner() == key { cx.plain(&format!("{}.page.own", apfx), || ()); }
            }
            if let Some(ap) = a.appearance_streams.as_ref() {
                for (k, e) in [("n", Some(ap.normal)), ("r", ap.rollover), ("d", ap.down)] {
                    if let Some(e) = e {
                        if let Some(entry) = cx.call(&format!("{}.ap.{}.get", apfx, k), || r.get(e)) {
                            walk_ap(cx, r, &entry, &format!("{}.ap.{}", apfx, k), 2);
                        }
                    }
                }
            }
        }
    }
}

fn walk_ap(cx: &mut Ctx, r: &impl Resolve, e: &AppearanceStreamEntry, pfx: &str, depth: usize) {
    match e {
        AppearanceStreamEntry::Single(form) => walk_form(cx, r, form, &format!("{}.form", pfx), depth),
        AppearanceStreamEntry::Dict(d) => {
            if depth == 0 { return; }
            for (i, (_, v)) in d.iter().take(8).enumerate() { walk_ap(cx, r, v, &format!("{}.sub[{}]", pfx, i), depth - 1); }
        }
    }
}

fn walk_content(cx: &mut Ctx, r: &impl Resolve, c: &Content, pfx: &str) {
    if let Some(ops) = cx.call(&format!("{}.operations", pfx), || c.operations(r)) {
        walk_ops(cx, r, &ops, pfx);
    }
}

fn walk_ops(cx: &mut Ctx, r: &impl Resolve, ops: &[Op], pfx: &str) {
    let mut k = 0;
    for op in ops {
        if let Op::InlineImage { image } = op {
            if k >= 8 { break; }
            walk_image(cx, r, image, &format!("{}.inline[{}]", pfx, k));
            k += 1;
        }
    }
}

fn walk_form(cx: &mut Ctx, r: &impl Resolve, form: &FormXObject, pfx: &str, depth: usize) {
    cx.plain(&format!("{}.dict", pfx), || { let d = form.dict(); let _ = (d.form_type, d.bbox, d.name.as_ref().map(|n| n.as_str().len())); });
    if let Some(ops) = cx.call(&format!("{}.operations", pfx), || form.operations(r)) {
        walk_ops(cx, r, &ops, pfx);
    }
    if depth > 0 {
        if let Some(res) = form.dict().resources.as_ref() {
            walk_resources(cx, r, res, &format!("{}.res", pfx), depth - 1);
        }
    }
}

fn walk_image(cx: &mut Ctx, r: &impl Resolve, img: &ImageXObject, pfx: &str) {
    cx.plain(&format!("{}.dict", pfx), || { let _ = (img.width, img.height, img.bits_per_component, img.image_mask, img.decode.as_ref().map(|d| d.len())); });
    cx.call(&format!("{}.raw_image_data", pfx), || img.raw_image_data(r).map(|(d, _)| d.len()));
    cx.call(&format!("{}.image_data", pfx), || img.image_data(r).map(|d| d.len()));
    if let Some(cs) = img.color_space.as_ref() { walk_cs(cx, r, cs, &format!("{}.cs", pfx), 3); }
    if let Some(sm) = img.smask {
        if let Some(s) = cx.call(&format!("{}.smask.get", pfx), || r.get(sm)) {
            cx.call(&format!("{}.smask.data", pfx), || (*s).data(r).map(|d| d.len()));
        }
    }
}

fn walk_xobject(cx: &mut Ctx, r: &impl Resolve, x: &XObject, pfx: &str, depth: usize) {
    match x {
        XObject::Image(img) => walk_image(cx, r, img, &format!("{}.image", pfx)),
        XObject::Form(form) => walk_form(cx, r, form, &format!("{}.form", pfx), depth),
        XObject::Postscript(ps) => { cx.call(&format!("{}.ps.data", pfx), || ps.data(r).map(|d| d.len())); }
    }
}

fn walk_function(cx: &mut Ctx, f: &Function, pfx: &str) {
    let idim = cx.plain(&format!("{}.input_dim", pfx), || f.input_dim());
    let odim = cx.plain(&format!("{}.output_dim", pfx), || f.output_dim());
    let n_out = match f { Function::Interpolated(parts) => parts.len(), _ => odim.unwrap_or(1) }.min(64);
    let mut inputs: Vec<Vec<f32>> = vec![vec![0.0], vec![0.5], vec![1.0], vec![-1.0], vec![2.0]];
    if let Some(d) = idim { if d >= 2 && d <= 8 { inputs.push(vec![0.5; d]); inputs.push(vec![0.0; d]); inputs.push(vec![1.0; d]); } }
    for (i, x) in inputs.iter().enumerate() {
        let mut out = vec![0.0f32; n_out];
        cx.call(&format!("{}.apply[{}]", pfx, i), || f.apply(x, &mut out));
    }
}

fn walk_cs(cx: &mut Ctx, r: &impl Resolve, cs: &ColorSpace, pfx: &str, depth: usize) {
    match cs {
        ColorSpace::Separation(_, alt, f) => {
            walk_function(cx, f, &format!("{}.function", pfx));
            if depth > 0 { walk_cs(cx, r, alt, &format!("{}.alt", pfx), depth - 1); }
        }
        ColorSpace::DeviceN { alt, tint, .. } => {
            walk_function(cx, tint, &format!("{}.function", pfx));
            if depth > 0 { walk_cs(cx, r, alt, &format!("{}.alt", pfx), depth - 1); }
        }
        ColorSpace::Indexed(base, hival, lookup) => {
            cx.plain(&format!("{}.indexed", pfx), || { let _ = (*hival, lookup.len()); });
            if depth > 0 { walk_cs(cx, r, base, &format!("{}.base", pfx), depth - 1); }
        }
        ColorSpace::Icc(s) => {
            cx.call(&format!("{}.icc.data", pfx), || (**s).data(r).map(|d| d.len()));
            cx.plain(&format!("{}.icc.info", pfx), || { let _ = (s.info.components, s.info.range.as_ref().map(|v| v.len())); });
            if let Some(m) = s.info.metadata.as_ref() { cx.call(&format!("{}.icc.metadata.data", pfx), || m.data(r).map(|d| d.len())); }
            if depth > 0 { if let Some(a) = s.info.alternate.as_ref() { walk_cs(cx, r, a, &format!("{}.alt", pfx), depth - 1); } }
        }
        _ => {}
    }
}

fn walk_font(cx: &mut Ctx, r: &impl Resolve, f: &Font, pfx: &str) {
    if let Some(Some(w)) = cx.call(&format!("{}.widths", pfx), || f.widths(r)) {
        cx.plain(&format!("{}.widths.get", pfx), || { for c in [0usize, 1, 32, 65, 255, 256, 65535, 65536, usize::MAX] { let _ = w.get(c); } });
    }
    if let Some(Some(m)) = cx.call(&format!("{}.to_unicode", pfx), || f.to_unicode(r).transpose()) {
        cx.plain(&format!("{}.to_unicode.get", pfx), || { let _ = (m.len(), m.get(0), m.get(65), m.get(65535), m.iter().count()); });
    }
    cx.call(&format!("{}.embedded_data", pfx), || f.embedded_data(r).transpose().map(|d| d.map(|d| d.len())));
    cx.plain(&format!("{}.encoding", pfx), || f.encoding().map(|e| (e.differences.len(), e.base.clone())));
    cx.plain(&format!("{}.cid_to_gid_map", pfx), || f.cid_to_gid_map().map(|m| match m { pdf::font::CidToGidMap::Identity => 0, pdf::font::CidToGidMap::Table(t) => t.len() }));
    cx.plain(&format!("{}.info", pfx), || { let _ = (f.is_cid(), f.info().map(|i| (i.first_char, i.last_char)), f.name.as_ref().map(|n| n.as_str().len())); });
}

fn walk_resources(cx: &mut Ctx, r: &impl Resolve, res: &MaybeRef<Resources>, pfx: &str, depth: usize) {
    if let Some(rf) = res.as_ref() {
        if !cx.first(b'R', rf.get_inner()) { return; }
    }
    let res: &Resources = res;
    // fonts
    let mut fonts: Vec<_> = res.fonts.iter().collect();
    fonts.sort_by(|a, b| a.0.as_str().cmp(b.0.as_str()));
    for (name, lazy) in fonts.into_iter().take(32) {
        let fp = format!("{}.font[{}]", pfx, name.as_str());
        if let Some(font) = cx.call(&format!("{}.load", fp), || lazy.load(r)) {
            let fresh = match font.as_ref() { Some(rf) => cx.first(b'F', rf.get_inner()), None => true };
            if fresh { walk_font(cx, r, &font, &fp); }
        }
    }
    // xobjects
    let mut xs: Vec<_> = res.xobjects.iter().collect();
    xs.sort_by(|a, b| a.0.as_str().cmp(b.0.as_str()));
    for (name, rf) in xs.into_iter().take(32) {
        let xp = format!("{}.xobject[{}]", pfx, name.as_str());
        let rf = *rf;
        if !cx.first(b'X', rf.get_inner()) { continue; }
        if let Some(x) = cx.call(&format!("{}.get", xp), || r.get(rf)) {
            walk_xobject(cx, r, &x, &xp, depth);
        }
    }
    // colour spaces
    let mut css: Vec<_> = res.color_spaces.iter().collect();
    css.sort_by(|a, b| a.0.as_str().cmp(b.0.as_str()));
    for (name, cs) in css.into_iter().take(32) {
        walk_cs(cx, r, cs, &format!("{}.cs[{}]", pfx, name.as_str()), 3);
    }
    // patterns
    let mut ps: Vec<_> = res.pattern.iter().collect();
    ps.sort_by(|a, b| a.0.as_str().cmp(b.0.as_str()));
    for (name, rf) in ps.into_iter().take(16) {
        let pp = format!("{}.pattern[{}]", pfx, name.as_str());
        let rf = *rf;
        if !cx.first(b'T', rf.get_inner()) { continue; }
        if let Some(p) = cx.call(&format!("{}.get", pp), || r.get(rf)) {
            let rr = p.dict().resources;
            cx.plain(&format!("{}.dict", pp), || { let d = p.dict(); let _ = (d.paint_type, d.tiling_type, d.bbox, d.x_step, d.y_step); });
            if depth > 0 {
                if let Some(sub) = cx.call(&format!("{}.resources.get", pp), || r.get(rr)) {
                    walk_resources(cx, r, &MaybeRef::Indirect(sub), &format!("{}.res", pp), depth - 1);
                }
            }
        }
    }
    // ext g-states
    let mut gs: Vec<_> = res.graphics_states.iter().collect();
    gs.sort_by(|a, b| a.0.as_str().cmp(b.0.as_str()));
    for (name, g) in gs.into_iter().take(16) {
        let gp = format!("{}.gs[{}]", pfx, name.as_str());
        cx.plain(&format!("{}.fields", gp), || { let _ = (g.line_width, g.miter_limit, g.overprint_mode, g.stroke_alpha, g.fill_alpha, g.dash_pattern.as_ref().map(|d| d.len())); });
        if let Some((frf, _)) = g.font {
            if cx.first(b'F', frf.get_inner()) {
                if let Some(font) = cx.call(&format!("{}.font.get", gp), || r.get(frf)) { walk_font(cx, r, &font, &format!("{}.font", gp)); }
            }
        }
    }
    cx.plain(&format!("{}.properties", pfx), || res.properties.len());
}

// =================================================================================================
// parent side

struct ChildRun {
    transcript: String,
    stderr_tail: String,
    exit: Option<i32>,
    signal: Option<i32>,
    killed: Option<&'static str>, // "wall" | "deadlock"
    spawn_err: Option<String>,
}

fn proc_cpu_state(pid: u32) -> Option<(u64, char)> {
    let s = std::fs::read_to_string(format!("/proc/{}/stat", pid)).ok()?;
    let rp = s.rfind(')')?;
    let rest: Vec<&str> = s[rp + 1..].split_whitespace().collect();
    // rest[0] = state, utime = field 14, stime = field 15 -> indices 11, 12 after the ')' part
    let state = rest.first()?.chars().next()?;
    let ut: u64 = rest.get(11)?.parse().ok()?;
    let stt: u64 = rest.get(12)?.parse().ok()?;
    Some((ut + stt, state))
}

fn run_child(line: &[u8], cpu_s: u64) -> ChildRun {
    let mut cr = ChildRun { transcript: String::new(), stderr_tail: String::new(), exit: None, signal: None, killed: None, spawn_err: None };
    let exe = match std::env::current_exe() { Ok(e) => e, Err(e) => { cr.spawn_err = Some(format!("current_exe: {}", e)); return cr; } };
    let mut cmd = Command::new("/usr/bin/prlimit");
    cmd.arg("--stack=8388608").arg("--as=4294967296").arg(format!("--cpu={}:{}", cpu_s, cpu_s + 2)).arg("--core=0")
        .arg(exe).stdin(Stdio::piped()).stdout(Stdio::piped()).stderr(Stdio::piped());
    let mut child = match cmd.spawn() { Ok(c) => c, Err(e) => { cr.spawn_err = Some(format!("spawn: {}", e)); return cr; } };
    let pid = child.id();
    let mut stdin = child.stdin.take().unwrap();
    let mut stdout = child.stdout.take().unwrap();
    let mut stderr = child.stderr.take().unwrap();
    let line = line.to_vec();
    let tin = std::thread::spawn(move || { let _ = stdin.write_all(&line); let _ = stdin.write_all(b"\n"); drop(stdin); });
    let (tx, rx) = mpsc::channel::<Vec<u8>>();
    let tout = std::thread::spawn(move || { let mut v = Vec::new(); let _ = stdout.read_to_end(&mut v); let _ = tx.send(v); });
    let terr = std::thread::spawn(move || {
        let mut tail: Vec<u8> = Vec::new();
        let mut buf = [0u8; 8192];
        loop {
            match stderr.read(&mut buf) {
                Ok(0) | Err(_) => break,
                Ok(n) => { tail.extend_from_slice(&buf[..n]); if tail.len() > 8192 { let cut = tail.len() - 4096; tail.drain(..cut); } }
            }
        }
        tail
    });
    let start = Instant::now();
    let wall = Duration::from_secs(cpu_s * 2 + 2);
    let mut last_cpu = 0u64;
    let mut last_progress = Instant::now();
    let out: Vec<u8>;
    loop {
        match rx.recv_timeout(Duration::from_millis(100)) {
            Ok(v) => { out = v; break; }
            Err(mpsc::RecvTimeoutError::Disconnected) => { out = Vec::new(); break; }
            Err(mpsc::RecvTimeoutError::Timeout) => {
                if start.elapsed() > wall { cr.killed = Some("wall"); let _ = child.kill(); }
                else if let Some((cpu, state)) = proc_cpu_state(pid) {
                    if cpu != last_cpu || state == 'R' || state == 'D' { last_cpu = cpu; last_progress = Instant::now(); }
                    else if state == 'S' && last_progress.elapsed() > Duration::from_millis(2500) {
                        // asleep without consuming CPU while nobody will ever wake it: a dead-lock (the child does no blocking I/O)
                        cr.killed = Some("deadlock"); let _ = child.kill();
                    }
                }
            }
        }
    }
    let status = child.wait();
    let _ = tin.join();
    let _ = tout.join();
    cr.stderr_tail = String::from_utf8_lossy(&terr.join().unwrap_or_default()).to_string();
    cr.transcript = String::from_utf8_lossy(&out).to_string();
    if let Ok(st) = status {
        use std::os::unix::process::ExitStatusExt;
        cr.exit = st.code();
        cr.signal = st.signal();
    }
    cr
}

#[derive(Default)]
struct Parsed {
    calls: usize, ok: usize, err: usize, panic: usize,
    done: bool,
    open_call: Option<String>,
    sites: Vec<(String, String, String)>,  // (file:line, call name, panic message) distinct by (site, call kind)
    hist: BTreeMap<String, [usize; 3]>,
}

fn kind_of(name: &str) -> String {
    let mut s = String::with_capacity(name.len());
    let mut depth = 0;
    for c in name.chars() {
        match c { '[' => depth += 1, ']' => { if depth > 0 { depth -= 1; } } _ => if depth == 0 { s.push(c) } }
    }
    s
}

fn parse_transcript(t: &str) -> Parsed {
    let mut p = Parsed::default();
    let mut seen: HashSet<(String, String)> = HashSet::new();
    for line in t.lines() {
        if let Some(name) = line.strip_prefix("> ") {
            p.calls += 1;
            p.open_call = Some(name.to_string());
        } else if let Some(res) = line.strip_prefix("< ") {
            let name = p.open_call.take().unwrap_or_default();
            let k = kind_of(&name);
            let e = p.hist.entry(k.clone()).or_insert([0; 3]);
            if res == "OK" { p.ok += 1; e[0] += 1; }
            else if res.starts_with("ERR") { p.err += 1; e[1] += 1; }
            else if let Some(w) = res.strip_prefix("PANIC ") {
                p.panic += 1; e[2] += 1;
                let site = w.split(' ').next().unwrap_or("?").to_string();
                let msg = w[site.len()..].trim().to_string();
                if seen.insert((site.clone(), k)) { p.sites.push((site, name, msg)); }
            }
        } else if line.starts_with("= DONE") {
            p.done = true;
        }
    }
    p
}

fn walk_parent(f: &[Vec<u8>]) -> R {
    let opts = if fld(f, 0).first() == Some(&b't') { "74" } else { "73" };
    let cache = if fld(f, 1).first() == Some(&b'c') { "63" } else { "6e" };
    let data = fld(f, 2);
    let extra = dec(fld(f, 3)).max(0) as u64;
    let cpu_s = (5.0 + 2e-6 * ((data.len() as u64 + extra) as f64)).ceil() as u64 + 1;
    let mut line = format!("walkchild {} {} ", opts, cache).into_bytes();
    if data.is_empty() { line.push(b'-'); } else {
        const H: &[u8; 16] = b"0123456789abcdef";
        line.reserve(data.len() * 2);
        for b in data { line.push(H[(b >> 4) as usize]); line.push(H[(b & 15) as usize]); }
    }
    let mut attempts = 0;
    let (cr, p, terminal) = loop {
        attempts += 1;
        let cr = run_child(&line, cpu_s);
        if let Some(e) = cr.spawn_err.as_ref() { return Ok(vec![format!("CHILDFAIL {}", e).into_bytes(), b"calls=0 ok=0 err=0 panic=0".to_vec(), vec![], vec![]]); }
        let p = parse_transcript(&cr.transcript);
        let at = p.open_call.clone().unwrap_or_else(|| if p.calls == 0 { "start".into() } else { "between-calls".into() });
        let terminal: Option<String> = if let Some(k) = cr.killed {
            Some(format!("TIMEOUT {} in {}", k, at))
        } else if let Some(sig) = cr.signal {
            if sig == 24 || sig == 9 { Some(format!("TIMEOUT cpu in {}", at)) }
            else {
                let why = if cr.stderr_tail.contains("overflowed its stack") { " stack-overflow" }
                          else if cr.stderr_tail.contains("memory allocation of") { " alloc-failure" } else { "" };
                Some(format!("ABORT signal {}{} in {}", sig, why, at))
            }
        } else if cr.exit != Some(0) || !p.done {
            let tail = cr.stderr_tail.lines().last().unwrap_or("").chars().take(80).collect::<String>();
            Some(format!("ABORT exit {:?} in {} {}", cr.exit, at, tail))
        } else { None };
        let is_timeout = terminal.as_ref().map(|t| t.starts_with("TIMEOUT")).unwrap_or(false);
        // a time-out counts only if it is reproduced: three times for the wall clock (it depends on the load of the machine),
        // twice for the CPU limit (CPU seconds do not) — a dead-lock after a panic is a consequence of the panic and is not retried
        let is_cpu = terminal.as_ref().map(|t| t.starts_with("TIMEOUT cpu")).unwrap_or(false);
        if is_timeout && attempts < (if is_cpu { 2 } else { 3 }) && p.panic == 0 { continue; }
        break (cr, p, terminal);
    };
    let _ = cr;
    let mut detail: Vec<String> = p.sites.iter().map(|(s, c, _)| format!("{}@{}", s, c)).collect();
    // the message of each panic, in the order of `detail` (known findings are matched on file + message, so that an edit
    // which only moves lines does not turn a listed panic into an unlisted one)
    let msgs: Vec<String> = p.sites.iter().map(|(s, _, m)| format!("{}\t{}", s, m)).collect();
    if let Some(t) = terminal.as_ref() { detail.push(t.clone()); }
    let status = if let Some((s, c, _)) = p.sites.first() { format!("PANIC {} {}", s, c) }
                 else if let Some(t) = terminal { t } else { "CLEAN".to_string() };
    let stats = format!("calls={} ok={} err={} panic={} attempts={}", p.calls, p.ok, p.err, p.panic, attempts);
    let hist: Vec<String> = p.hist.iter().map(|(k, v)| format!("{} {} {} {}", k, v[0], v[1], v[2])).collect();
    Ok(vec![status.into_bytes(), stats.into_bytes(), detail.join("\n").into_bytes(), hist.join("\n").into_bytes(), msgs.join("\n").into_bytes()])
}
