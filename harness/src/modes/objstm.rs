//! modes for object streams and indirect /Length (whole files written by the python oracle)
use crate::util::*;
use crate::R;
use pdf::file::{Storage, NoCache, NoLog};
use pdf::object::{ParseOptions, PlainRef, Resolve};

pub fn dispatch(mode: &str, f: &[Vec<u8>]) -> Option<R> {
    Some(match mode {
        // opts file objnum  ->  canon of the resolved object (streams with their raw data)
        "objstm" | "resolve_one" => {
            let opts = if fld(f, 0).first() == Some(&b't') { ParseOptions::tolerant() } else { ParseOptions::strict() };
            let mut st = match Storage::with_cache(f[1].clone(), opts, NoCache, NoCache, NoLog) {
                Ok(s) => s, Err(e) => return Some(Err(ekind(&e))) };
            if let Err(e) = st.load_storage_and_trailer() { return Some(Err(ekind(&e))); }
            let r = st.resolver();
            match r.resolve(PlainRef { id: dec(fld(f, 2)) as u64, gen: 0 }) {
                Ok(p) => Ok(vec![canon(&p, &r)]),
                Err(e) => Err(ekind(&e)),
            }
        }
        _ => return None,
    })
}
