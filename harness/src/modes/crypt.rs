//! modes for pdf/src/crypt.rs and the decoder installation of pdf/src/file.rs (property C06)
use crate::util::{dec, fld};
use crate::R;
use pdf::crypt::{CryptDict, CryptMethod, Decoder, Rc4};
use pdf::error::PdfError;
use pdf::file::{File, FileOptions, NoCache, NoLog, Storage};
use pdf::object::{NoResolve, Object, ParseOptions, PlainRef, Resolve, Stream};
use pdf::primitive::{Dictionary, Name, PdfString, Primitive};

/// error kinds the property names
fn ekind(e: &PdfError) -> &'static str {
    match e {
        PdfError::InvalidPassword => "InvalidPassword",
        PdfError::DecryptionFailure => "DecryptionFailure",
        PdfError::MissingEntry { .. } => "MissingEntry",
        PdfError::Try { source, .. } => ekind(source),
        PdfError::Shared { source } => ekind(source),
        PdfError::FromPrimitive { source, .. } => ekind(source),
        _ => "Other",
    }
}

fn pstr(b: &[u8]) -> Primitive {
    Primitive::String(PdfString::new(b.into()))
}
fn pname(b: &[u8]) -> Primitive {
    Primitive::Name(String::from_utf8_lossy(b).as_ref().into())
}
fn opt(b: &[u8]) -> Option<&[u8]> {
    if b.first() == Some(&b'1') { Some(&b[1..]) } else { None }
}

/// fields 0.. : R V P bits em O U OE? UE? StmF? StrF? ncf (name method len?)*  -> (dictionary primitive, next index)
fn dict_of(f: &[Vec<u8>]) -> (Primitive, usize) {
    let mut d = Dictionary::new();
    d.insert("Filter", pname(b"Standard"));
    d.insert("R", Primitive::Integer(dec(fld(f, 0)) as i32));
    d.insert("V", Primitive::Integer(dec(fld(f, 1)) as i32));
    d.insert("P", Primitive::Integer(dec(fld(f, 2)) as i32));
    if fld(f, 3) != b"x" { d.insert("Length", Primitive::Integer(dec(fld(f, 3)) as i32)); }
    match fld(f, 4) { b"1" => { d.insert("EncryptMetadata", Primitive::Boolean(true)); }
                      b"0" => { d.insert("EncryptMetadata", Primitive::Boolean(false)); }
                      _ => {} }
    d.insert("O", pstr(fld(f, 5)));
    d.insert("U", pstr(fld(f, 6)));
    if let Some(x) = opt(fld(f, 7)) { d.insert("OE", pstr(x)); }
    if let Some(x) = opt(fld(f, 8)) { d.insert("UE", pstr(x)); }
    if let Some(x) = opt(fld(f, 9)) { d.insert("StmF", pname(x)); }
    if let Some(x) = opt(fld(f, 10)) { d.insert("StrF", pname(x)); }
    let ncf = dec(fld(f, 11)) as usize;
    let mut cf = Dictionary::new();
    for k in 0..ncf {
        let mut e = Dictionary::new();
        let m = dec(fld(f, 12 + 3 * k + 1));
        match m { 0 => { e.insert("CFM", pname(b"None")); } 1 => { e.insert("CFM", pname(b"V2")); }
                  2 => { e.insert("CFM", pname(b"AESV2")); } 3 => { e.insert("CFM", pname(b"AESV3")); } _ => {} }
        if let Some(x) = opt(fld(f, 12 + 3 * k + 2)) { e.insert("Length", Primitive::Integer(dec(x) as i32)); }
        let nm: Name = String::from_utf8_lossy(fld(f, 12 + 3 * k)).as_ref().into();
        cf.insert(nm, Primitive::Dictionary(e));
    }
    if ncf > 0 { d.insert("CF", Primitive::Dictionary(cf)); }
    (Primitive::Dictionary(d), 12 + 3 * ncf)
}

fn method_of(n: i128) -> CryptMethod {
    match n { 1 => CryptMethod::V2, 2 => CryptMethod::AESV2, 3 => CryptMethod::AESV3, _ => CryptMethod::None }
}

/// "+<data>" | "!<Kind>"
fn item(r: pdf::error::Result<Vec<u8>>) -> Vec<u8> {
    match r { Ok(mut v) => { let mut o = vec![b'+']; o.append(&mut v); o }
              Err(e) => { let mut o = vec![b'!']; o.extend_from_slice(ekind(&e).as_bytes()); o } }
}

/// items: (kind obj gen data)*; kind "s": a string (Decoder::decrypt_string), anything else: stream data (Decoder::decrypt)
fn decrypt_items(d: &Decoder, f: &[Vec<u8>], from: usize, n: usize, out: &mut Vec<Vec<u8>>) {
    for k in 0..n {
        let id = PlainRef { id: dec(fld(f, from + 4 * k + 1)) as u64, gen: dec(fld(f, from + 4 * k + 2)) as u64 };
        let mut data = fld(f, from + 4 * k + 3).to_vec();
        let r = if fld(f, from + 4 * k) == b"s" { d.decrypt_string(id, &mut data) } else { d.decrypt(id, &mut data) };
        out.push(item(r.map(|s| s.to_vec())));
    }
}

/// what Debug shows of a decoder: `Decoder { key: [..], method: M, string_method: S }`  ->  key bytes, the two method names
fn observe(d: &Decoder) -> (Vec<u8>, Vec<u8>, Vec<u8>) {
    let s = format!("{:?}", d);
    let key = s.split("key: [").nth(1).and_then(|t| t.split(']').next()).unwrap_or("");
    let kb: Vec<u8> = key.split(',').filter_map(|x| x.trim().parse::<u8>().ok()).collect();
    let name = |label: &str| -> Vec<u8> {
        s.split(label).nth(1).map(|t| t.split(|c| c == ',' || c == '}' || c == ' ').next().unwrap_or("?")).unwrap_or("?").as_bytes().to_vec()
    };
    (kb, name(" method: "), name(" string_method: "))
}

fn walk(p: &Primitive, r: &impl Resolve, out: &mut Vec<Vec<u8>>) {
    match p {
        Primitive::String(s) => { let mut o = vec![b'S']; o.extend_from_slice(s.as_bytes()); out.push(o); }
        Primitive::Array(a) => for x in a.iter() { walk(x, r, out); },
        Primitive::Dictionary(d) => for (_, x) in d.iter() { walk(x, r, out); },
        Primitive::Stream(s) => {
            for (_, x) in s.info.iter() { walk(x, r, out); }
            let mut o = vec![b'R'];
            o.append(&mut item(s.raw_data(r).map(|d| d.to_vec())));
            out.push(o);
            let mut o = vec![b'D'];
            o.append(&mut item(Stream::<()>::from_primitive(p.clone(), r).and_then(|st| st.data(r)).map(|d| d.to_vec())));
            out.push(o);
        }
        _ => {}
    }
}

/// what a user reads from a document opened through `FileOptions::…::load`: the page count, the typed /Info /Title
/// (`T+<bytes>` | `T-`), then the leaves of the listed objects (as `crypt_doc`)
fn read_opened<B, OC, SC, L>(file: &File<B, OC, SC, L>, ids: &[u8]) -> Vec<Vec<u8>>
where B: pdf::backend::Backend,
      OC: pdf::file::Cache<Result<pdf::any::AnySync, std::sync::Arc<PdfError>>>,
      SC: pdf::file::Cache<Result<std::sync::Arc<[u8]>, std::sync::Arc<PdfError>>>,
      L: pdf::file::Log,
{
    let mut out = vec![format!("{}", file.num_pages()).into_bytes()];
    let mut t = vec![b'T'];
    match file.trailer.info_dict.as_ref().and_then(|i| i.title.as_ref()) {
        Some(s) => { t.push(b'+'); t.extend_from_slice(s.as_bytes()); }
        None => t.push(b'-'),
    }
    out.push(t);
    let r = file.resolver();
    for id in std::str::from_utf8(ids).unwrap_or("").split(',').filter_map(|x| x.parse::<u64>().ok()) {
        match r.resolve(PlainRef { id, gen: 0 }) {
            Ok(p) => walk(&p, &r, &mut out),
            Err(e) => { let mut o = vec![b'O']; o.append(&mut item(Err(e))); out.push(o); }
        }
    }
    out
}

pub fn dispatch(mode: &str, f: &[Vec<u8>]) -> Option<R> {
    Some(match mode {
        // key data -> Rc4::encrypt
        "rc4" => { let mut d = fld(f, 1).to_vec(); Rc4::encrypt(fld(f, 0), &mut d); Ok(vec![d]) }
        // dict.. id password fuel nitems (kind obj gen data)*   [oracle tables: model only]
        "crypt_open" => {
            let (p, i) = dict_of(f);
            let dict = match CryptDict::from_primitive(p, &NoResolve) { Ok(d) => d, Err(_) => return Some(Err("BadDict".into())) };
            let dcd = match Decoder::from_password(&dict, fld(f, i), fld(f, i + 1)) { Ok(d) => d, Err(e) => return Some(Err(ekind(&e).into())) };
            let n = dec(fld(f, i + 3)) as usize;
            let (k, m, ms) = observe(&dcd);
            let mut out = vec![k, m, ms];
            decrypt_items(&dcd, f, i + 4, n, &mut out);
            Ok(out)
        }
        // key key_size method string_method em nitems (kind obj gen data)*
        "crypt_dec" => {
            let dcd = Decoder::with_methods(fld(f, 0).to_vec(), dec(fld(f, 1)) as usize, method_of(dec(fld(f, 2))), method_of(dec(fld(f, 3))),
                                            fld(f, 4) == b"1");
            let n = dec(fld(f, 5)) as usize;
            let mut out = vec![];
            decrypt_items(&dcd, f, 6, n, &mut out);
            Ok(out)
        }
        // password ids(comma separated) file nprobes (obj gen start end)*  ->  leaves of the listed objects in order, then the probes
        "crypt_doc" => {
            let mut st = match Storage::with_cache(f[2].clone(), ParseOptions::strict(), NoCache, NoCache, NoLog) {
                Ok(s) => s, Err(e) => return Some(Err(ekind(&e).into())) };
            if let Err(e) = st.load_storage_and_trailer_password(fld(f, 0)) { return Some(Err(ekind(&e).into())); }
            let r = st.resolver();
            let mut out = vec![];
            let ids: Vec<u64> = std::str::from_utf8(fld(f, 1)).unwrap_or("").split(',').filter_map(|x| x.parse().ok()).collect();
            for id in ids {
                match r.resolve(PlainRef { id, gen: 0 }) {
                    Ok(p) => walk(&p, &r, &mut out),
                    Err(e) => { let mut o = vec![b'O']; o.append(&mut item(Err(e))); out.push(o); }
                }
            }
            let np = dec(fld(f, 3)) as usize;
            for k in 0..np {
                let id = PlainRef { id: dec(fld(f, 4 + 4 * k)) as u64, gen: dec(fld(f, 5 + 4 * k)) as u64 };
                let (a, b) = (dec(fld(f, 6 + 4 * k)) as usize, dec(fld(f, 7 + 4 * k)) as usize);
                let mut o = vec![b'P'];
                o.append(&mut item(r.stream_data(id, a..b).map(|d| d.to_vec())));
                out.push(o);
            }
            Ok(out)
        }
        // <c|u> <"0" | "1"password> ids(comma separated) file  ->  the document opened the way a user opens it:
        // FileOptions::cached() / ::uncached() [.password(pw)] .load(bytes); error kind of File::load, else what read_opened reads
        "crypt_open_file" => {
            let pw = opt(fld(f, 1));
            if fld(f, 0).first() == Some(&b'c') {
                let o = FileOptions::cached();
                let o = match pw { Some(p) => o.password(p), None => o };
                match o.load(f[3].clone()) { Ok(file) => Ok(read_opened(&file, fld(f, 2))), Err(e) => Err(ekind(&e).into()) }
            } else {
                let o = FileOptions::uncached();
                let o = match pw { Some(p) => o.password(p), None => o };
                match o.load(f[3].clone()) { Ok(file) => Ok(read_opened(&file, fld(f, 2))), Err(e) => Err(ekind(&e).into()) }
            }
        }
        _ => return None,
    })
}
