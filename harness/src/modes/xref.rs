//! modes for the cross-reference reader: pdf/src/xref.rs, pdf/src/parser/parse_xref.rs,
//! pdf/src/backend.rs and the whole-file observations of C02 / C17.
//! Text form shared with coq/theories/XRef/Run.v:
//!   entry = f<next>,<gen> | n<pos>,<gen> | c<stream>,<index> | P | I ; section = <first> entry … ; table = entry …
use crate::util::*;
use crate::R;
use pdf::backend::Backend;
use pdf::file::{NoCache, NoLog, ScanItem, Storage};
use pdf::object::{ParseOptions, PlainRef, Resolve};
use pdf::parser::{parse_xref_table_and_trailer, read_xref_and_trailer_at, Lexer};
use pdf::primitive::Primitive;
use pdf::xref::{XRef, XRefSection, XRefTable};

fn opts_of(b: &[u8]) -> ParseOptions {
    if b.first() == Some(&b't') { ParseOptions::tolerant() } else { ParseOptions::strict() }
}

fn entry_text(e: &XRef) -> String {
    match *e {
        XRef::Free { next_obj_nr, gen_nr } => format!("f{},{}", next_obj_nr, gen_nr),
        XRef::Raw { pos, gen_nr } => format!("n{},{}", pos, gen_nr),
        XRef::Stream { stream_id, index } => format!("c{},{}", stream_id, index),
        XRef::Promised => "P".into(),
        XRef::Invalid => "I".into(),
    }
}
fn entry_of(t: &str) -> XRef {
    let (k, rest) = t.split_at(1);
    let mut it = rest.split(',').map(|x| x.parse::<u64>().unwrap_or(0));
    let (a, b) = (it.next().unwrap_or(0), it.next().unwrap_or(0));
    match k {
        "f" => XRef::Free { next_obj_nr: a, gen_nr: b },
        "n" => XRef::Raw { pos: a as usize, gen_nr: b },
        "c" => XRef::Stream { stream_id: a, index: b as usize },
        "P" => XRef::Promised,
        _ => XRef::Invalid,
    }
}
fn section_of(b: &[u8]) -> XRefSection {
    let s = String::from_utf8_lossy(b);
    let mut it = s.split(' ').filter(|x| !x.is_empty());
    let first = it.next().and_then(|x| x.parse::<u32>().ok()).unwrap_or(0);
    XRefSection { first_id: first, entries: it.map(entry_of).collect() }
}
fn section_text(s: &XRefSection) -> Vec<u8> {
    let mut v = vec![format!("{}", s.first_id)];
    v.extend(s.entries.iter().map(entry_text));
    v.join(" ").into_bytes()
}
fn table_text(t: &XRefTable) -> Vec<u8> {
    let mut v = vec![];
    for i in 0..t.len() {
        v.push(match t.get(i as u64) { Ok(e) => entry_text(&e), Err(_) => "E".into() });
    }
    v.join(" ").into_bytes()
}

type St = Storage<Vec<u8>, NoCache, NoCache, NoLog>;
fn storage(file: &[u8], o: &[u8]) -> pdf::error::Result<St> {
    Storage::with_cache(file.to_vec(), opts_of(o), NoCache, NoCache, NoLog)
}

pub fn dispatch(mode: &str, f: &[Vec<u8>]) -> Option<R> {
    Some(match mode {
        // size section section …   (sections in the order they are merged)
        "xr_merge" => {
            let mut t = XRefTable::new(dec(fld(f, 0)) as u64);
            for s in &f[1..] {
                if let Err(e) = t.add_entries_from(section_of(s)) { return Some(Err(ekind(&e))); }
            }
            Ok(vec![table_text(&t)])
        }
        // opts W Index data: an xref stream object with exactly these entries is read at its position
        "xr_stream" => {
            let sp = |b: &[u8]| String::from_utf8_lossy(b).replace(',', " ");
            let data = fld(f, 3);
            let mut file = b"%PDF-1.7\n".to_vec();
            let pos = file.len();
            file.extend_from_slice(format!("1 0 obj\n<</Type/XRef/Size 1/W[{}]/Index[{}]/Length {}>>\nstream\n",
                                           sp(fld(f, 1)), sp(fld(f, 2)), data.len()).as_bytes());
            file.extend_from_slice(data);
            file.extend_from_slice(b"\nendstream\nendobj\nstartxref\n9\n%%EOF\n");
            let st = match storage(&file, fld(f, 0)) { Ok(s) => s, Err(e) => return Some(Err(ekind(&e))) };
            let r = st.resolver();
            let mut lexer = Lexer::with_offset(&file[pos..], pos);
            match read_xref_and_trailer_at(&mut lexer, &r) {
                Ok((secs, _)) => Ok(secs.iter().map(section_text).collect()),
                Err(e) => Err(ekind(&e)),
            }
        }
        // the text after `xref`; "trailer" and a dictionary are appended
        "xr_table" => {
            let mut buf = fld(f, 0).to_vec();
            buf.extend_from_slice(b"\ntrailer\n<</Size 1>>\n");
            let st = match storage(b"%PDF-1.7\n", b"s") { Ok(s) => s, Err(e) => return Some(Err(ekind(&e))) };
            let r = st.resolver();
            let mut lexer = Lexer::new(&buf);
            match parse_xref_table_and_trailer(&mut lexer, &r) {
                Ok((secs, _)) => Ok(secs.iter().map(section_text).collect()),
                Err(e) => Err(ekind(&e)),
            }
        }
        // file -> header position, startxref value
        "xr_locate" => {
            let file = f[0].clone();
            let a = match file.locate_start_offset() { Ok(n) => format!("{}", n), Err(_) => "E".into() };
            let b = match file.locate_xref_offset() { Ok(n) => format!("{}", n), Err(_) => "E".into() };
            Ok(vec![a.into_bytes(), b.into_bytes()])
        }
        // opts file -> merged table, /VpRev of the trailer that is returned
        "xr_walk" => {
            let file = f[1].clone();
            let st = match storage(&file, fld(f, 0)) { Ok(s) => s, Err(e) => return Some(Err(ekind(&e))) };
            let r = st.resolver();
            let start = match file.locate_start_offset() { Ok(s) => s, Err(e) => return Some(Err(ekind(&e))) };
            match file.read_xref_table_and_trailer(start, &r) {
                Ok((t, tr)) => {
                    let id = tr.get("VpRev").and_then(|p| p.as_integer().ok()).unwrap_or(-1);
                    Ok(vec![table_text(&t), format!("{}", id).into_bytes()])
                }
                Err(e) => Err(ekind(&e)),
            }
        }
        // position text -> the sections read at that lexer offset, "/Size|- /Prev|-|!", the trailer dictionary
        "xr_section" => {
            let pos = dec(fld(f, 0)) as usize;
            let st = match storage(b"%PDF-1.7\n", b"s") { Ok(s) => s, Err(e) => return Some(Err(ekind(&e))) };
            let r = st.resolver();
            let mut lexer = Lexer::with_offset(fld(f, 1), pos);
            match read_xref_and_trailer_at(&mut lexer, &r) {
                Ok((secs, tr)) => {
                    let mut out: Vec<Vec<u8>> = secs.iter().map(section_text).collect();
                    let size = match tr.get("Size").map(|p| p.as_u32()) { Some(Ok(n)) => format!("{}", n), _ => "-".into() };
                    let prev = match tr.get("Prev").map(|p| p.as_usize()) { None => "-".into(), Some(Ok(n)) => format!("{}", n), Some(Err(_)) => "!".into() };
                    out.push(format!("{} {}", size, prev).into_bytes());
                    if fld(f, 2).first() != Some(&b'q') { out.push(canon(&Primitive::Dictionary(tr), &r)); }
                    Ok(out)
                }
                Err(e) => Err(ekind(&e)),
            }
        }
        // opts count file -> one field per object number 0..count (canon | "!"), then the trailer
        "xr_open" => {
            let mut st = match storage(&f[2], fld(f, 0)) { Ok(s) => s, Err(e) => return Some(Err(ekind(&e))) };
            let tr = match st.load_storage_and_trailer() { Ok(t) => t, Err(e) => return Some(Err(ekind(&e))) };
            let r = st.resolver();
            let mut out = vec![];
            for id in 0..dec(fld(f, 1)) as u64 {
                out.push(match r.resolve(PlainRef { id, gen: 0 }) { Ok(p) => canon(&p, &r), Err(_) => b"!".to_vec() });
            }
            out.push(canon(&Primitive::Dictionary(tr), &r));
            Ok(out)
        }
        // opts count file -> one field per object number 0..count (canon | !Kind), the trailer, then one field
        // per scan item ("O<id>,<gen> canon" | "T canon" | "!Kind")
        "xr_all" => observe(fld(f, 0), dec(fld(f, 1)) as u64, &f[2]),
        // opts count prefix file -> observation of file, "|", observation of prefix ++ file ("!Kind" when it does not load)
        "xr_pair" => {
            let n = dec(fld(f, 1)) as u64;
            let mut out = match observe(fld(f, 0), n, &f[3]) { Ok(v) => v, Err(k) => vec![format!("!{}", k).into_bytes()] };
            out.push(b"|".to_vec());
            let mut both = f[2].clone();
            both.extend_from_slice(&f[3]);
            match observe(fld(f, 0), n, &both) { Ok(v) => out.extend(v), Err(k) => out.push(format!("!{}", k).into_bytes()) }
            Ok(out)
        }
        _ => return None,
    })
}

fn observe(o: &[u8], n: u64, file: &[u8]) -> R {
    Some({
            let mut st = match storage(file, o) { Ok(s) => s, Err(e) => return Err(ekind(&e)) };
            let tr = match st.load_storage_and_trailer() { Ok(t) => t, Err(e) => return Err(ekind(&e)) };
            let r = st.resolver();
            let mut out = vec![];
            for id in 0..n {
                out.push(canon_res(r.resolve(PlainRef { id, gen: 0 }), &r));
            }
            out.push(canon(&Primitive::Dictionary(tr), &r));
            out.push(b"scan".to_vec());
            for item in st.scan().take(100000) {
                out.push(match item {
                    Ok(ScanItem::Object(id, p)) => { let mut v = format!("O{},{} ", id.id, id.gen).into_bytes(); v.extend(canon(&p, &r)); v }
                    Ok(ScanItem::Trailer(d)) => { let mut v = b"T ".to_vec(); v.extend(canon(&Primitive::Dictionary(d), &r)); v }
                    Err(e) => format!("!{}", ekind(&e)).into_bytes(),
                });
            }
            Ok(out)
    }).unwrap()
}
