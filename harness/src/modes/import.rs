//! modes for pdf/src/build.rs (Importer / PageBuilder::clone_page / PdfBuilder::build) — property C20
//!
//! import_graph  opts file roots [flags [hist]] -> new refs of the roots ("id,gen;…"), number of new objects, then one field per new object (canon)
//! import        opts file pages flags [hist]   -> see `import_pages`
//! import_seq    opts file pages flags [hist]   -> the same sequence through ONE Importer, but a page whose import fails is
//!                                                 recorded and the sequence goes on: field 0 = one letter per page of the
//!                                                 sequence (`k` imported, `e` failed), then the fields of `import` for the
//!                                                 pages that were imported (nothing more than "0" if none was)
//! dump          opts file                      -> one field per object number 1..n (canon | !Kind), trailer last
//!
//! flags (ASCII letters): s = append the dump of the source, d = verbose clone errors,
//!                        c = the SOURCE is opened with the object + stream caches (FileOptions::cached()),
//!                        C = the TARGET storage is built with both caches, r = the saved file is reloaded with caches
//! hist  (ASCII, steps separated by ';'): what is done on the source BEFORE the import (every answer is discarded):
//!   P<n> page n "rendered": operations parsed, every image decoded (image_data + raw_image_data), every form's
//!        operations parsed, every font loaded and its embedded data / ToUnicode read
//!   I<n> images of page n: image_data      W<n> images of page n: raw_image_data
//!   F<n> fonts of page n: embedded data    O<n> operations of page n (and of its forms) parsed
//!   D<k> object k, if a stream: decoded through its filters (Stream::data — goes through the stream cache)
//!   R<k> object k, if a stream: raw bytes read (Resolve::stream_data)
//!   G<k> object k loaded typed as an XObject (object cache)
//!   U<k> object k updated with its own value (pending change, not saved)
//!   T<k> object k updated: its dictionary (or stream dictionary) gains /VTouched 7
//!   N<k> a new stream object with generated data is created and object k's dictionary gains /VNew <ref to it>
use crate::util::*;
use crate::R;
use pdf::any::AnySync;
use pdf::build::{CatalogBuilder, Importer, PageBuilder, PdfBuilder};
use pdf::content::serialize_ops;
use pdf::error::PdfError;
use pdf::file::{Cache, File, FileOptions, NoCache, NoLog, Storage, SyncCache};
use pdf::object::{Cloner, ParseOptions, PlainRef, Ref, Resolve, Stream, Updater, XObject};
use pdf::primitive::Primitive;
use std::panic::{catch_unwind, AssertUnwindSafe};
use std::sync::Arc;

fn opts_of(b: &[u8]) -> ParseOptions {
    if b.first() == Some(&b't') { ParseOptions::tolerant() } else { ParseOptions::strict() }
}

/// "id,gen;id,gen" -> refs
fn refs_of(b: &[u8]) -> Vec<PlainRef> {
    String::from_utf8_lossy(b).split(';').filter(|s| !s.is_empty()).filter_map(|p| {
        let mut it = p.split(',');
        Some(PlainRef { id: it.next()?.trim().parse().ok()?, gen: it.next().and_then(|g| g.trim().parse().ok()).unwrap_or(0) })
    }).collect()
}
fn nums_of(b: &[u8]) -> Vec<u32> {
    String::from_utf8_lossy(b).split(',').filter(|s| !s.is_empty()).filter_map(|p| p.trim().parse().ok()).collect()
}
/// "P0;D12;T7" -> [(b'P', 0), (b'D', 12), (b'T', 7)]
fn steps_of(b: &[u8]) -> Vec<(u8, u64)> {
    b.split(|&c| c == b';').filter(|s| !s.is_empty()).filter_map(|s| {
        Some((s[0], std::str::from_utf8(&s[1..]).ok()?.trim().parse().ok()?))
    }).collect()
}

/// every object of a storage by number, starting at 1, until the table ends
fn dump_objects(r: &impl Resolve, out: &mut Vec<Vec<u8>>) {
    let mut id = 1u64;
    loop {
        match r.resolve(PlainRef { id, gen: 0 }) {
            Err(e) if ekind(&e) == "UnspecifiedXRefEntry" => break,
            p => out.push(canon_res(p, r)),
        }
        id += 1;
        if id > 200_000 { break }
    }
}

fn rect(r: &pdf::object::Rectangle) -> String {
    format!("{:08x},{:08x},{:08x},{:08x}", r.left.to_bits(), r.bottom.to_bits(), r.right.to_bits(), r.top.to_bits())
}

// ------------------------------------------------------------------------------------------------
// histories on the source

/// the reading steps that need nothing but a resolver (D R G)
fn read_step(r: &impl Resolve, kind: u8, k: u64) {
    let pr = PlainRef { id: k, gen: 0 };
    match kind {
        b'D' => {
            if let Ok(Primitive::Stream(s)) = r.resolve(pr) {
                if let Ok(st) = Stream::<()>::from_stream(s, r) { let _ = st.data(r); }
            }
        }
        b'R' => {
            if let Ok(Primitive::Stream(s)) = r.resolve(pr) { let _ = s.raw_data(r); }
        }
        b'G' => { let _ = r.get::<XObject>(Ref::from_id(k)); }
        _ => {}
    }
}

/// the value step U / T / N computes for object k (None: the object cannot be read, nothing is written)
fn updated_value(r: &impl Resolve, kind: u8, k: u64, fresh: Option<PlainRef>) -> Option<Primitive> {
    let mut p = r.resolve(PlainRef { id: k, gen: 0 }).ok()?;
    let (key, val) = match kind {
        b'T' => ("VTouched", Primitive::Integer(7)),
        b'N' => ("VNew", Primitive::Reference(fresh?)),
        _ => return Some(p),
    };
    match p {
        Primitive::Dictionary(ref mut d) => { d.insert(key, val); }
        Primitive::Stream(ref mut s) => { s.info.insert(key, val); }
        _ => {}
    }
    Some(p)
}

fn page_step<OC, SC>(file: &File<Vec<u8>, OC, SC, NoLog>, kind: u8, n: u32)
where OC: Cache<Result<AnySync, Arc<PdfError>>>, SC: Cache<Result<Arc<[u8]>, Arc<PdfError>>>
{
    let r = file.resolver();
    let page = match file.get_page(n) { Ok(p) => p, Err(_) => return };
    let all = kind == b'P';
    if all || kind == b'O' {
        if let Some(c) = page.contents.as_ref() { let _ = c.operations(&r); }
    }
    let res = match page.resources() { Ok(res) => res, Err(_) => return };
    for (_, xr) in res.xobjects.iter() {
        if let Ok(xo) = r.get(*xr) {
            match *xo {
                XObject::Image(ref im) => {
                    if all || kind == b'I' { let _ = im.image_data(&r); }
                    if all || kind == b'W' { let _ = im.raw_image_data(&r); }
                }
                XObject::Form(ref f) => {
                    if all || kind == b'O' { let _ = f.operations(&r); }
                }
                _ => {}
            }
        }
    }
    if all || kind == b'F' {
        for (_, lf) in res.fonts.iter() {
            if let Ok(f) = lf.load(&r) {
                let _ = f.embedded_data(&r);
                let _ = f.to_unicode(&r);
            }
        }
    }
}

fn history_on_file<OC, SC>(file: &mut File<Vec<u8>, OC, SC, NoLog>, hist: &[u8]) -> Result<(), String>
where OC: Cache<Result<AnySync, Arc<PdfError>>>, SC: Cache<Result<Arc<[u8]>, Arc<PdfError>>>
{
    for (kind, k) in steps_of(hist) {
        let res = catch_unwind(AssertUnwindSafe(|| {
            match kind {
                b'P' | b'I' | b'W' | b'F' | b'O' => page_step(file, kind, k as u32),
                b'D' | b'R' | b'G' => read_step(&file.resolver(), kind, k),
                b'U' | b'T' | b'N' => {
                    // the value is computed from what the source answers now; a new object (N) is created first
                    let has = file.resolver().resolve(PlainRef { id: k, gen: 0 }).is_ok();
                    if has {
                        let fresh = if kind == b'N' {
                            file.create(Stream::new((), format!("generated data for {}", k).into_bytes())).ok().map(|rc| rc.get_ref().get_inner())
                        } else { None };
                        if kind != b'N' || fresh.is_some() {
                            let p = updated_value(&file.resolver(), kind, k, fresh);
                            if let Some(p) = p { let _ = file.update(PlainRef { id: k, gen: 0 }, p); }
                        }
                    }
                }
                _ => {}
            }
        }));
        if res.is_err() { return Err("history:panic".into()); }
    }
    Ok(())
}

fn history_on_storage<OC, SC>(st: &mut Storage<Vec<u8>, OC, SC, NoLog>, hist: &[u8]) -> Result<(), String>
where OC: Cache<Result<AnySync, Arc<PdfError>>>, SC: Cache<Result<Arc<[u8]>, Arc<PdfError>>>
{
    for (kind, k) in steps_of(hist) {
        let res = catch_unwind(AssertUnwindSafe(|| {
            match kind {
                b'D' | b'R' | b'G' => read_step(&st.resolver(), kind, k),
                b'U' | b'T' | b'N' => {
                    let has = st.resolver().resolve(PlainRef { id: k, gen: 0 }).is_ok();
                    if has {
                        let fresh = if kind == b'N' {
                            st.create(Stream::new((), format!("generated data for {}", k).into_bytes())).ok().map(|rc| rc.get_ref().get_inner())
                        } else { None };
                        if kind != b'N' || fresh.is_some() {
                            let p = updated_value(&st.resolver(), kind, k, fresh);
                            if let Some(p) = p { let _ = st.update(PlainRef { id: k, gen: 0 }, p); }
                        }
                    }
                }
                _ => {}
            }
        }));
        if res.is_err() { return Err("history:panic".into()); }
    }
    Ok(())
}

// ------------------------------------------------------------------------------------------------
// import_graph

fn import_graph_with<OC, SC, OC2, SC2>(f: &[Vec<u8>], mut st: Storage<Vec<u8>, OC, SC, NoLog>, mut new: Storage<Vec<u8>, OC2, SC2, NoLog>) -> R
where OC: Cache<Result<AnySync, Arc<PdfError>>>, SC: Cache<Result<Arc<[u8]>, Arc<PdfError>>>,
      OC2: Cache<Result<AnySync, Arc<PdfError>>>, SC2: Cache<Result<Arc<[u8]>, Arc<PdfError>>>
{
    st.load_storage_and_trailer().map_err(|e| ekind(&e))?;
    history_on_storage(&mut st, fld(f, 4))?;
    let mut roots_out = String::new();
    {
        let mut imp = Importer::new(st.resolver(), &mut new);
        for (i, r) in refs_of(fld(f, 2)).into_iter().enumerate() {
            let n = imp.clone_plainref(r).map_err(|e| ekind(&e))?;
            if i > 0 { roots_out.push(';'); }
            roots_out.push_str(&format!("{},{}", n.id, n.gen));
        }
    }
    let mut objs = vec![];
    dump_objects(&new.resolver(), &mut objs);
    let mut out = vec![roots_out.into_bytes(), format!("{}", objs.len()).into_bytes()];
    out.extend(objs);
    Ok(out)
}

fn import_graph(f: &[Vec<u8>]) -> R {
    let flags = fld(f, 3);
    let data = fld(f, 1).to_vec();
    let o = opts_of(fld(f, 0));
    match (flags.contains(&b'c'), flags.contains(&b'C')) {
        (false, false) => import_graph_with(f, Storage::with_cache(data, o, NoCache, NoCache, NoLog).map_err(|e| ekind(&e))?, Storage::empty(NoCache, NoCache, NoLog)),
        (true, false) => import_graph_with(f, Storage::with_cache(data, o, SyncCache::new(), SyncCache::new(), NoLog).map_err(|e| ekind(&e))?, Storage::empty(NoCache, NoCache, NoLog)),
        (false, true) => import_graph_with(f, Storage::with_cache(data, o, NoCache, NoCache, NoLog).map_err(|e| ekind(&e))?, Storage::empty(SyncCache::new(), SyncCache::new(), NoLog)),
        (true, true) => import_graph_with(f, Storage::with_cache(data, o, SyncCache::new(), SyncCache::new(), NoLog).map_err(|e| ekind(&e))?, Storage::empty(SyncCache::new(), SyncCache::new(), NoLog)),
    }
}

// ------------------------------------------------------------------------------------------------
// import (pages)

/// fields out:
///   0: number of pages imported (decimal)
///   per page i (5 fields): media box, crop box, "trim box|rotate", serialize_ops(source page ops), serialize_ops(reloaded page ops)
///   then: number of objects of the new file (decimal), one field per object 1..n (canon), the new trailer (canon),
///   then (flag 's'): number of objects of the source, one field per source object, the source trailer
fn import_pages_with<OC, SC, OC2, SC2>(f: &[Vec<u8>], src: FileOptions<'static, OC, SC, NoLog>, dst: FileOptions<'static, OC2, SC2, NoLog>, seq: bool) -> R
where OC: Cache<Result<AnySync, Arc<PdfError>>>, SC: Cache<Result<Arc<[u8]>, Arc<PdfError>>>,
      OC2: Cache<Result<AnySync, Arc<PdfError>>>, SC2: Cache<Result<Arc<[u8]>, Arc<PdfError>>>
{
    let flags = fld(f, 3);
    let parse = || opts_of(fld(f, 0));
    let mut old = src.parse_options(parse()).load(fld(f, 1).to_vec()).map_err(|e| format!("load:{}", ekind(&e)))?;
    history_on_file(&mut old, fld(f, 4))?;
    let mut builder = PdfBuilder::new(dst);
    let mut pages = vec![];
    let mut old_ops = vec![];
    let mut status: Vec<u8> = vec![];
    {
        let mut imp = Importer::new(old.resolver(), &mut builder.storage);
        for n in nums_of(fld(f, 2)) {
            // one page: everything that can fail for it, as a value
            let one = (|| -> Result<(Vec<u8>, PageBuilder), String> {
                let page = old.get_page(n).map_err(|e| format!("page:{}", ekind(&e)))?;
                let ops = match page.contents.as_ref() { Some(c) => c.operations(&old.resolver()).map_err(|e| format!("ops:{}", ekind(&e)))?, None => vec![] };
                let so = serialize_ops(&ops).map_err(|e| format!("serops:{}", ekind(&e)))?;
                let pb = PageBuilder::clone_page(&page, &mut imp).map_err(|e| if flags.contains(&b'd') { format!("clone:{:?}", e) } else { format!("clone:{}", ekind(&e)) })?;
                Ok((so, pb))
            })();
            match one {
                Ok((so, pb)) => { old_ops.push(so); pages.push(pb); status.push(b'k'); }
                Err(_) if seq => status.push(b'e'),
                Err(e) => return Err(e),
            }
        }
        let _ = imp.finish();
    }
    let npages = pages.len();
    if seq && npages == 0 { return Ok(vec![status, b"0".to_vec()]); }
    let data = builder.build(CatalogBuilder::from_pages(pages)).map_err(|e| format!("build:{}", ekind(&e)))?;
    let mut out: Vec<Vec<u8>> = if seq { vec![status] } else { vec![] };
    out.push(format!("{}", npages).into_bytes());
    // typed view of the reloaded document
    if flags.contains(&b'r') {
        typed_view(&FileOptions::cached().load(data.clone()).map_err(|e| format!("reload:{}", ekind(&e)))?, npages, &old_ops, &mut out)?;
    } else {
        typed_view(&FileOptions::uncached().load(data.clone()).map_err(|e| format!("reload:{}", ekind(&e)))?, npages, &old_ops, &mut out)?;
    }
    // raw graph of the reloaded document
    let mut st = Storage::with_cache(data, ParseOptions::strict(), NoCache, NoCache, NoLog).map_err(|e| format!("reopen:{}", ekind(&e)))?;
    let tr = st.load_storage_and_trailer().map_err(|e| format!("reopen:{}", ekind(&e)))?;
    let mut objs = vec![];
    dump_objects(&st.resolver(), &mut objs);
    out.push(format!("{}", objs.len()).into_bytes());
    out.extend(objs);
    out.push(canon(&Primitive::Dictionary(tr), &st.resolver()));
    if flags.contains(&b's') {
        let mut so = Storage::with_cache(fld(f, 1).to_vec(), parse(), NoCache, NoCache, NoLog).map_err(|e| format!("src:{}", ekind(&e)))?;
        let tr = so.load_storage_and_trailer().map_err(|e| format!("src:{}", ekind(&e)))?;
        let mut objs = vec![];
        dump_objects(&so.resolver(), &mut objs);
        out.push(format!("{}", objs.len()).into_bytes());
        out.extend(objs);
        out.push(canon(&Primitive::Dictionary(tr), &so.resolver()));
    }
    Ok(out)
}

fn typed_view<OC, SC>(newf: &File<Vec<u8>, OC, SC, NoLog>, npages: usize, old_ops: &[Vec<u8>], out: &mut Vec<Vec<u8>>) -> Result<(), String>
where OC: Cache<Result<AnySync, Arc<PdfError>>>, SC: Cache<Result<Arc<[u8]>, Arc<PdfError>>>
{
    if newf.num_pages() as usize != npages { return Err(format!("reload:pagecount{}", newf.num_pages())); }
    for i in 0..npages {
        let p = newf.get_page(i as u32).map_err(|e| format!("reload-page:{}", ekind(&e)))?;
        out.push(p.media_box().map(|r| rect(&r)).unwrap_or_else(|e| format!("!{}", ekind(&e))).into_bytes());
        out.push(p.crop_box().map(|r| rect(&r)).unwrap_or_else(|e| format!("!{}", ekind(&e))).into_bytes());
        out.push(format!("{}|{}", p.trim_box.map(|r| rect(&r)).unwrap_or_else(|| "-".into()), p.rotate).into_bytes());
        out.push(old_ops[i].clone());
        let ops = match p.contents.as_ref() { Some(c) => c.operations(&newf.resolver()).map_err(|e| format!("reload-ops:{}", ekind(&e)))?, None => vec![] };
        out.push(serialize_ops(&ops).map_err(|e| format!("reload-serops:{}", ekind(&e)))?);
    }
    Ok(())
}

fn import_pages(f: &[Vec<u8>], seq: bool) -> R {
    let flags = fld(f, 3);
    match (flags.contains(&b'c'), flags.contains(&b'C')) {
        (false, false) => import_pages_with(f, FileOptions::uncached(), FileOptions::uncached(), seq),
        (true, false) => import_pages_with(f, FileOptions::cached(), FileOptions::uncached(), seq),
        (false, true) => import_pages_with(f, FileOptions::uncached(), FileOptions::cached(), seq),
        (true, true) => import_pages_with(f, FileOptions::cached(), FileOptions::cached(), seq),
    }
}

pub fn dispatch(mode: &str, f: &[Vec<u8>]) -> Option<R> {
    Some(match mode {
        "import_graph" => import_graph(f),
        "import" => import_pages(f, false),
        "import_seq" => import_pages(f, true),
        "dump" => {
            let mut st = match Storage::with_cache(fld(f, 1).to_vec(), opts_of(fld(f, 0)), NoCache, NoCache, NoLog) { Ok(s) => s, Err(e) => return Some(Err(ekind(&e))) };
            let tr = match st.load_storage_and_trailer() { Ok(t) => t, Err(e) => return Some(Err(ekind(&e))) };
            let mut out = vec![];
            dump_objects(&st.resolver(), &mut out);
            out.push(canon(&Primitive::Dictionary(tr), &st.resolver()));
            Ok(out)
        }
        _ => return None,
    })
}
