//! modes for pdf/src/build.rs (Importer / PageBuilder::clone_page / PdfBuilder::build) — property C20
//!
//! import_graph  opts file roots            -> new refs of the roots ("id,gen;…"), number of new objects, then one field per new object (canon)
//! import        opts file pages flags      -> see `import_pages`
//! dump          opts file                  -> one field per object number 1..n (canon | !Kind), trailer last
use crate::util::*;
use crate::R;
use pdf::build::{CatalogBuilder, Importer, PageBuilder, PdfBuilder};
use pdf::content::serialize_ops;
use pdf::file::{FileOptions, NoCache, NoLog, Storage};
use pdf::object::{Cloner, ParseOptions, PlainRef, Resolve};
use pdf::primitive::Primitive;

fn opts_of(b: &[u8]) -> ParseOptions {
    if b.first() == Some(&b't') { ParseOptions::tolerant() } else { ParseOptions::strict() }
}

/// "id,gen;id,gen" -> refs
fn refs_of(b: &[u8]) -> Vec<PlainRef> {
    String::from_utf8_lossy(b).split(';').filter(|s| !s.is_empty()).filter_map(|p| {
        let mut it = p.split(',');
        Some(PlainRef { id: it.next()?.trim().parse().ok()?, gen: it.next().and_then(|g| g.trim().parse().ok()).unwrap_or(0) })
    }).collect()
}
fn nums_of(b: &[u8]) -> Vec<u32> {
    String::from_utf8_lossy(b).split(',').filter(|s| !s.is_empty()).filter_map(|p| p.trim().parse().ok()).collect()
}

/// every object of a storage by number, starting at 1, until the table ends
fn dump_objects(r: &impl Resolve, out: &mut Vec<Vec<u8>>) {
    let mut id = 1u64;
    loop {
        match r.resolve(PlainRef { id, gen: 0 }) {
            Err(e) if ekind(&e) == "UnspecifiedXRefEntry" => break,
            p => out.push(canon_res(p, r)),
        }
        id += 1;
        if id > 200_000 { break }
    }
}

fn rect(r: &pdf::object::Rectangle) -> String {
    format!("{:08x},{:08x},{:08x},{:08x}", r.left.to_bits(), r.bottom.to_bits(), r.right.to_bits(), r.top.to_bits())
}

fn import_graph(f: &[Vec<u8>]) -> R {
    let mut st = Storage::with_cache(fld(f, 1).to_vec(), opts_of(fld(f, 0)), NoCache, NoCache, NoLog).map_err(|e| ekind(&e))?;
    st.load_storage_and_trailer().map_err(|e| ekind(&e))?;
    let mut new = Storage::empty(NoCache, NoCache, NoLog);
    let mut roots_out = String::new();
    {
        let mut imp = Importer::new(st.resolver(), &mut new);
        for (i, r) in refs_of(fld(f, 2)).into_iter().enumerate() {
            let n = imp.clone_plainref(r).map_err(|e| ekind(&e))?;
            if i > 0 { roots_out.push(';'); }
            roots_out.push_str(&format!("{},{}", n.id, n.gen));
        }
    }
    let mut objs = vec![];
    dump_objects(&new.resolver(), &mut objs);
    let mut out = vec![roots_out.into_bytes(), format!("{}", objs.len()).into_bytes()];
    out.extend(objs);
    Ok(out)
}

/// fields out:
///   0: number of pages imported (decimal)
///   per page i (5 fields): media box, crop box, "trim box|rotate", serialize_ops(source page ops), serialize_ops(reloaded page ops)
///   then: number of objects of the new file (decimal), one field per object 1..n (canon), the new trailer (canon),
///   then (flag 's'): number of objects of the source, one field per source object, the source trailer
fn import_pages(f: &[Vec<u8>]) -> R {
    let flags = fld(f, 3);
    let parse = || if fld(f, 0).first() == Some(&b't') { ParseOptions::tolerant() } else { ParseOptions::strict() };
    let old = FileOptions::uncached().parse_options(parse()).load(fld(f, 1).to_vec()).map_err(|e| format!("load:{}", ekind(&e)))?;
    let mut builder = PdfBuilder::new(FileOptions::uncached());
    let mut pages = vec![];
    let mut old_ops = vec![];
    {
        let mut imp = Importer::new(old.resolver(), &mut builder.storage);
        for n in nums_of(fld(f, 2)) {
            let page = old.get_page(n).map_err(|e| format!("page:{}", ekind(&e)))?;
            let ops = match page.contents.as_ref() { Some(c) => c.operations(&old.resolver()).map_err(|e| format!("ops:{}", ekind(&e)))?, None => vec![] };
            old_ops.push(serialize_ops(&ops).map_err(|e| format!("serops:{}", ekind(&e)))?);
            pages.push(PageBuilder::clone_page(&page, &mut imp).map_err(|e| if flags.contains(&b'd') { format!("clone:{:?}", e) } else { format!("clone:{}", ekind(&e)) })?);
        }
        let _ = imp.finish();
    }
    let npages = pages.len();
    let data = builder.build(CatalogBuilder::from_pages(pages)).map_err(|e| format!("build:{}", ekind(&e)))?;
    let mut out: Vec<Vec<u8>> = vec![format!("{}", npages).into_bytes()];
    // typed view of the reloaded document
    let newf = FileOptions::uncached().load(data.clone()).map_err(|e| format!("reload:{}", ekind(&e)))?;
    if newf.num_pages() as usize != npages { return Err(format!("reload:pagecount{}", newf.num_pages())); }
    for i in 0..npages {
        let p = newf.get_page(i as u32).map_err(|e| format!("reload-page:{}", ekind(&e)))?;
        out.push(p.media_box().map(|r| rect(&r)).unwrap_or_else(|e| format!("!{}", ekind(&e))).into_bytes());
        out.push(p.crop_box().map(|r| rect(&r)).unwrap_or_else(|e| format!("!{}", ekind(&e))).into_bytes());
        out.push(format!("{}|{}", p.trim_box.map(|r| rect(&r)).unwrap_or_else(|| "-".into()), p.rotate).into_bytes());
        out.push(old_ops[i].clone());
        let ops = match p.contents.as_ref() { Some(c) => c.operations(&newf.resolver()).map_err(|e| format!("reload-ops:{}", ekind(&e)))?, None => vec![] };
        out.push(serialize_ops(&ops).map_err(|e| format!("reload-serops:{}", ekind(&e)))?);
    }
    // raw graph of the reloaded document
    let mut st = Storage::with_cache(data, ParseOptions::strict(), NoCache, NoCache, NoLog).map_err(|e| format!("reopen:{}", ekind(&e)))?;
    let tr = st.load_storage_and_trailer().map_err(|e| format!("reopen:{}", ekind(&e)))?;
    let mut objs = vec![];
    dump_objects(&st.resolver(), &mut objs);
    out.push(format!("{}", objs.len()).into_bytes());
    out.extend(objs);
    out.push(canon(&Primitive::Dictionary(tr), &st.resolver()));
    if flags.contains(&b's') {
        let mut so = Storage::with_cache(fld(f, 1).to_vec(), parse(), NoCache, NoCache, NoLog).map_err(|e| format!("src:{}", ekind(&e)))?;
        let tr = so.load_storage_and_trailer().map_err(|e| format!("src:{}", ekind(&e)))?;
        let mut objs = vec![];
        dump_objects(&so.resolver(), &mut objs);
        out.push(format!("{}", objs.len()).into_bytes());
        out.extend(objs);
        out.push(canon(&Primitive::Dictionary(tr), &so.resolver()));
    }
    Ok(out)
}

pub fn dispatch(mode: &str, f: &[Vec<u8>]) -> Option<R> {
    Some(match mode {
        "import_graph" => import_graph(f),
        "import" => import_pages(f),
        "dump" => {
            let mut st = match Storage::with_cache(fld(f, 1).to_vec(), opts_of(fld(f, 0)), NoCache, NoCache, NoLog) { Ok(s) => s, Err(e) => return Some(Err(ekind(&e))) };
            let tr = match st.load_storage_and_trailer() { Ok(t) => t, Err(e) => return Some(Err(ekind(&e))) };
            let mut out = vec![];
            dump_objects(&st.resolver(), &mut out);
            out.push(canon(&Primitive::Dictionary(tr), &st.resolver()));
            Ok(out)
        }
        _ => return None,
    })
}
