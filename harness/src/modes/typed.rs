//! modes for the derived and hand-written typed objects (pdf_derive, pdf/src/object/mod.rs …): C15, C18
use crate::R;
use pdf::error::PdfError;
use pdf::file::{NoCache, NoLog, Storage};
use pdf::object::*;
use pdf::primitive::{Dictionary, PdfString, Primitive};

type St = Storage<Vec<u8>, NoCache, NoCache, NoLog>;

// ---------------------------------------------------------------------------------------------
// canonical text form: parser, and printer with sorted dictionary keys (dictionary order is not compared)

fn hexv(c: u8) -> Option<u8> {
    match c { b'0'..=b'9' => Some(c - 48), b'a'..=b'f' => Some(c - 87), _ => None }
}
fn unhex_until(s: &[u8], i: &mut usize, stop: u8) -> Option<Vec<u8>> {
    let mut out = vec![];
    loop {
        let c = *s.get(*i)?;
        if c == stop { *i += 1; return Some(out); }
        let d = *s.get(*i + 1)?;
        out.push(hexv(c)? * 16 + hexv(d)?);
        *i += 2;
    }
}
fn num(s: &[u8], i: &mut usize) -> String {
    let st = *i;
    while *i < s.len() && (s[*i].is_ascii_digit() || s[*i] == b'-') { *i += 1; }
    String::from_utf8_lossy(&s[st..*i]).into_owned()
}
fn entries(s: &[u8], i: &mut usize) -> Option<Dictionary> {
    let mut d = Dictionary::new();
    loop {
        match *s.get(*i)? {
            b'}' => { *i += 1; return Some(d); }
            b' ' => { *i += 1; }
            _ => {
                let k = unhex_until(s, i, b':')?;
                let v = uncanon_at(s, i)?;
                d.insert(std::str::from_utf8(&k).ok()?, v);
            }
        }
    }
}
fn uncanon_at(s: &[u8], i: &mut usize) -> Option<Primitive> {
    let c = *s.get(*i)?;
    *i += 1;
    Some(match c {
        b'n' => Primitive::Null,
        b't' => Primitive::Boolean(true),
        b'f' => Primitive::Boolean(false),
        b'i' => Primitive::Integer(num(s, i).parse().ok()?),
        b'r' => {
            let h = std::str::from_utf8(s.get(*i..*i + 8)?).ok()?;
            *i += 8;
            Primitive::Number(f32::from_bits(u32::from_str_radix(h, 16).ok()?))
        }
        b'N' => { let b = unhex_until(s, i, b';')?; Primitive::name(std::str::from_utf8(&b).ok()?) }
        b'S' => { let b = unhex_until(s, i, b';')?; Primitive::String(PdfString::new(b.as_slice().into())) }
        b'R' => {
            let id = num(s, i).parse().ok()?;
            if *s.get(*i)? != b',' { return None; }
            *i += 1;
            let gen = num(s, i).parse().ok()?;
            Primitive::Reference(PlainRef { id, gen })
        }
        b'[' => {
            let mut v = vec![];
            loop {
                match *s.get(*i)? {
                    b']' => { *i += 1; break; }
                    b' ' => { *i += 1; }
                    _ => v.push(uncanon_at(s, i)?),
                }
            }
            Primitive::Array(v)
        }
        b'{' => Primitive::Dictionary(entries(s, i)?),
        // a stream with generated data: built through the crate's own constructor (Stream::new over the bare
        // dictionary; to_pdf_stream sets /Length to the data's length)
        b's' => {
            if *s.get(*i)? != b'{' { return None; }
            *i += 1;
            let d = entries(s, i)?;
            let data = unhex_until(s, i, b';')?;
            let st = Stream::new(d, data).to_pdf_stream(&mut NoUpdate).ok()?;
            Primitive::Stream(st)
        }
        _ => return None,
    })
}
pub fn uncanon(s: &[u8]) -> Option<Primitive> {
    let mut i = 0;
    let p = uncanon_at(s, &mut i)?;
    if i == s.len() { Some(p) } else { None }
}

fn hexs(b: &[u8], out: &mut String) { for x in b { out.push_str(&format!("{:02x}", x)); } }
fn canon_dict_sorted(d: &Dictionary, out: &mut String) {
    let mut items: Vec<(&[u8], &Primitive)> = d.iter().map(|(k, v)| (k.as_str().as_bytes(), v)).collect();
    items.sort_by(|a, b| a.0.cmp(b.0));
    out.push('{');
    for (n, (k, v)) in items.iter().enumerate() {
        if n > 0 { out.push(' '); }
        hexs(k, out);
        out.push(':');
        canon_sorted(v, out);
    }
    out.push('}');
}
fn canon_sorted(p: &Primitive, out: &mut String) {
    match p {
        Primitive::Null => out.push('n'),
        Primitive::Boolean(true) => out.push('t'),
        Primitive::Boolean(false) => out.push('f'),
        Primitive::Integer(i) => out.push_str(&format!("i{}", i)),
        Primitive::Number(x) => out.push_str(&format!("r{:08x}", x.to_bits())),
        Primitive::Name(s) => { out.push('N'); hexs(s.as_str().as_bytes(), out); out.push(';'); }
        Primitive::String(s) => { out.push('S'); hexs(s.as_bytes(), out); out.push(';'); }
        Primitive::Reference(x) => out.push_str(&format!("R{},{}", x.id, x.gen)),
        Primitive::Array(a) => {
            out.push('[');
            for (i, v) in a.iter().enumerate() { if i > 0 { out.push(' '); } canon_sorted(v, out); }
            out.push(']');
        }
        Primitive::Dictionary(d) => canon_dict_sorted(d, out),
        Primitive::Stream(s) => {
            out.push('s');
            canon_dict_sorted(&s.info, out);
            match s.raw_data(&NoResolve) { Ok(d) => { hexs(&d, out); out.push(';'); } Err(_) => out.push_str("?;") }
        }
    }
}
fn cs(p: &Primitive) -> Vec<u8> { let mut s = String::new(); canon_sorted(p, &mut s); s.into_bytes() }

/// error chain text (mirrors Typed/Run.v chain_text)
fn chain(e: &PdfError) -> String {
    match e {
        PdfError::NullRef { .. } => "NullRef".into(),
        PdfError::FreeObject { .. } => "FreeObject".into(),
        PdfError::UnspecifiedXRefEntry { .. } => "Unspecified".into(),
        PdfError::UnexpectedPrimitive { .. } => "Unexpected".into(),
        PdfError::KeyValueMismatch { .. } => "KeyValue".into(),
        PdfError::UnknownVariant { .. } => "UnknownVariant".into(),
        PdfError::Other { .. } => "Other".into(),
        PdfError::NoOpArg => "NoOpArg".into(),
        PdfError::Parse { .. } | PdfError::Encoding { .. } => "Parse".into(),
        PdfError::Reference => "Reference".into(),
        PdfError::NoneError { .. } => "NoneError".into(),
        PdfError::WrongDictionaryType { .. } => "WrongType".into(),
        PdfError::MissingEntry { field, .. } => format!("Missing({})", field),
        PdfError::Try { source, .. } => format!("Try>{}", chain(source)),
        PdfError::Shared { source } => format!("Shared>{}", chain(source)),
        PdfError::FromPrimitive { field, source, .. } => format!("FP({})>{}", field, chain(source)),
        other => format!("?{}", crate::util::ekind(other)),
    }
}

// ---------------------------------------------------------------------------------------------
// one from_primitive -> to_primitive step on a storage

fn created(st: &St, from: usize) -> Vec<u8> {
    // objects created by the writer: ids from..len, read back through the resolver
    let r = st.resolver();
    let mut v = vec![];
    let mut id = from as u64;
    loop {
        match r.resolve(PlainRef { id, gen: 0 }) {
            Ok(p) => v.push(p),
            Err(_) => break,
        }
        id += 1;
    }
    cs(&Primitive::Array(v))
}

/// returns the fields of this step and, when both halves succeeded, the written primitive
fn step_rw<T: Object + ObjectWrite>(st: &mut St, p: Primitive, next_id: &mut usize, allow: bool) -> (Vec<Vec<u8>>, Option<Primitive>) {
    let _ = allow;
    let v = { let r = st.resolver(); T::from_primitive(p, &r) };
    match v {
        Err(e) => (vec![chain(&e).into_bytes()], None),
        Ok(v) => match v.to_primitive(st) {
            Err(e) => (vec![b"ok".to_vec(), format!("!{}", chain(&e)).into_bytes()], None),
            Ok(q) => {
                let c = created(st, *next_id);
                // advance past the objects just created
                let r = st.resolver();
                while r.resolve(PlainRef { id: *next_id as u64, gen: 0 }).is_ok() { *next_id += 1; }
                (vec![b"ok".to_vec(), cs(&q), c], Some(q))
            }
        },
    }
}
fn step_r<T: Object>(st: &mut St, p: Primitive) -> Vec<Vec<u8>> {
    let r = st.resolver();
    match T::from_primitive(p, &r) {
        Err(e) => vec![chain(&e).into_bytes()],
        Ok(_) => vec![b"ok".to_vec(), vec![], vec![]],
    }
}

fn roundtrip<T: Object + ObjectWrite>(st: &mut St, p: Primitive, next_id: usize) -> R {
    let mut next = next_id;
    let (mut out, q) = step_rw::<T>(st, p, &mut next, false);
    if let Some(q) = q {
        let (o2, _) = step_rw::<T>(st, q, &mut next, false);
        out.extend(o2);
    }
    Ok(out)
}

/// a value as the builder / importer makes it: the typed fields only, nothing carried in the catch-all (`#[pdf(other)]`) field
trait Fresh { fn clear_other(&mut self); }
macro_rules! fresh { ( $( $t:ty : $f:ident ),* $(,)? ) => { $( impl Fresh for $t { fn clear_other(&mut self) { self.$f = Dictionary::new(); } } )* } }
fresh! { Page: other, PostScriptDict: other, ImageDict: other, FormDict: other, SeedValueDictionary: other, SignatureDictionary: other,
         SignatureReferenceDictionary: other, Annot: other, FieldDictionary: other, pdf::font::CIDFont: _other }

/// read the dictionary, empty the catch-all field, write; then the ordinary read -> write step on what was written.
/// Fields as typed_roundtrip: r1 w1 c1 r2 w2 c2
fn roundtrip_fresh<T: Object + ObjectWrite + Fresh>(st: &mut St, p: Primitive, next_id: usize) -> R {
    let mut next = next_id;
    let v = { let r = st.resolver(); T::from_primitive(p, &r) };
    let mut v = match v { Ok(v) => v, Err(e) => return Ok(vec![chain(&e).into_bytes()]) };
    v.clear_other();
    let q = match v.to_primitive(st) { Ok(q) => q, Err(e) => return Ok(vec![b"ok".to_vec(), format!("!{}", chain(&e)).into_bytes()]) };
    let c = created(st, next);
    { let r = st.resolver(); while r.resolve(PlainRef { id: next as u64, gen: 0 }).is_ok() { next += 1; } }
    let mut out = vec![b"ok".to_vec(), cs(&q), c];
    let (o2, _) = step_rw::<T>(st, q, &mut next, false);
    out.extend(o2);
    Ok(out)
}
fn do_fresh(name: &str, st: &mut St, p: Primitive, next: usize) -> Option<R> {
    Some(match name {
        "Page" => roundtrip_fresh::<Page>(st, p, next),
        "PostScriptDict" => roundtrip_fresh::<PostScriptDict>(st, p, next),
        "ImageDict" => roundtrip_fresh::<ImageDict>(st, p, next),
        "FormDict" => roundtrip_fresh::<FormDict>(st, p, next),
        "SeedValueDictionary" => roundtrip_fresh::<SeedValueDictionary>(st, p, next),
        "SignatureDictionary" => roundtrip_fresh::<SignatureDictionary>(st, p, next),
        "SignatureReferenceDictionary" => roundtrip_fresh::<SignatureReferenceDictionary>(st, p, next),
        "Annot" => roundtrip_fresh::<Annot>(st, p, next),
        "FieldDictionary" => roundtrip_fresh::<FieldDictionary>(st, p, next),
        "CIDFont" => roundtrip_fresh::<pdf::font::CIDFont>(st, p, next),
        _ => return None,
    })
}

/// stream dictionaries: StreamInfo<T>::from_primitive -> Stream<T> (no data) -> to_pdf_stream -> its dictionary
fn step_stream<T: Object + ObjectWrite>(st: &mut St, p: Primitive) -> (Vec<Vec<u8>>, Option<Primitive>) {
    let v = { let r = st.resolver(); StreamInfo::<T>::from_primitive(p, &r) };
    match v {
        Err(e) => (vec![chain(&e).into_bytes()], None),
        Ok(si) => {
            let StreamInfo { filters, file, file_filters, info } = si;
            let mut s = Stream::new(info, Vec::<u8>::new());
            s.info.filters = filters;
            s.info.file = file;
            s.info.file_filters = file_filters;
            match s.to_pdf_stream(st) {
                Err(e) => (vec![b"ok".to_vec(), format!("!{}", chain(&e)).into_bytes()], None),
                Ok(ps) => {
                    let q = Primitive::Dictionary(ps.info);
                    (vec![b"ok".to_vec(), cs(&q), b"[]".to_vec()], Some(q))
                }
            }
        }
    }
}
fn roundtrip_stream<T: Object + ObjectWrite>(st: &mut St, p: Primitive) -> R {
    let (mut out, q) = step_stream::<T>(st, p);
    if let Some(q) = q {
        let (o2, _) = step_stream::<T>(st, q);
        out.extend(o2);
    }
    Ok(out)
}
fn do_stream(name: &str, st: &mut St, p: Primitive) -> Option<R> {
    Some(match name {
        "Stream<()>" => roundtrip_stream::<()>(st, p),
        "Stream<ImageDict>" => roundtrip_stream::<ImageDict>(st, p),
        "Stream<FormDict>" => roundtrip_stream::<FormDict>(st, p),
        "Stream<FontStream3>" => roundtrip_stream::<pdf::font::FontStream3>(st, p),
        "Stream<EmbeddedFile>" => roundtrip_stream::<EmbeddedFile>(st, p),
        _ => return None,
    })
}
const STREAM_NAMES: [&str; 5] = ["Stream<()>", "Stream<ImageDict>", "Stream<FormDict>", "Stream<FontStream3>", "Stream<EmbeddedFile>"];

fn storage_with(objs: &[Vec<u8>]) -> Option<St> {
    let mut st: St = Storage::empty(NoCache, NoCache, NoLog);
    for o in objs {
        let p = uncanon(o)?;
        st.create(p).ok()?;
    }
    Some(st)
}

fn file_storage(file: &[u8], tolerant: bool) -> Result<St, String> {
    let opts = if tolerant { ParseOptions::tolerant() } else { ParseOptions::strict() };
    let mut st = Storage::with_cache(file.to_vec(), opts, NoCache, NoCache, NoLog).map_err(|e| chain(&e))?;
    st.load_storage_and_trailer().map_err(|e| chain(&e))?;
    Ok(st)
}

/// the comparison dictionary: d without the key, or (key field `key=<canon>`) d with that value under the key
fn split_key(key: &str) -> (&str, Option<Primitive>) {
    match key.find('=') {
        Some(i) => (&key[..i], uncanon(key[i + 1..].as_bytes())),
        None => (key, None),
    }
}
fn base_dict(d: &Dictionary, key: &str, alt: Option<Primitive>) -> Dictionary {
    let mut b = Dictionary::new();
    for (k, v) in d.iter() { if k.as_str() != key { b.insert(k.clone(), v.clone()); } }
    if let Some(q) = alt { b.insert(key, q); }
    b
}
fn dangling<T: Object + ObjectWrite>(st: &mut St, d: &Dictionary, key: &str, r: Primitive) -> R {
    let n = st_len(st);
    let (key, alt) = split_key(key);
    let mut a = d.clone();
    a.insert(key, r);
    let mut next = n;
    let (mut out, _) = step_rw::<T>(st, Primitive::Dictionary(a), &mut next, false);
    let b = base_dict(d, key, alt);
    out.push(b"|".to_vec());
    let (o2, _) = step_rw::<T>(st, Primitive::Dictionary(b), &mut next, false);
    out.extend(o2);
    Ok(out)
}
fn dangling_r<T: Object>(st: &mut St, d: &Dictionary, key: &str, r: Primitive) -> R {
    let (key, alt) = split_key(key);
    let mut a = d.clone();
    a.insert(key, r);
    let mut out = step_r::<T>(st, Primitive::Dictionary(a));
    let b = base_dict(d, key, alt);
    out.push(b"|".to_vec());
    out.extend(step_r::<T>(st, Primitive::Dictionary(b)));
    Ok(out)
}
/// first id the writer will allocate = number of entries of the table: probe upwards for the first
/// number whose resolution fails with UnspecifiedXRefEntry
fn st_len(st: &St) -> usize {
    let r = st.resolver();
    let mut id = 0u64;
    loop {
        match r.resolve(PlainRef { id, gen: 0 }) {
            Err(e) if crate::util::ekind(&e) == "UnspecifiedXRefEntry" => return id as usize,
            _ => id += 1,
        }
        if id > 100000 { return id as usize; }
    }
}

// ---------------------------------------------------------------------------------------------
// type dispatch.  The list is compared with the extracted schema list by the plugin (mode typed_types).

macro_rules! types {
    ( rw: [ $( $n:literal => $t:ty ),* $(,)? ], r: [ $( $rn:literal => $rt:ty ),* $(,)? ] ) => {
        fn names() -> Vec<&'static str> { vec![ $( $n, )* $( $rn, )* ] }
        fn do_roundtrip(name: &str, st: &mut St, p: Primitive, next: usize) -> Option<R> {
            match name { $( $n => Some(roundtrip::<$t>(st, p, next)), )* _ => None }
        }
        fn do_dangling(name: &str, st: &mut St, d: &Dictionary, key: &str, r: Primitive) -> Option<R> {
            match name {
                $( $n => Some(dangling::<$t>(st, d, key, r)), )*
                $( $rn => Some(dangling_r::<$rt>(st, d, key, r)), )*
                _ => None }
        }
    };
}

types! {
  rw: [
    "CryptDict" => pdf::crypt::CryptDict,
    "CryptFilter" => pdf::crypt::CryptFilter,
    "LZWFlateParams" => pdf::enc::LZWFlateParams,
    "DCTDecodeParams" => pdf::enc::DCTDecodeParams,
    "CCITTFaxDecodeParams" => pdf::enc::CCITTFaxDecodeParams,
    "JBIG2DecodeParams" => pdf::enc::JBIG2DecodeParams,
    "Trailer" => pdf::file::Trailer,
    "TFont" => pdf::font::TFont,
    "Type0Font" => pdf::font::Type0Font,
    "CIDFont" => pdf::font::CIDFont,
    "FontDescriptor" => pdf::font::FontDescriptor,
    "FontStream3" => pdf::font::FontStream3,
    "XRefInfo" => pdf::xref::XRefInfo,
    "IccInfo" => IccInfo,
    "Catalog" => Catalog,
    "PageTree" => PageTree,
    "Page" => Page,
    "PageLabel" => PageLabel,
    "Resources" => Resources,
    "PatternDict" => PatternDict,
    "GraphicsStateParameters" => GraphicsStateParameters,
    "PostScriptDict" => PostScriptDict,
    "ImageDict" => ImageDict,
    "FormDict" => FormDict,
    "InteractiveFormDictionary" => InteractiveFormDictionary,
    "SeedValueDictionary" => SeedValueDictionary,
    "SignatureDictionary" => SignatureDictionary,
    "SignatureReferenceDictionary" => SignatureReferenceDictionary,
    "Annot" => Annot,
    "FieldDictionary" => FieldDictionary,
    "AppearanceStreams" => AppearanceStreams,
    "LageLabel" => LageLabel,
    "NameDictionary" => NameDictionary,
    "FileSpec" => FileSpec,
    "EmbeddedFile" => EmbeddedFile,
    "EmbeddedFileParamDict" => EmbeddedFileParamDict,
    "Outlines" => Outlines,
    "MarkInformation" => MarkInformation,
    "StructTreeRoot" => StructTreeRoot,
    "StructElem" => StructElem,
    "InfoDict" => InfoDict,
    "Files<Ref<Stream<EmbeddedFile>>>" => Files<Ref<Stream<EmbeddedFile>>>,
    "Date" => pdf::primitive::Date,
    "Rectangle" => Rectangle,
    "Matrix" => pdf::content::Matrix,
    // containers on their own (object/mod.rs impls): arrays of optionals / of untyped primitives, nested
    "Vec<Option<i32>>" => Vec<Option<i32>>,
    "Vec<Primitive>" => Vec<Primitive>,
    "Vec<Option<Dictionary>>" => Vec<Option<Dictionary>>,
    "Vec<Option<Vec<Option<i32>>>>" => Vec<Option<Vec<Option<i32>>>>,
    "Option<Vec<Primitive>>" => Option<Vec<Primitive>>,
    "Vec<Option<Name>>" => Vec<Option<pdf::primitive::Name>>,
    "PagesRc" => PagesRc,
    "Action" => Action,
    "Dest" => Dest,
    "MaybeNamedDest" => MaybeNamedDest,
    "NameTree<Primitive>" => NameTree<Primitive>,
    "NumberTree<PageLabel>" => NumberTree<PageLabel>,
    "Font" => pdf::font::Font,
    "Encoding" => pdf::encoding::Encoding,
    // every other hand-written Object/ObjectWrite pair of the crate, on its own
    "BaseEncoding" => pdf::encoding::BaseEncoding,
    "FontType" => pdf::font::FontType,
    "ColorSpace" => ColorSpace,
    "Function" => Function,
    "CidToGidMap" => pdf::font::CidToGidMap,
    "Pattern" => Pattern,
    "AppearanceStreamEntry" => AppearanceStreamEntry,
    "XObject" => XObject,
    "ImageXObject" => ImageXObject,
    "FormXObject" => pdf::content::FormXObject,
    "Content" => pdf::content::Content,
    "PdfStream" => pdf::primitive::PdfStream,
    "PageRc" => PageRc,
    "PagesNode" => PagesNode,
    "NumberTree<i32>" => NumberTree<i32>,
    "NameTree<i32>" => NameTree<i32>,
    "i32" => i32,
    "u32" => u32,
    "usize" => usize,
    "f32" => f32,
    "bool" => bool,
    "Name" => pdf::primitive::Name,
    "PdfString" => PdfString,
    "Primitive" => Primitive,
    "Dictionary" => Dictionary,
    "PlainRef" => PlainRef,
    "()" => (),
    "Ref<Dictionary>" => Ref<Dictionary>,
    "RcRef<Dictionary>" => RcRef<Dictionary>,
    "MaybeRef<Dictionary>" => MaybeRef<Dictionary>,
    "MaybeRef<i32>" => MaybeRef<i32>,
    "Lazy<Dictionary>" => Lazy<Dictionary>,
    "Box<i32>" => Box<i32>,
    "Option<i32>" => Option<i32>,
    "Option<Name>" => Option<pdf::primitive::Name>,
    "HashMap<Name,i32>" => std::collections::HashMap<pdf::primitive::Name, i32>,
    "HashMap<Name,Option<i32>>" => std::collections::HashMap<pdf::primitive::Name, Option<i32>>,
    "(i32,Name)" => (i32, pdf::primitive::Name),
    "(f32,f32)" => (f32, f32),
    "Vec<i32>" => Vec<i32>,
    "Vec<f32>" => Vec<f32>,
    "Vec<Name>" => Vec<pdf::primitive::Name>,
    "Vec<u32>" => Vec<u32>,
  ],
  r: [
    "ObjStmInfo" => ObjStmInfo,
    "OutlineItem" => OutlineItem,
  ]
}

pub fn dispatch(mode: &str, f: &[Vec<u8>]) -> Option<R> {
    let s = |i: usize| std::str::from_utf8(crate::util::fld(f, i)).unwrap_or("").to_string();
    Some(match mode {
        // the type names this harness can dispatch (one field each)
        "typed_types" => Ok(names().iter().chain(STREAM_NAMES.iter()).map(|n| n.as_bytes().to_vec()).collect()),
        // type, value (canon), objects 1..n (canon)  ->  r1 w1 c1 r2 w2 c2
        "typed_roundtrip" => {
            let p = match uncanon(crate::util::fld(f, 1)) { Some(p) => p, None => return Some(Err("BadCanon".into())) };
            let objs = if f.len() > 2 { &f[2..] } else { &[][..] };
            let mut st = match storage_with(objs) { Some(s) => s, None => return Some(Err("BadCanon".into())) };
            if s(0).starts_with("Stream<") {
                match do_stream(&s(0), &mut st, p) { Some(r) => r, None => return Some(Err("UnknownType".into())) }
            } else {
                match do_roundtrip(&s(0), &mut st, p, objs.len() + 1) { Some(r) => r, None => return Some(Err("UnknownType".into())) }
            }
        }
        // type, value (canon), objects 1..n (canon)  ->  r1 w1 c1 r2 w2 c2, the first write from the value with its catch-all field emptied
        "typed_fresh" => {
            let p = match uncanon(crate::util::fld(f, 1)) { Some(p) => p, None => return Some(Err("BadCanon".into())) };
            let objs = if f.len() > 2 { &f[2..] } else { &[][..] };
            let mut st = match storage_with(objs) { Some(s) => s, None => return Some(Err("BadCanon".into())) };
            match do_fresh(&s(0), &mut st, p, objs.len() + 1) { Some(r) => r, None => return Some(Err("UnknownType".into())) }
        }
        // opts, type, dictionary (canon), key, reference (canon), file  ->  rA wA cA | rB wB cB
        "dangling" => {
            let d = match uncanon(crate::util::fld(f, 2)) { Some(Primitive::Dictionary(d)) => d, _ => return Some(Err("BadCanon".into())) };
            let r = match uncanon(crate::util::fld(f, 4)) { Some(p) => p, None => return Some(Err("BadCanon".into())) };
            let mut st = match file_storage(crate::util::fld(f, 5), s(0) == "t") { Ok(s) => s, Err(e) => return Some(Err(format!("File:{}", e))) };
            match do_dangling(&s(1), &mut st, &d, &s(3), r) { Some(r) => r, None => return Some(Err("UnknownType".into())) }
        }
        _ => return None,
    })
}
