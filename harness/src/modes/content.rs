//! modes for pdf/src/content.rs (property C08)
//!
//! canonical encoding of an operation list: one atom per field, prefix notation (see
//! coq/theories/Content/Canon.v and tools/oracle/optable.py):
//!   F<8 hex f32 bits>  I<dec>  N<name bytes>  S<string bytes>  Z  Bt/Bf  A<n> …  D<n> (N<key> value)…
//!   W0/W1  O0 / O1 <prim>  L<n>  CG/CR/CK/CO  x<inline image data>; an operation = constructor name + fields
use crate::util::*;
use crate::R;
use pdf::content::*;
use pdf::object::{NoResolve, RenderingIntent};
use pdf::primitive::{Dictionary, Name, PdfString, Primitive};

struct Cur<'a> { f: &'a [Vec<u8>], i: usize }
type D<T> = Result<T, String>;

impl<'a> Cur<'a> {
    fn next(&mut self) -> D<&'a [u8]> {
        let a = self.f.get(self.i).ok_or_else(|| "canon: truncated".to_string())?;
        self.i += 1;
        Ok(&a[..])
    }
    fn tagged(&mut self, t: u8) -> D<&'a [u8]> {
        let a = self.next()?;
        if a.first() == Some(&t) { Ok(&a[1..]) } else { Err(format!("canon: expected tag {}", t as char)) }
    }
    fn fl(&mut self) -> D<f32> {
        let a = self.tagged(b'F')?;
        let s = std::str::from_utf8(a).map_err(|_| "canon: float".to_string())?;
        u32::from_str_radix(s, 16).map(f32::from_bits).map_err(|_| "canon: float".to_string())
    }
    fn name(&mut self) -> D<Name> {
        let a = self.tagged(b'N')?;
        Ok(Name::from(std::str::from_utf8(a).map_err(|_| "canon: name not utf-8".to_string())?))
    }
    fn string(&mut self) -> D<PdfString> { Ok(PdfString::new(self.tagged(b'S')?.into())) }
    fn int(&mut self) -> D<i64> {
        let a = self.tagged(b'I')?;
        std::str::from_utf8(a).ok().and_then(|s| s.parse::<i64>().ok()).ok_or_else(|| "canon: int".to_string())
    }
    fn count(&mut self, t: u8) -> D<usize> {
        let a = self.tagged(t)?;
        std::str::from_utf8(a).ok().and_then(|s| s.parse::<usize>().ok()).ok_or_else(|| "canon: count".to_string())
    }
    fn point(&mut self) -> D<Point> { Ok(Point { x: self.fl()?, y: self.fl()? }) }
    fn matrix(&mut self) -> D<Matrix> {
        Ok(Matrix { a: self.fl()?, b: self.fl()?, c: self.fl()?, d: self.fl()?, e: self.fl()?, f: self.fl()? })
    }
    fn winding(&mut self) -> D<Winding> {
        match self.next()? { b"W0" => Ok(Winding::EvenOdd), b"W1" => Ok(Winding::NonZero), _ => Err("canon: winding".into()) }
    }
    fn prim(&mut self) -> D<Primitive> {
        let a = self.next()?;
        let (t, body) = a.split_first().ok_or_else(|| "canon: empty atom".to_string())?;
        let num = |b: &[u8]| std::str::from_utf8(b).ok().and_then(|s| s.parse::<i64>().ok()).ok_or_else(|| "canon: number".to_string());
        Ok(match t {
            b'Z' => Primitive::Null,
            b'B' => Primitive::Boolean(body == b"t"),
            b'I' => Primitive::Integer(num(body)? as i32),
            b'F' => {
                let s = std::str::from_utf8(body).map_err(|_| "canon: float".to_string())?;
                Primitive::Number(f32::from_bits(u32::from_str_radix(s, 16).map_err(|_| "canon: float".to_string())?))
            }
            b'N' => Primitive::Name(std::str::from_utf8(body).map_err(|_| "canon: name not utf-8".to_string())?.into()),
            b'S' => Primitive::String(PdfString::new(body.into())),
            b'A' => {
                let n = num(body)? as usize;
                let mut v = Vec::new();
                for _ in 0..n { v.push(self.prim()?); }
                Primitive::Array(v)
            }
            b'D' => {
                let n = num(body)? as usize;
                let mut d = Dictionary::new();
                for _ in 0..n { let k = self.name()?; let v = self.prim()?; d.insert(k, v); }
                Primitive::Dictionary(d)
            }
            _ => return Err("canon: prim tag".into()),
        })
    }
    fn opt(&mut self) -> D<Option<Primitive>> {
        match self.next()? { b"O0" => Ok(None), b"O1" => Ok(Some(self.prim()?)), _ => Err("canon: option".into()) }
    }
    fn color(&mut self) -> D<Color> {
        Ok(match self.next()? {
            b"CG" => Color::Gray(self.fl()?),
            b"CR" => Color::Rgb(Rgb { red: self.fl()?, green: self.fl()?, blue: self.fl()? }),
            b"CK" => Color::Cmyk(Cmyk { cyan: self.fl()?, magenta: self.fl()?, yellow: self.fl()?, key: self.fl()? }),
            b"CO" => { let n = self.count(b'L')?; let mut v = Vec::new(); for _ in 0..n { v.push(self.prim()?); } Color::Other(v) }
            _ => return Err("canon: color".into()),
        })
    }
    fn op(&mut self) -> D<Op> {
        let c = self.next()?;
        Ok(match c {
            b"BeginMarkedContent" => Op::BeginMarkedContent { tag: self.name()?, properties: self.opt()? },
            b"EndMarkedContent" => Op::EndMarkedContent,
            b"MarkedContentPoint" => Op::MarkedContentPoint { tag: self.name()?, properties: self.opt()? },
            b"Close" => Op::Close,
            b"MoveTo" => Op::MoveTo { p: self.point()? },
            b"LineTo" => Op::LineTo { p: self.point()? },
            b"CurveTo" => Op::CurveTo { c1: self.point()?, c2: self.point()?, p: self.point()? },
            b"Rect" => Op::Rect { rect: ViewRect { x: self.fl()?, y: self.fl()?, width: self.fl()?, height: self.fl()? } },
            b"EndPath" => Op::EndPath,
            b"Stroke" => Op::Stroke,
            b"FillAndStroke" => Op::FillAndStroke { winding: self.winding()? },
            b"Fill" => Op::Fill { winding: self.winding()? },
            b"Shade" => Op::Shade { name: self.name()? },
            b"Clip" => Op::Clip { winding: self.winding()? },
            b"Save" => Op::Save,
            b"Restore" => Op::Restore,
            b"Transform" => Op::Transform { matrix: self.matrix()? },
            b"LineWidth" => Op::LineWidth { width: self.fl()? },
            b"Dash" => { let n = self.count(b'L')?; let mut v = Vec::new(); for _ in 0..n { v.push(self.fl()?); } Op::Dash { pattern: v, phase: self.fl()? } }
            b"LineJoin" => Op::LineJoin { join: match self.int()? { 0 => LineJoin::Miter, 1 => LineJoin::Round, 2 => LineJoin::Bevel, _ => return Err("canon: join".into()) } },
            b"LineCap" => Op::LineCap { cap: match self.int()? { 0 => LineCap::Butt, 1 => LineCap::Round, 2 => LineCap::Square, _ => return Err("canon: cap".into()) } },
            b"MiterLimit" => Op::MiterLimit { limit: self.fl()? },
            b"Flatness" => Op::Flatness { tolerance: self.fl()? },
            b"GraphicsState" => Op::GraphicsState { name: self.name()? },
            b"StrokeColor" => Op::StrokeColor { color: self.color()? },
            b"FillColor" => Op::FillColor { color: self.color()? },
            b"FillColorSpace" => Op::FillColorSpace { name: self.name()? },
            b"StrokeColorSpace" => Op::StrokeColorSpace { name: self.name()? },
            b"RenderingIntent" => Op::RenderingIntent { intent: match self.tagged(b'N')? {
                b"AbsoluteColorimetric" => RenderingIntent::AbsoluteColorimetric,
                b"RelativeColorimetric" => RenderingIntent::RelativeColorimetric,
                b"Saturation" => RenderingIntent::Saturation,
                b"Perceptual" => RenderingIntent::Perceptual,
                _ => return Err("canon: intent".into()) } },
            b"BeginText" => Op::BeginText,
            b"EndText" => Op::EndText,
            b"CharSpacing" => Op::CharSpacing { char_space: self.fl()? },
            b"WordSpacing" => Op::WordSpacing { word_space: self.fl()? },
            b"TextScaling" => Op::TextScaling { horiz_scale: self.fl()? },
            b"Leading" => Op::Leading { leading: self.fl()? },
            b"TextFont" => Op::TextFont { name: self.name()?, size: self.fl()? },
            b"TextRenderMode" => Op::TextRenderMode { mode: match self.int()? {
                0 => TextMode::Fill, 1 => TextMode::Stroke, 2 => TextMode::FillThenStroke, 3 => TextMode::Invisible,
                4 => TextMode::FillAndClip, 5 => TextMode::StrokeAndClip, 6 => TextMode::FillThenStrokeAndClip, 7 => TextMode::Clip, _ => return Err("canon: text mode".into()) } },
            b"TextRise" => Op::TextRise { rise: self.fl()? },
            b"MoveTextPosition" => Op::MoveTextPosition { translation: self.point()? },
            b"SetTextMatrix" => Op::SetTextMatrix { matrix: self.matrix()? },
            b"TextNewline" => Op::TextNewline,
            b"TextDraw" => Op::TextDraw { text: self.string()? },
            b"TextDrawAdjusted" => {
                let n = self.count(b'L')?;
                let mut v = Vec::new();
                for _ in 0..n {
                    let a = self.next()?;
                    match a.first() {
                        Some(b'S') => v.push(TextDrawAdjusted::Text(PdfString::new(a[1..].into()))),
                        Some(b'F') => { self.i -= 1; v.push(TextDrawAdjusted::Spacing(self.fl()?)); }
                        _ => return Err("canon: TJ item".into()),
                    }
                }
                Op::TextDrawAdjusted { array: v }
            }
            b"XObject" => Op::XObject { name: self.name()? },
            _ => return Err(format!("canon: constructor {}", String::from_utf8_lossy(c))),
        })
    }
}

fn decode_ops(f: &[Vec<u8>]) -> D<Vec<Op>> {
    let mut c = Cur { f, i: 0 };
    let mut ops = Vec::new();
    while c.i < f.len() { ops.push(c.op()?); }
    Ok(ops)
}

// ---- encoder -----------------------------------------------------------------------------------
fn a(out: &mut Vec<Vec<u8>>, s: &str) { out.push(s.as_bytes().to_vec()); }
fn tagged(out: &mut Vec<Vec<u8>>, t: u8, b: &[u8]) { let mut v = vec![t]; v.extend_from_slice(b); out.push(v); }
fn fl(out: &mut Vec<Vec<u8>>, x: f32) { out.push(format!("F{:08x}", x.to_bits()).into_bytes()); }
fn prim(out: &mut Vec<Vec<u8>>, p: &Primitive) {
    match p {
        Primitive::Null => a(out, "Z"),
        Primitive::Boolean(b) => a(out, if *b { "Bt" } else { "Bf" }),
        Primitive::Integer(i) => a(out, &format!("I{}", i)),
        Primitive::Number(x) => fl(out, *x),
        Primitive::Name(n) => tagged(out, b'N', n.as_str().as_bytes()),
        Primitive::String(s) => tagged(out, b'S', s.as_bytes()),
        Primitive::Array(v) => { a(out, &format!("A{}", v.len())); for x in v { prim(out, x); } }
        Primitive::Dictionary(d) => {
            a(out, &format!("D{}", d.len()));
            for (k, v) in d.iter() { tagged(out, b'N', k.as_str().as_bytes()); prim(out, v); }
        }
        Primitive::Reference(r) => a(out, &format!("R{},{}", r.id, r.gen)),
        Primitive::Stream(_) => a(out, "?stream"),
    }
}
fn opt(out: &mut Vec<Vec<u8>>, p: &Option<Primitive>) {
    match p { None => a(out, "O0"), Some(p) => { a(out, "O1"); prim(out, p); } }
}
fn wind(out: &mut Vec<Vec<u8>>, w: Winding) { a(out, match w { Winding::EvenOdd => "W0", Winding::NonZero => "W1" }); }
fn pt(out: &mut Vec<Vec<u8>>, p: Point) { fl(out, p.x); fl(out, p.y); }
fn mat(out: &mut Vec<Vec<u8>>, m: Matrix) { for x in [m.a, m.b, m.c, m.d, m.e, m.f] { fl(out, x); } }
fn color(out: &mut Vec<Vec<u8>>, c: &Color) {
    match c {
        Color::Gray(g) => { a(out, "CG"); fl(out, *g); }
        Color::Rgb(c) => { a(out, "CR"); fl(out, c.red); fl(out, c.green); fl(out, c.blue); }
        Color::Cmyk(c) => { a(out, "CK"); fl(out, c.cyan); fl(out, c.magenta); fl(out, c.yellow); fl(out, c.key); }
        Color::Other(v) => { a(out, "CO"); a(out, &format!("L{}", v.len())); for p in v { prim(out, p); } }
    }
}
fn name(out: &mut Vec<Vec<u8>>, n: &Name) { tagged(out, b'N', n.as_str().as_bytes()); }

/// the inline image as the key-expanded dictionary (sorted by key) and its data; what the typed ImageDict
/// keeps of Width / Height / Filter / Intent is put back under those keys
fn inline_image(out: &mut Vec<Vec<u8>>, image: &pdf::object::ImageXObject) {
    use pdf::enc::StreamFilter as F;
    let info = &image.inner.info;
    let d = &info.info;
    let mut ents: Vec<(String, Vec<Vec<u8>>)> = Vec::new();
    for (k, v) in d.other.iter() { let mut o = Vec::new(); prim(&mut o, v); ents.push((k.as_str().to_string(), o)); }
    ents.push(("Width".into(), vec![format!("I{}", d.width).into_bytes()]));
    ents.push(("Height".into(), vec![format!("I{}", d.height).into_bytes()]));
    if !info.filters.is_empty() {
        let mut o = vec![format!("A{}", info.filters.len()).into_bytes()];
        for f in &info.filters {
            let n = match f {
                F::ASCIIHexDecode => "ASCIIHexDecode", F::ASCII85Decode => "ASCII85Decode", F::LZWDecode(_) => "LZWDecode",
                F::FlateDecode(_) => "FlateDecode", F::JPXDecode => "JPXDecode", F::DCTDecode(_) => "DCTDecode",
                F::CCITTFaxDecode(_) => "CCITTFaxDecode", F::JBIG2Decode(_) => "JBIG2Decode", F::Crypt => "Crypt",
                F::RunLengthDecode => "RunLengthDecode",
            };
            o.push(format!("N{}", n).into_bytes());
        }
        ents.push(("Filter".into(), o));
    }
    if let Some(i) = d.intent { ents.push(("Intent".into(), vec![format!("N{}", i.to_str()).into_bytes()])); }
    ents.sort_by(|x, y| x.0.cmp(&y.0));
    a(out, &format!("D{}", ents.len()));
    for (k, v) in ents { tagged(out, b'N', k.as_bytes()); out.extend(v); }
    // Stream::data applies the filters; the raw bytes are only observable for an unfiltered image
    match image.inner.data(&NoResolve) { Ok(data) => tagged(out, b'x', &data[..]), Err(_) => a(out, "x?") }
}

fn encode_ops(ops: &[Op]) -> Vec<Vec<u8>> {
    let mut o: Vec<Vec<u8>> = Vec::new();
    let out = &mut o;
    for op in ops {
        match op {
            Op::BeginMarkedContent { tag, properties } => { a(out, "BeginMarkedContent"); name(out, tag); opt(out, properties); }
            Op::EndMarkedContent => a(out, "EndMarkedContent"),
            Op::MarkedContentPoint { tag, properties } => { a(out, "MarkedContentPoint"); name(out, tag); opt(out, properties); }
            Op::Close => a(out, "Close"),
            Op::MoveTo { p } => { a(out, "MoveTo"); pt(out, *p); }
            Op::LineTo { p } => { a(out, "LineTo"); pt(out, *p); }
            Op::CurveTo { c1, c2, p } => { a(out, "CurveTo"); pt(out, *c1); pt(out, *c2); pt(out, *p); }
            Op::Rect { rect } => { a(out, "Rect"); fl(out, rect.x); fl(out, rect.y); fl(out, rect.width); fl(out, rect.height); }
            Op::EndPath => a(out, "EndPath"),
            Op::Stroke => a(out, "Stroke"),
            Op::FillAndStroke { winding } => { a(out, "FillAndStroke"); wind(out, *winding); }
            Op::Fill { winding } => { a(out, "Fill"); wind(out, *winding); }
            Op::Shade { name: n } => { a(out, "Shade"); name(out, n); }
            Op::Clip { winding } => { a(out, "Clip"); wind(out, *winding); }
            Op::Save => a(out, "Save"),
            Op::Restore => a(out, "Restore"),
            Op::Transform { matrix } => { a(out, "Transform"); mat(out, *matrix); }
            Op::LineWidth { width } => { a(out, "LineWidth"); fl(out, *width); }
            Op::Dash { pattern, phase } => { a(out, "Dash"); a(out, &format!("L{}", pattern.len())); for x in pattern { fl(out, *x); } fl(out, *phase); }
            Op::LineJoin { join } => { a(out, "LineJoin"); a(out, &format!("I{}", *join as u8)); }
            Op::LineCap { cap } => { a(out, "LineCap"); a(out, &format!("I{}", *cap as u8)); }
            Op::MiterLimit { limit } => { a(out, "MiterLimit"); fl(out, *limit); }
            Op::Flatness { tolerance } => { a(out, "Flatness"); fl(out, *tolerance); }
            Op::GraphicsState { name: n } => { a(out, "GraphicsState"); name(out, n); }
            Op::StrokeColor { color: c } => { a(out, "StrokeColor"); color(out, c); }
            Op::FillColor { color: c } => { a(out, "FillColor"); color(out, c); }
            Op::FillColorSpace { name: n } => { a(out, "FillColorSpace"); name(out, n); }
            Op::StrokeColorSpace { name: n } => { a(out, "StrokeColorSpace"); name(out, n); }
            Op::RenderingIntent { intent } => { a(out, "RenderingIntent"); a(out, &format!("N{}", intent.to_str())); }
            Op::BeginText => a(out, "BeginText"),
            Op::EndText => a(out, "EndText"),
            Op::CharSpacing { char_space } => { a(out, "CharSpacing"); fl(out, *char_space); }
            Op::WordSpacing { word_space } => { a(out, "WordSpacing"); fl(out, *word_space); }
            Op::TextScaling { horiz_scale } => { a(out, "TextScaling"); fl(out, *horiz_scale); }
            Op::Leading { leading } => { a(out, "Leading"); fl(out, *leading); }
            Op::TextFont { name: n, size } => { a(out, "TextFont"); name(out, n); fl(out, *size); }
            Op::TextRenderMode { mode } => { a(out, "TextRenderMode"); a(out, &format!("I{}", *mode as u8)); }
            Op::TextRise { rise } => { a(out, "TextRise"); fl(out, *rise); }
            Op::MoveTextPosition { translation } => { a(out, "MoveTextPosition"); pt(out, *translation); }
            Op::SetTextMatrix { matrix } => { a(out, "SetTextMatrix"); mat(out, *matrix); }
            Op::TextNewline => a(out, "TextNewline"),
            Op::TextDraw { text } => { a(out, "TextDraw"); tagged(out, b'S', text.as_bytes()); }
            Op::TextDrawAdjusted { array } => {
                a(out, "TextDrawAdjusted");
                a(out, &format!("L{}", array.len()));
                for x in array {
                    match x { TextDrawAdjusted::Text(t) => tagged(out, b'S', t.as_bytes()), TextDrawAdjusted::Spacing(s) => fl(out, *s) }
                }
            }
            Op::XObject { name: n } => { a(out, "XObject"); name(out, n); }
            Op::InlineImage { image } => { a(out, "InlineImage"); inline_image(out, image); }
        }
    }
    o
}

pub fn dispatch(mode: &str, f: &[Vec<u8>]) -> Option<R> {
    Some(match mode {
        // canonical operation list -> bytes written by serialize_ops
        "ops_serialize" => match decode_ops(f) {
            Ok(ops) => serialize_ops(&ops).map(|v| vec![v]).map_err(|e| ekind(&e)),
            Err(_) => return None,
        },
        // content stream bytes -> canonical operation list
        // ops_parse_bytes: the same call; the model of this mode reads the bytes itself (Content/Bytes.v)
        "ops_parse" | "ops_parse_bytes" => parse_ops(fld(f, 0), &NoResolve).map(|ops| encode_ops(&ops)).map_err(|e| ekind(&e)),
        // canonical operation list -> serialize_ops -> parse_ops -> canonical operation list
        "ops_roundtrip" => match decode_ops(f) {
            Ok(ops) => serialize_ops(&ops).and_then(|v| parse_ops(&v, &NoResolve)).map(|ops| encode_ops(&ops)).map_err(|e| ekind(&e)),
            Err(_) => return None,
        },
        // Content::from_ops (the constructor used by page builders) then Content::operations
        "ops_content" => match decode_ops(f) {
            Ok(ops) => Content::from_ops(ops).operations(&NoResolve).map(|ops| encode_ops(&ops)).map_err(|e| ekind(&e)),
            Err(_) => return None,
        },
        _ => return None,
    })
}
