//! modes for pdf/src/parser (lexer, string lexers, parser) and Primitive::serialize
use crate::util::*;
use crate::R;
use pdf::parser::{Lexer, StringLexer, HexStringLexer, ParseFlags, parse_with_lexer, parse_indirect_object};
use pdf::object::{Resolve, PlainRef, ParseOptions, Ref, RcRef, Object};
use pdf::primitive::{Primitive, Dictionary, PdfString, PdfStream, Name};
use pdf::enc::StreamFilter;
use pdf::error::{PdfError, Result};
use std::sync::Arc;
use std::ops::Range;

/// resolver over the case's own buffer: stream data is the slice; integer objects from a table
pub struct SliceResolve<'a> { pub data: &'a [u8], pub ints: Vec<(u64, i32)>, pub opts: ParseOptions }
impl<'a> Resolve for SliceResolve<'a> {
    fn resolve_flags(&self, r: PlainRef, _flags: ParseFlags, _depth: usize) -> Result<Primitive> {
        match self.ints.iter().find(|p| p.0 == r.id) { Some(p) => Ok(Primitive::Integer(p.1)), None => Err(PdfError::Reference) }
    }
    fn get<T: Object + datasize::DataSize>(&self, _r: Ref<T>) -> Result<RcRef<T>> { Err(PdfError::Reference) }
    fn options(&self) -> &ParseOptions { &self.opts }
    fn stream_data(&self, _id: PlainRef, range: Range<usize>) -> Result<Arc<[u8]>> {
        self.data.get(range).map(|s| s.into()).ok_or(PdfError::EOF)
    }
    fn get_data_or_decode(&self, _: PlainRef, _: Range<usize>, _: &[StreamFilter]) -> Result<Arc<[u8]>> { Err(PdfError::Reference) }
}
fn ints_of(b: &[u8]) -> Vec<(u64, i32)> {
    let s = String::from_utf8_lossy(b);
    s.split(',').filter(|x| !x.is_empty()).filter_map(|p| { let mut it = p.split(':'); Some((it.next()?.parse().ok()?, it.next()?.parse().ok()?)) }).collect()
}
fn opts_of(b: &[u8]) -> ParseOptions { if b.first() == Some(&b't') { ParseOptions::tolerant() } else { ParseOptions::strict() } }

// ---- reader of the canon text form (for `serialize`); reals as r<8 hex bits>
struct Rd<'a> { s: &'a [u8], i: usize }
impl<'a> Rd<'a> {
    fn peek(&self) -> Option<u8> { self.s.get(self.i).cloned() }
    fn num(&mut self) -> i128 {
        let st = self.i;
        while let Some(c) = self.peek() { if c.is_ascii_digit() || c == b'-' { self.i += 1 } else { break } }
        std::str::from_utf8(&self.s[st..self.i]).ok().and_then(|x| x.parse().ok()).unwrap_or(0)
    }
    fn hex(&mut self) -> Vec<u8> {
        let mut v = vec![];
        while self.i + 1 < self.s.len() {
            let h = (self.s[self.i] as char).to_digit(16); let l = (self.s[self.i + 1] as char).to_digit(16);
            match (h, l) { (Some(h), Some(l)) => { v.push((h * 16 + l) as u8); self.i += 2 } _ => break }
        }
        v
    }
    fn dict(&mut self) -> Option<Dictionary> {
        let mut d = Dictionary::new();
        loop {
            match self.peek()? {
                b'}' => { self.i += 1; return Some(d) }
                b' ' => { self.i += 1 }
                _ => {
                    let k = self.hex();
                    if self.peek()? != b':' { return None }
                    self.i += 1;
                    let v = self.val()?;
                    d.insert(Name(String::from_utf8(k).ok()?.into()), v);
                }
            }
        }
    }
    fn val(&mut self) -> Option<Primitive> {
        let c = self.peek()?; self.i += 1;
        Some(match c {
            b'n' => Primitive::Null, b't' => Primitive::Boolean(true), b'f' => Primitive::Boolean(false),
            b'i' => Primitive::Integer(self.num() as i32),
            b'r' => { let h = std::str::from_utf8(self.s.get(self.i..self.i + 8)?).ok()?; self.i += 8; Primitive::Number(f32::from_bits(u32::from_str_radix(h, 16).ok()?)) }
            b'N' => { let b = self.hex(); self.i += 1; Primitive::Name(String::from_utf8(b).ok()?.into()) }
            b'S' => { let b = self.hex(); self.i += 1; Primitive::String(PdfString::new(b.as_slice().into())) }
            b'R' => { let id = self.num() as u64; self.i += 1; let gen = self.num() as u64; Primitive::Reference(PlainRef { id, gen }) }
            b'[' => { let mut v = vec![]; loop { match self.peek()? { b']' => { self.i += 1; break } b' ' => { self.i += 1 } _ => v.push(self.val()?) } } Primitive::Array(v) }
            b'{' => Primitive::Dictionary(self.dict()?),
            b'p' => { self.i += 1; let d = self.dict()?; let data = self.hex(); self.i += 1; Primitive::Stream(pending(d, data)?) }
            _ => return None,
        })
    }
}
fn pending(d: Dictionary, data: Vec<u8>) -> Option<PdfStream> {
    let mut p = pdf::object::Stream::new((), data).to_pdf_stream(&mut pdf::object::NoUpdate).ok()?;
    p.info = d;
    Some(p)
}
pub fn prim_of_canon(b: &[u8]) -> Option<Primitive> { Rd { s: b, i: 0 }.val() }

pub fn dispatch(mode: &str, f: &[Vec<u8>]) -> Option<R> {
    Some(match mode {
        "lex" => {
            let mut lx = Lexer::new(fld(f, 0));
            let mut out = vec![];
            while let Ok(t) = lx.next() { out.push(t.to_vec()); }
            Ok(out)
        }
        "strlex" => {
            let mut l = StringLexer::new(fld(f, 0));
            let mut s = vec![];
            for c in l.iter() { match c { Ok(c) => s.push(c), Err(e) => return Some(Err(ekind(&e))) } }
            Ok(vec![s, l.get_offset().to_string().into_bytes()])
        }
        "hexlex" => {
            let mut l = HexStringLexer::new(fld(f, 0));
            let mut s = vec![];
            for c in l.iter() { match c { Ok(c) => s.push(c), Err(e) => return Some(Err(ekind(&e))) } }
            Ok(vec![s, l.get_offset().to_string().into_bytes()])
        }
        "parse" => {
            let data = fld(f, 1);
            let r = SliceResolve { data, ints: ints_of(fld(f, 2)), opts: ParseOptions::strict() };
            let flags = ParseFlags::from_bits_truncate(dec(fld(f, 0)) as u16);
            let mut lx = Lexer::new(data);
            match parse_with_lexer(&mut lx, &r, flags) {
                Ok(p) => Ok(vec![canon(&p, &r), lx.get_pos().to_string().into_bytes()]),
                Err(e) => Err(ekind(&e)),
            }
        }
        "parse_seq" => {
            let data = fld(f, 0);
            let r = SliceResolve { data, ints: vec![], opts: ParseOptions::strict() };
            let mut lx = Lexer::new(data);
            let mut out = vec![];
            while let Ok(p) = parse_with_lexer(&mut lx, &r, ParseFlags::ANY) {
                out.push(canon(&p, &r));
                out.push(lx.get_pos().to_string().into_bytes());
            }
            Ok(out)
        }
        "parse_indirect" => {
            let data = fld(f, 1);
            let r = SliceResolve { data, ints: ints_of(fld(f, 2)), opts: opts_of(fld(f, 0)) };
            let mut lx = Lexer::new(data);
            match parse_indirect_object(&mut lx, &r, None, ParseFlags::ANY) {
                Ok((id, p)) => Ok(vec![id.id.to_string().into_bytes(), id.gen.to_string().into_bytes(), canon(&p, &r), lx.get_pos().to_string().into_bytes()]),
                Err(e) => Err(ekind(&e)),
            }
        }
        "serialize" => {
            let p = match prim_of_canon(fld(f, 0)) { Some(p) => p, None => return Some(Err("BADCANON".into())) };
            let mut out = vec![];
            match p.serialize(&mut out) { Ok(()) => Ok(vec![out]), Err(e) => Err(ekind(&e)) }
        }
        // serialize, append a suffix, parse back with the real parser: canon + position
        "ser_parse" => {
            let p = match prim_of_canon(fld(f, 0)) { Some(p) => p, None => return Some(Err("BADCANON".into())) };
            let mut out = vec![];
            if let Err(e) = p.serialize(&mut out) { return Some(Err(ekind(&e))); }
            let n = out.len();
            out.extend_from_slice(fld(f, 1));
            let r = SliceResolve { data: &out, ints: vec![], opts: ParseOptions::strict() };
            let mut lx = Lexer::new(&out);
            match parse_with_lexer(&mut lx, &r, ParseFlags::ANY) {
                Ok(q) => { let p = lx.get_pos(); Ok(vec![canon(&q, &r), p.to_string().into_bytes(), n.to_string().into_bytes(), out.get(p..n).map(|x| x.to_vec()).unwrap_or_default()]) }
                Err(e) => Err(ekind(&e)),
            }
        }
        // the value as the body of a new indirect object, written by the real writer (Updater::create + Storage::save), then the
        // file re-loaded and the object resolved; fields out: value, id, gen, the bytes the writer appended in front of the xref section
        "save_value" => {
            use pdf::file::{Storage, NoCache, NoLog, Trailer};
            use pdf::object::Updater;
            let p = match prim_of_canon(fld(f, 0)) { Some(p) => p, None => return Some(Err("BADCANON".into())) };
            let base = fld(f, 1).to_vec();
            let n0 = base.len();
            let mut st = match Storage::with_cache(base, ParseOptions::strict(), NoCache, NoCache, NoLog) { Ok(s) => s, Err(e) => return Some(Err(ekind(&e))) };
            let td = match st.load_storage_and_trailer() { Ok(t) => t, Err(e) => return Some(Err(ekind(&e))) };
            let mut trailer = match Trailer::from_primitive(Primitive::Dictionary(td), &st.resolver()) { Ok(t) => t, Err(e) => return Some(Err(ekind(&e))) };
            let r = match st.create(p) { Ok(rc) => rc.get_ref().get_inner(), Err(e) => return Some(Err(ekind(&e))) };
            let bytes = match st.save(&mut trailer) { Ok(b) => b.to_vec(), Err(e) => return Some(Err(ekind(&e))) };
            // startxref <pos> %%EOF : the appended object text is bytes[n0 .. pos]
            let tail = &bytes[bytes.len().saturating_sub(64)..];
            let k = match tail.windows(9).rposition(|w| w == b"startxref") { Some(k) => k, None => return Some(Err("NOSTARTXREF".into())) };
            let num: String = tail[k + 9..].iter().skip_while(|c| c.is_ascii_whitespace()).take_while(|c| c.is_ascii_digit()).map(|&c| c as char).collect();
            let pos: usize = match num.parse() { Ok(n) => n, Err(_) => return Some(Err("BADSTARTXREF".into())) };
            let text = bytes.get(n0..pos).map(|x| x.to_vec()).unwrap_or_default();
            let st2 = match Storage::with_cache(bytes, ParseOptions::strict(), NoCache, NoCache, NoLog) { Ok(s) => s, Err(e) => return Some(Err(ekind(&e))) };
            let mut st2 = st2;
            if let Err(e) = st2.load_storage_and_trailer() { return Some(Err(ekind(&e))); }
            let rs = st2.resolver();
            match rs.resolve(r) {
                Ok(q) => Ok(vec![canon(&q, &rs), r.id.to_string().into_bytes(), r.gen.to_string().into_bytes(), text]),
                Err(e) => Err(ekind(&e)),
            }
        }
        _ => return None,
    })
}
