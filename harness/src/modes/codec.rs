//! modes for pdf/src/enc.rs
use crate::util::*;
use crate::R;
use pdf::enc::*;

fn params(pred: i128, colors: i128, columns: i128, bpc: i128, early: i128) -> LZWFlateParams {
    LZWFlateParams {
        predictor: pred as i32,
        n_components: colors as i32,
        bits_per_component: bpc as i32,
        columns: columns as i32,
        early_change: early as i32,
    }
}

/// filter spec: name[:pred:colors:columns:bpc:early]
fn filter_of(spec: &[u8]) -> Option<StreamFilter> {
    let s = std::str::from_utf8(spec).ok()?;
    let mut it = s.split(':');
    let name = it.next()?;
    let nums: Vec<i128> = it.map(|x| x.parse::<i128>().unwrap_or(0)).collect();
    let g = |i: usize, d: i128| nums.get(i).cloned().unwrap_or(d);
    let p = params(g(0, 1), g(1, 1), g(2, 1), g(3, 8), g(4, 1));
    Some(match name {
        "hex" => StreamFilter::ASCIIHexDecode,
        "a85" => StreamFilter::ASCII85Decode,
        "rle" => StreamFilter::RunLengthDecode,
        "lzw" => StreamFilter::LZWDecode(p),
        "flate" => StreamFilter::FlateDecode(p),
        _ => return None,
    })
}

pub fn dispatch(mode: &str, f: &[Vec<u8>]) -> Option<R> {
    let one = |r: pdf::error::Result<Vec<u8>>| -> R { r.map(|v| vec![v]).map_err(|e| ekind(&e)) };
    Some(match mode {
        "hexdec" => one(decode_hex(fld(f, 0))),
        "hexenc" => one(encode(fld(f, 0), &StreamFilter::ASCIIHexDecode)),
        "a85dec" => one(decode_85(fld(f, 0))),
        "a85enc" => one(encode(fld(f, 0), &StreamFilter::ASCII85Decode)),
        "rledec" => one(run_length_decode(fld(f, 0))),
        // predictor colors columns bpc zlib-data   (the model takes the inflated data in field 4)
        "unpredict" => {
            let p = params(dec(fld(f, 0)), dec(fld(f, 1)), dec(fld(f, 2)), dec(fld(f, 3)), 1);
            one(flate_decode(fld(f, 4), &p))
        }
        // file object-number: Stream::data of that stream object (dictionary names the chain)
        "streamdata" => {
            use pdf::file::{Storage, NoCache, NoLog};
            use pdf::object::{ParseOptions, PlainRef, Resolve, Stream};
            use pdf::primitive::Primitive;
            let mut st = match Storage::with_cache(fld(f, 0).to_vec(), ParseOptions::strict(), NoCache, NoCache, NoLog) {
                Ok(s) => s, Err(e) => return Some(Err(ekind(&e))) };
            if let Err(e) = st.load_storage_and_trailer() { return Some(Err(ekind(&e))); }
            let r = st.resolver();
            let prim = match r.resolve(PlainRef { id: dec(fld(f, 1)) as u64, gen: 0 }) {
                Ok(p) => p, Err(e) => return Some(Err(ekind(&e))) };
            let s = match prim {
                Primitive::Stream(s) => s,
                _ => return Some(Err("NotAStream".into())) };
            let stream = match Stream::<()>::from_stream(s, &r) { Ok(s) => s, Err(e) => return Some(Err(ekind(&e))) };
            one(stream.data(&r).map(|d| d.to_vec()))
        }
        // filterspec data
        "enc" => match filter_of(fld(f, 0)) { Some(fl) => one(encode(fld(f, 1), &fl)), None => return None },
        "dec" => match filter_of(fld(f, 0)) { Some(fl) => one(decode(fld(f, 1), &fl)), None => return None },
        // encode then decode with the same filter
        "encdec" => match filter_of(fld(f, 0)) {
            Some(fl) => one(encode(fld(f, 1), &fl).and_then(|e| decode(&e, &fl))),
            None => return None },
        // chain of filters (fields 0..n-1 are specs, applied in stream order), last field data
        "decchain" => {
            let n = f.len();
            if n == 0 { return None; }
            let mut data = f[n - 1].clone();
            for spec in &f[..n - 1] {
                let fl = match filter_of(spec) { Some(x) => x, None => return None };
                data = match decode(&data, &fl) { Ok(d) => d, Err(e) => return Some(Err(ekind(&e))) };
            }
            Ok(vec![data])
        }
        _ => return None,
    })
}
