//! modes for pdf/src/enc.rs
use crate::util::*;
use crate::R;
use pdf::enc::*;

fn params(pred: i128, colors: i128, columns: i128, bpc: i128, early: i128) -> LZWFlateParams {
    LZWFlateParams {
        predictor: pred as i32,
        n_components: colors as i32,
        bits_per_component: bpc as i32,
        columns: columns as i32,
        early_change: early as i32,
    }
}

pub fn dispatch(mode: &str, f: &[Vec<u8>]) -> Option<R> {
    let one = |r: pdf::error::Result<Vec<u8>>| -> R { r.map(|v| vec![v]).map_err(|e| ekind(&e)) };
    Some(match mode {
        "hexdec" => one(decode_hex(fld(f, 0))),
        "hexenc" => one(encode(fld(f, 0), &StreamFilter::ASCIIHexDecode)),
        "a85dec" => one(decode_85(fld(f, 0))),
        "a85enc" => one(encode(fld(f, 0), &StreamFilter::ASCII85Decode)),
        "rledec" => one(run_length_decode(fld(f, 0))),
        // predictor colors columns inflated zlib
        "unpredict" => {
            let p = params(dec(fld(f, 0)), dec(fld(f, 1)), dec(fld(f, 2)), 8, 1);
            one(flate_decode(fld(f, 4), &p))
        }
        _ => return None,
    })
}
