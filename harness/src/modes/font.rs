//! modes for pdf/src/font.rs (property C19): glyph widths, UTF-16BE, ToUnicode CMap writer / reader
use crate::util::*;
use crate::R;
use pdf::file::{Storage, NoCache, NoLog};
use pdf::font::{Font, ToUnicodeMap, write_cmap, utf16be_to_string, verif_parse_cmap};
use pdf::object::{Object, ParseOptions, PlainRef, Resolve};
use pdf::primitive::Name;

/// entry: 2 bytes code (big endian) + 3 bytes per scalar value
fn entry_of(f: &[u8]) -> Option<(u16, String)> {
    if f.len() < 2 || (f.len() - 2) % 3 != 0 { return None; }
    let cid = u16::from_be_bytes([f[0], f[1]]);
    let mut s = String::new();
    for c in f[2..].chunks_exact(3) {
        s.push(char::from_u32(((c[0] as u32) << 16) | ((c[1] as u32) << 8) | c[2] as u32)?);
    }
    Some((cid, s))
}
fn print_entry(cid: u16, s: &str) -> Vec<u8> {
    let mut v = cid.to_be_bytes().to_vec();
    for c in s.chars() {
        let u = c as u32;
        v.extend_from_slice(&[(u >> 16) as u8, (u >> 8) as u8, u as u8]);
    }
    v
}
fn map_of(f: &[Vec<u8>]) -> Option<ToUnicodeMap> {
    let mut pairs = vec![];
    for e in f { pairs.push(entry_of(e)?); }
    Some(ToUnicodeMap::create(pairs.into_iter().map(|(c, s)| (c, Name::from(s.as_str()).0))))
}
fn print_map(m: &ToUnicodeMap) -> Vec<Vec<u8>> {
    let mut l: Vec<(u16, &str)> = m.iter().collect();
    l.sort();
    l.into_iter().map(|(c, s)| print_entry(c, s)).collect()
}

pub fn dispatch(mode: &str, f: &[Vec<u8>]) -> Option<R> {
    Some(match mode {
        // file, object number of the font dictionary, codes (4 bytes each, big endian)
        //   ->  "N" | "S", f32 bit patterns (4 bytes each) of widths(&resolver)?.get(code)
        "widths" => {
            let mut st = match Storage::with_cache(f[0].clone(), ParseOptions::strict(), NoCache, NoCache, NoLog) {
                Ok(s) => s, Err(e) => return Some(Err(ekind(&e))) };
            if let Err(e) = st.load_storage_and_trailer() { return Some(Err(ekind(&e))); }
            let r = st.resolver();
            let id = dec(fld(f, 1)) as u64;
            let p = match r.resolve(PlainRef { id, gen: 0 }) { Ok(p) => p, Err(e) => return Some(Err(ekind(&e))) };
            let font = match Font::from_primitive(p, &r) { Ok(x) => x, Err(e) => return Some(Err(ekind(&e))) };
            match font.widths(&r) {
                Err(e) => Err(ekind(&e)),
                Ok(None) => Ok(vec![b"N".to_vec()]),
                Ok(Some(w)) => {
                    let mut out = vec![];
                    for c in fld(f, 2).chunks_exact(4) {
                        let code = u32::from_be_bytes([c[0], c[1], c[2], c[3]]) as usize;
                        out.extend_from_slice(&w.get(code).to_bits().to_be_bytes());
                    }
                    Ok(vec![b"S".to_vec(), out])
                }
            }
        }
        // file, object number of the font dictionary -> entries of font.to_unicode(&resolver), sorted by code
        "font_tounicode" => {
            let mut st = match Storage::with_cache(f[0].clone(), ParseOptions::strict(), NoCache, NoCache, NoLog) {
                Ok(s) => s, Err(e) => return Some(Err(ekind(&e))) };
            if let Err(e) = st.load_storage_and_trailer() { return Some(Err(ekind(&e))); }
            let r = st.resolver();
            let id = dec(fld(f, 1)) as u64;
            let p = match r.resolve(PlainRef { id, gen: 0 }) { Ok(p) => p, Err(e) => return Some(Err(ekind(&e))) };
            let font = match Font::from_primitive(p, &r) { Ok(x) => x, Err(e) => return Some(Err(ekind(&e))) };
            match font.to_unicode(&r) {
                None => Err("NoToUnicode".into()),
                Some(Err(e)) => Err(ekind(&e)),
                Some(Ok(m)) => Ok(print_map(&m)),
            }
        }
        // entries -> text written by write_cmap
        "cmap_write" => match map_of(f) {
            Some(m) => Ok(vec![write_cmap(&m).into_bytes()]),
            None => return None },
        // text -> entries read by parse_cmap, sorted by code
        "cmap_read" => match verif_parse_cmap(fld(f, 0)) {
            Ok(m) => Ok(print_map(&m)),
            Err(e) => Err(ekind(&e)) },
        // entries -> write_cmap -> parse_cmap -> entries
        "cmap_rt" => match map_of(f) {
            Some(m) => match verif_parse_cmap(write_cmap(&m).as_bytes()) {
                Ok(m2) => Ok(print_map(&m2)),
                Err(e) => Err(ekind(&e)) },
            None => return None },
        // UTF-16BE bytes -> scalar values (3 bytes each)
        "utf16dec" => match utf16be_to_string(fld(f, 0)) {
            Ok(s) => Ok(vec![print_entry(0, s.as_str())[2..].to_vec()]),
            Err(e) => Err(ekind(&e)) },
        _ => return None,
    })
}
