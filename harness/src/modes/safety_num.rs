//! modes for the numeric-parameter sites of C14 (Safety area): each mode feeds parameters straight into the
//! public entry point that uses them and reports value / error / panic.  Model counterparts (Safety/RunNum.v) exist for
//! the sites of this area: num_ps, num_diff, num_fnload, num_tree.  The modes of sites owned by other areas — num_objstm,
//! num_widths, num_crypt, num_pages, num_xref (and num_fax, num_fnapply) — are judged spec-only ("a value or an error");
//! the models of those sites and their correspondence live in the owning areas (objstm, widths, crypt_open, page_query, xr_stream).
use crate::util::*;
use crate::R;
use pdf::object::{Object, NoResolve, Function, PsFunc, ObjectStream, ParseOptions, Resolve};
use pdf::primitive::{Primitive, Dictionary, PdfString};
use pdf::encoding::Encoding;
use pdf::font::Font;
use pdf::crypt::{CryptDict, Decoder};
use pdf::enc::{CCITTFaxDecodeParams, fax_decode};
use pdf::file::{FileOptions, Storage, NoCache, NoLog};
use super::syn::prim_of_canon;

fn ints(b: &[u8]) -> Vec<i128> {
    String::from_utf8_lossy(b).split(',').filter(|x| !x.is_empty()).filter_map(|x| x.parse::<i128>().ok()).collect()
}
fn e<T>(r: pdf::error::Result<T>) -> Result<T, String> { r.map_err(|x| ekind(&x)) }
fn num(n: i128) -> Vec<u8> { n.to_string().into_bytes() }
/// integral f32 -> decimal, anything else -> "x"
fn fint(x: f32) -> String { if x.is_finite() && x.fract() == 0.0 { format!("{}", x as i128) } else { "x".into() } }

pub fn dispatch(mode: &str, f: &[Vec<u8>]) -> Option<R> {
    Some(match mode {
        // canon(dict | p{dict}data;)  ->  in_dim out_dim
        "num_fnload" => {
            let p = match prim_of_canon(fld(f, 0)) { Some(p) => p, None => return Some(Err("BADCANON".into())) };
            match Function::from_primitive(p, &NoResolve) {
                Ok(func) => Ok(vec![num(func.input_dim() as i128), num(func.output_dim() as i128)]),
                Err(x) => Err(ekind(&x)),
            }
        }
        // canon, xs (decimal ints, comma separated), n_out  ->  (no fields)
        "num_fnapply" => {
            let p = match prim_of_canon(fld(f, 0)) { Some(p) => p, None => return Some(Err("BADCANON".into())) };
            let func = match Function::from_primitive(p, &NoResolve) { Ok(x) => x, Err(x) => return Some(Err(format!("load:{}", ekind(&x)))) };
            let xs: Vec<f32> = ints(fld(f, 1)).iter().map(|&i| i as f32).collect();
            let mut out = vec![0.0f32; dec(fld(f, 2)) as usize];
            match func.apply(&xs, &mut out) { Ok(()) => Ok(vec![]), Err(x) => Err(ekind(&x)) }
        }
        // program text, inputs, n_out -> outputs (decimal, comma separated)
        "num_ps" => {
            let s = match std::str::from_utf8(fld(f, 0)) { Ok(s) => s, Err(_) => return Some(Err("UTF8".into())) };
            let func = match PsFunc::parse(s) { Ok(x) => x, Err(x) => return Some(Err(format!("parse:{}", ekind(&x)))) };
            let xs: Vec<f32> = ints(fld(f, 1)).iter().map(|&i| i as f32).collect();
            let mut out = vec![0.0f32; dec(fld(f, 2)) as usize];
            match func.exec(&xs, &mut out) {
                Ok(()) => Ok(vec![out.iter().map(|&x| fint(x)).collect::<Vec<_>>().join(",").into_bytes()]),
                Err(x) => Err(ekind(&x)) }
        }
        // items: "i<code>" | "n", comma separated  ->  count, sorted codes
        "num_diff" => {
            let mut arr = vec![];
            let mut k = 0;
            for it in String::from_utf8_lossy(fld(f, 0)).split(',').filter(|x| !x.is_empty()) {
                if let Some(c) = it.strip_prefix('i') { arr.push(Primitive::Integer(c.parse::<i32>().unwrap_or(0))); }
                else { arr.push(Primitive::Name(format!("g{}", k).into())); k += 1; }
            }
            let mut d = Dictionary::new();
            d.insert("Differences", Primitive::Array(arr));
            match Encoding::from_primitive(Primitive::Dictionary(d), &NoResolve) {
                Ok(enc) => { let mut ks: Vec<u32> = enc.differences.keys().cloned().collect(); ks.sort();
                             Ok(vec![num(ks.len() as i128), ks.iter().map(|k| k.to_string()).collect::<Vec<_>>().join(",").into_bytes()]) }
                Err(x) => Err(ekind(&x)),
            }
        }
        // canon of the /W array, DW  ->  (no fields)
        "num_widths" => {
            let w = match prim_of_canon(fld(f, 0)) { Some(p) => p, None => return Some(Err("BADCANON".into())) };
            let mut d = Dictionary::new();
            d.insert("Type", Primitive::name("Font"));
            d.insert("Subtype", Primitive::name("CIDFontType2"));
            d.insert("BaseFont", Primitive::name("F"));
            d.insert("CIDSystemInfo", Primitive::Dictionary(Dictionary::new()));
            let mut fd = Dictionary::new();
            fd.insert("Type", Primitive::name("FontDescriptor"));
            fd.insert("FontName", Primitive::name("F"));
            fd.insert("Flags", Primitive::Integer(4));
            fd.insert("FontBBox", Primitive::Array(vec![Primitive::Integer(0), Primitive::Integer(0), Primitive::Integer(1000), Primitive::Integer(1000)]));
            fd.insert("ItalicAngle", Primitive::Integer(0));
            d.insert("FontDescriptor", Primitive::Dictionary(fd));
            d.insert("W", w);
            d.insert("DW", Primitive::Integer(dec(fld(f, 1)) as i32));
            let font = match Font::from_primitive(Primitive::Dictionary(d), &NoResolve) { Ok(x) => x, Err(x) => return Some(Err(format!("load:{}", ekind(&x)))) };
            match font.widths(&NoResolve) { Ok(_) => Ok(vec![]), Err(x) => Err(ekind(&x)) }
        }
        // V R Length cf_method("-"|"V2"|"AESV2"|"AESV3") cf_length("-"|n)  ->  never OK with the empty password unless U matches
        "num_crypt" => {
            let mut d = Dictionary::new();
            d.insert("Filter", Primitive::name("Standard"));
            d.insert("V", Primitive::Integer(dec(fld(f, 0)) as i32));
            d.insert("R", Primitive::Integer(dec(fld(f, 1)) as i32));
            if fld(f, 2) != b"-" { d.insert("Length", Primitive::Integer(dec(fld(f, 2)) as i32)); }
            d.insert("P", Primitive::Integer(-44));
            d.insert("O", Primitive::String(PdfString::new(vec![7u8; 32].as_slice().into())));
            d.insert("U", Primitive::String(PdfString::new(vec![9u8; 32].as_slice().into())));
            if fld(f, 3) != b"-" {
                let mut cf = Dictionary::new();
                cf.insert("CFM", Primitive::name(String::from_utf8_lossy(fld(f, 3)).to_string()));
                if fld(f, 4) != b"-" { cf.insert("Length", Primitive::Integer(dec(fld(f, 4)) as i32)); }
                let mut cfs = Dictionary::new();
                cfs.insert("StdCF", Primitive::Dictionary(cf));
                d.insert("CF", Primitive::Dictionary(cfs));
                d.insert("StmF", Primitive::name("StdCF"));
                d.insert("StrF", Primitive::name("StdCF"));
            }
            let cd = match CryptDict::from_primitive(Primitive::Dictionary(d), &NoResolve) { Ok(x) => x, Err(x) => return Some(Err(format!("load:{}", ekind(&x)))) };
            match Decoder::from_password(&cd, b"0123456789abcdef", b"") { Ok(_) => Ok(vec![]), Err(x) => Err(ekind(&x)) }
        }
        // N First data index -> start end
        "num_objstm" => {
            let mut d = Dictionary::new();
            d.insert("Type", Primitive::name("ObjStm"));
            d.insert("N", Primitive::Integer(dec(fld(f, 0)) as i32));
            d.insert("First", Primitive::Integer(dec(fld(f, 1)) as i32));
            d.insert("Length", Primitive::Integer(fld(f, 2).len() as i32));
            let mut ps = match pdf::object::Stream::new((), fld(f, 2).to_vec()).to_pdf_stream(&mut pdf::object::NoUpdate) { Ok(p) => p, Err(x) => return Some(Err(ekind(&x))) };
            ps.info = d;
            let os = match ObjectStream::from_primitive(Primitive::Stream(ps), &NoResolve) { Ok(x) => x, Err(x) => return Some(Err(format!("load:{}", ekind(&x)))) };
            match os.get_object_slice(dec(fld(f, 3)) as usize, &NoResolve) {
                Ok((_, r)) => Ok(vec![num(r.start as i128), num(r.end as i128)]),
                Err(x) => Err(ekind(&x)) }
        }
        // K columns rows data -> length
        "num_fax" => {
            let p = CCITTFaxDecodeParams { k: dec(fld(f, 0)) as i32, end_of_line: false, encoded_byte_align: false,
                columns: dec(fld(f, 1)) as u32, rows: dec(fld(f, 2)) as u32, end_of_block: true, black_is_1: false, damaged_rows_before_error: 0 };
            match fax_decode(fld(f, 3), &p) { Ok(v) => Ok(vec![num(v.len() as i128)]), Err(x) => Err(ekind(&x)) }
        }
        // file page_nr -> (no fields)
        "num_pages" => {
            let file = match FileOptions::uncached().load(fld(f, 0).to_vec()) { Ok(x) => x, Err(x) => return Some(Err(format!("load:{}", ekind(&x)))) };
            match file.get_page(dec(fld(f, 1)) as u32) { Ok(_) => Ok(vec![]), Err(x) => Err(ekind(&x)) }
        }
        // opts file -> (no fields): reading the cross-reference section(s) and the trailer
        "num_xref" => {
            let o = if fld(f, 0).first() == Some(&b't') { ParseOptions::tolerant() } else { ParseOptions::strict() };
            let mut st = match Storage::with_cache(fld(f, 1).to_vec(), o, NoCache, NoCache, NoLog) { Ok(s) => s, Err(x) => return Some(Err(format!("open:{}", ekind(&x)))) };
            match st.load_storage_and_trailer() { Ok(_) => { let _ = st.resolver().options(); Ok(vec![]) } Err(x) => Err(ekind(&x)) }
        }
        // file -> number of call-backs made by walking /Names /Pages, /Names /JavaScript and /PageLabels
        "num_tree" => {
            let file = match FileOptions::uncached().load(fld(f, 0).to_vec()) { Ok(x) => x, Err(x) => return Some(Err(format!("load:{}", ekind(&x)))) };
            let r = file.resolver();
            let mut n = 0i128;
            let root = file.get_root();
            if let Some(ref names) = root.names {
                if let Some(ref t) = names.pages { if let Err(x) = t.walk(&r, &mut |_, _| n += 1) { return Some(Err(ekind(&x))); } }
                if let Some(ref t) = names.javascript { if let Err(x) = t.walk(&r, &mut |_, _| n += 1) { return Some(Err(ekind(&x))); } }
            }
            if let Some(ref t) = root.page_labels { if let Err(x) = t.walk(&r, &mut |_, _| n += 1) { return Some(Err(ekind(&x))); } }
            let _ = n;
            Ok(vec![])
        }
        _ => return None,
    })
}
