//! modes of the cache area (properties C12, C13)
//!
//!   cache_history  cfg opts file calls      -> one answer per call (o<digest> | e<kind code> | p)
//!   schedule       ccfg file programs sched -> one field per thread (answers; "!" = call still open)
//!   stress         file programs rounds     -> one field per thread (answers of the last round), real SyncCache
//!   tschedule / tstress: the same with typed programs (one row `ty r ty r …` per thread; in `schedule` and
//!                  `stress` a row is a list of references, each loaded as Node<0>); an item `9 i` loads the
//!                  lazy cell i of the holder object whose number is the optional last field (Lazy::load)
//!
//! The test documents contain objects of the harness-defined types Node<0>, Node<1>, Node<2>
//! (`<< /V int /F flags /E0 mask /E1 mask /D [ty ref ty ref …] >>`, modelled by coq/theories/Cache/Node.v)
//! besides library types (pages, fonts, streams, images).  /F: bit 0 = nested errors are swallowed; bits 1..3 =
//! the types that are *lazy* (Node<TAG> with bit 1+TAG set does not follow /D — as Vec<Ref<T>> against
//! Vec<MaybeRef<T>>); bits 4.. = the kind of the error raised by the /E0 and /E1 masks (0 = Other).
use crate::util::*;
use crate::R;
use pdf::any::AnySync;
use pdf::error::{PdfError, Result as PResult};
use pdf::file::{Cache, FileOptions, NoCache, ObjectCache, StreamCache, SyncCache};
use pdf::object::*;
use pdf::primitive::{Dictionary, Primitive};
use pdf::verif_hooks::{self, DataSize};
use std::cell::Cell;
use std::collections::HashMap;
use std::panic::{catch_unwind, AssertUnwindSafe};
use std::sync::{Arc, Condvar, Mutex};

// ------------------------------------------------------------------------------------------------
// digests (mirrored by Cache/Node.v: dstep, digest; and by props/C12/cachelib.py)

const DMOD: u128 = 2305843009213693951; // 2^61 - 1
fn dstep(h: u128, x: u128) -> u128 { let t = (h * 1000003 + x + 1) % DMOD; (t * t + t + 7) % DMOD }
fn digest_bytes(b: &[u8]) -> u128 { b.iter().fold(7u128, |h, &x| dstep(h, x as u128)) }

/// error kinds as numbers: missing object (2 NullRef, 3 FreeObject, 6 UnspecifiedXRefEntry), wrong type
/// (10 UnexpectedPrimitive), parse errors (5 EOF, 11 UnexpectedLexeme / UnknownType / Parse), 8 MaxDepth,
/// 1 everything else (Other: "Recursive reference", the Node types' own errors)
fn kind_code(e: &PdfError) -> u32 {
    match e {
        PdfError::Try { source, .. } => kind_code(source),
        PdfError::Shared { source } => kind_code(source),
        PdfError::FromPrimitive { source, .. } => kind_code(source),
        PdfError::NullRef { .. } => 2, PdfError::FreeObject { .. } => 3, PdfError::MissingEntry { .. } => 4,
        PdfError::EOF => 5, PdfError::UnspecifiedXRefEntry { .. } => 6, PdfError::PageOutOfBounds { .. } => 7,
        PdfError::MaxDepth => 8, PdfError::InvalidPassword => 9, PdfError::UnexpectedPrimitive { .. } => 10,
        PdfError::UnexpectedLexeme { .. } | PdfError::UnknownType { .. } | PdfError::Parse { .. } => 11,
        _ => 1,
    }
}
/// the error a Node type raises for its /E0 and /E1 masks, of the kind given in /F
fn node_error(kind: i64, what: &str) -> PdfError {
    match kind {
        2 => PdfError::NullRef { obj_nr: 0 },
        3 => PdfError::FreeObject { obj_nr: 0 },
        4 => PdfError::MissingEntry { typ: "Node", field: what.into() },
        5 => PdfError::EOF,
        6 => PdfError::UnspecifiedXRefEntry { id: 0 },
        8 => PdfError::MaxDepth,
        10 => PdfError::UnexpectedPrimitive { expected: "Dictionary", found: "Node" },
        11 => PdfError::UnexpectedLexeme { pos: 0, lexeme: what.into(), expected: "node" },
        _ => PdfError::Other { msg: format!("node: {}", what) },
    }
}
fn show(r: Result<u128, u32>) -> String { match r { Ok(d) => format!("o{}", d), Err(k) => format!("e{}", k) } }

// ------------------------------------------------------------------------------------------------
// the Node types

#[derive(Debug)]
pub struct Node<const TAG: u8> { pub digest: u128 }
impl<const TAG: u8> DataSize for Node<TAG> {
    const IS_DYNAMIC: bool = false;
    const STATIC_HEAP_SIZE: usize = 0;
    fn estimate_heap_size(&self) -> usize { 0 }
}
fn get_node(ty: i32, r: PlainRef, resolve: &impl Resolve) -> PResult<u128> {
    match ty {
        0 => resolve.get::<Node<0>>(Ref::new(r)).map(|n| n.digest),
        1 => resolve.get::<Node<1>>(Ref::new(r)).map(|n| n.digest),
        _ => resolve.get::<Node<2>>(Ref::new(r)).map(|n| n.digest),
    }
}
impl<const TAG: u8> Object for Node<TAG> {
    fn from_primitive(p: Primitive, resolve: &impl Resolve) -> PResult<Self> {
        let d: Dictionary = p.resolve(resolve)?.into_dictionary()?;
        let int = |k: &str| -> i64 { d.get(k).and_then(|p| p.as_integer().ok()).unwrap_or(0) as i64 };
        let (v, flags, e0, e1) = (int("V"), int("F"), int("E0"), int("E1"));
        let (lazy, kind) = ((flags >> (1 + TAG)) & 1 == 1 && TAG < 3, flags >> 4);
        if (e0 >> TAG) & 1 == 1 {
            return Err(node_error(kind, "E0"));
        }
        let mut h = dstep(dstep(7, TAG as u128), v as u128);
        if let (false, Some(Primitive::Array(a))) = (lazy, d.get("D")) {
            for pair in a.chunks(2) {
                if pair.len() < 2 { break; }
                let ty = pair[0].as_integer().unwrap_or(0);
                let r = match pair[1] { Primitive::Reference(r) => r, _ => continue };
                match get_node(ty, r, resolve) {
                    Ok(dg) => { h = dstep(dstep(h, 0), dg); }
                    Err(e) => {
                        if flags & 1 == 1 { h = dstep(dstep(h, 1), kind_code(&e) as u128); } else { return Err(e); }
                    }
                }
            }
        }
        if (e1 >> TAG) & 1 == 1 {
            return Err(node_error(kind, "E1"));
        }
        Ok(Node { digest: h })
    }
}

// ------------------------------------------------------------------------------------------------
// a holder of lazily loaded references: `<< /L [ty ref ty ref …] >>`; cell i is a `Lazy<Node<ty_i>>` (as the
// fonts / annotations of a page are).  One Holder value is shared by all threads of a schedule: a program item
// `9 i` is `holder.cells[i].load(resolver)` (object/mod.rs Lazy::load: a once-cell filled by the first load).

pub enum LazyNode { N0(Lazy<Node<0>>), N1(Lazy<Node<1>>), N2(Lazy<Node<2>>) }
pub struct Holder { pub cells: Vec<LazyNode> }
const LAZY_ITEM: i32 = 9;
impl Holder {
    fn from_primitive(p: Primitive, resolve: &impl Resolve) -> PResult<Self> {
        let d: Dictionary = p.resolve(resolve)?.into_dictionary()?;
        let mut cells = vec![];
        if let Some(Primitive::Array(a)) = d.get("L") {
            for pair in a.chunks(2) {
                if pair.len() < 2 { break; }
                let prim = pair[1].clone();
                cells.push(match pair[0].as_integer().unwrap_or(0) {
                    0 => LazyNode::N0(Lazy::from_primitive(prim, resolve)?),
                    1 => LazyNode::N1(Lazy::from_primitive(prim, resolve)?),
                    _ => LazyNode::N2(Lazy::from_primitive(prim, resolve)?),
                });
            }
        }
        Ok(Holder { cells })
    }
    fn load(&self, i: u64, resolve: &impl Resolve) -> PResult<u128> {
        match self.cells.get(i as usize) {
            Some(LazyNode::N0(l)) => l.load(resolve).map(|n| n.digest),
            Some(LazyNode::N1(l)) => l.load(resolve).map(|n| n.digest),
            Some(LazyNode::N2(l)) => l.load(resolve).map(|n| n.digest),
            None => Err(PdfError::Other { msg: "no such lazy cell".into() }),
        }
    }
}
/// the holder of a test document: the object whose number is given (0 = the document has none)
fn holder_of(id: u64, resolve: &impl Resolve) -> PResult<Arc<Holder>> {
    if id == 0 { return Ok(Arc::new(Holder { cells: vec![] })); }
    let p = resolve.resolve(PlainRef { id, gen: 0 })?;
    Ok(Arc::new(Holder::from_primitive(p, resolve)?))
}
fn run_item(ty: i32, id: u64, holder: &Holder, resolve: &impl Resolve) -> PResult<u128> {
    if ty == LAZY_ITEM { holder.load(id, resolve) } else { get_node(ty, PlainRef { id, gen: 0 }, resolve) }
}

// ------------------------------------------------------------------------------------------------
// cache_history

fn nums(b: &[u8]) -> Vec<Vec<i128>> {
    String::from_utf8_lossy(b).split('\n')
        .map(|row| row.split(' ').filter(|s| !s.is_empty()).map(|s| s.parse::<i128>().unwrap_or(0)).collect::<Vec<_>>())
        .filter(|r: &Vec<i128>| !r.is_empty()).collect()
}

fn filter_code(f: &pdf::enc::StreamFilter) -> u128 {
    use pdf::enc::StreamFilter::*;
    match f {
        ASCIIHexDecode => 1, ASCII85Decode => 2, LZWDecode(_) => 3, RunLengthDecode => 4, FlateDecode(_) => 5,
        DCTDecode(_) => 6, CCITTFaxDecode(_) => 7, JPXDecode => 8, JBIG2Decode(_) => 9, Crypt => 10,
    }
}
fn dbg_digest<T: std::fmt::Debug>(v: &T) -> u128 { digest_bytes(format!("{:?}", v).as_bytes()) }

fn typed_get(ty: i128, r: PlainRef, res: &impl Resolve) -> Result<u128, u32> {
    fn g<T: Object + DataSize + std::fmt::Debug>(r: PlainRef, res: &impl Resolve) -> Result<u128, u32> {
        res.get::<T>(Ref::new(r)).map(|v| dbg_digest(&*v)).map_err(|e| kind_code(&e))
    }
    match ty {
        0 | 1 | 2 => get_node(ty as i32, r, res).map_err(|e| kind_code(&e)),
        10 => g::<Catalog>(r, res),
        11 => g::<PagesNode>(r, res),
        13 => g::<pdf::font::Font>(r, res),
        14 => g::<Stream<()>>(r, res),
        15 => g::<ImageXObject>(r, res),
        16 => g::<XObject>(r, res),
        17 => g::<Dictionary>(r, res),
        18 => g::<Primitive>(r, res),
        _ => Err(0),
    }
}

fn one_call<B, OC, SC>(file: &pdf::file::File<B, OC, SC, pdf::file::NoLog>, kind: i128, ty: i128, id: u64) -> Result<u128, u32>
where B: pdf::backend::Backend, OC: Cache<PResult<AnySync, Arc<PdfError>>>, SC: Cache<PResult<Arc<[u8]>, Arc<PdfError>>> {
    let r = PlainRef { id, gen: 0 };
    let kc = |e: PdfError| kind_code(&e);
    match kind {
        0 => typed_get(ty, r, &file.resolver()),
        1 => {
            if ty == 101 {
                file.get_page(id as u32).map(|p| dbg_digest(&*p)).map_err(kc)
            } else {
                let res = file.resolver();
                res.resolve(r).map(|p| digest_bytes(&canon(&p, &res))).map_err(kc)
            }
        }
        2 => {
            let res = file.resolver();
            match ty {
                15 => res.get::<ImageXObject>(Ref::new(r)).and_then(|s| s.inner.data(&res)),
                16 => res.get::<XObject>(Ref::new(r)).and_then(|x| match *x {
                    XObject::Image(ref i) => i.inner.data(&res),
                    XObject::Postscript(ref s) => s.data(&res),
                    XObject::Form(ref f) => f.stream.data(&res),
                }),
                _ => res.get::<Stream<()>>(Ref::new(r)).and_then(|s| { let st: &Stream<()> = &*s; st.data(&res) }),
            }.map(|d| digest_bytes(&d)).map_err(kc)
        }
        3 => {
            let res = file.resolver();
            res.get::<ImageXObject>(Ref::new(r)).and_then(|s| {
                let (d, f) = s.raw_image_data(&res)?;
                Ok(digest_bytes(&d) * 16 + f.map(filter_code).unwrap_or(0))
            }).map_err(kc)
        }
        _ => {
            let res = file.resolver();
            res.get::<ImageXObject>(Ref::new(r)).and_then(|s| s.image_data(&res)).map(|d| digest_bytes(&d)).map_err(kc)
        }
    }
}

fn history<OC, SC>(oc: OC, sc: SC, f: &[Vec<u8>]) -> R
where OC: Cache<PResult<AnySync, Arc<PdfError>>>, SC: Cache<PResult<Arc<[u8]>, Arc<PdfError>>> {
    let opts = super::file::opts_of(fld(f, 1));
    let file = match FileOptions::uncached().cache(oc, sc).parse_options(opts).load(f[2].clone()) {
        Ok(x) => x, Err(e) => return Err(ekind(&e)) };
    let mut out = vec![];
    for row in nums(fld(f, 3)) {
        if row.len() < 3 { continue; }
        let r = catch_unwind(AssertUnwindSafe(|| one_call(&file, row[0], row[1], row[2] as u64)));
        out.push(match r { Ok(a) => show(a), Err(_) => "p".to_string() }.into_bytes());
    }
    Ok(out)
}

// ------------------------------------------------------------------------------------------------
// turnstile scheduler + instrumented cache (mirrors globalcache-0.2.4 sync::SyncCache::get)

#[derive(Clone, Copy, PartialEq, Debug)]
enum TStat { Running, Parked, Blocked(PlainRef), OsBlocked, Done }
struct SState { turn: Option<usize>, status: Vec<TStat>, abort: bool, tids: Vec<u64> }
struct Sched { st: Mutex<SState>, cv: Condvar }
thread_local! { static ME: Cell<Option<usize>> = Cell::new(None); }
static CURRENT: Mutex<Option<Arc<Sched>>> = Mutex::new(None);

/// kernel thread id of the calling thread (`/proc/thread-self` -> `<pid>/task/<tid>`)
fn own_tid() -> u64 {
    std::fs::read_link("/proc/thread-self").ok()
        .and_then(|p| p.file_name().and_then(|n| n.to_str()).and_then(|n| n.parse().ok())).unwrap_or(0)
}
/// is the thread asleep in the kernel (state S: waiting on a futex — a lock or a once-cell another thread holds)?
fn os_sleeping(tid: u64) -> bool {
    if tid == 0 { return false; }
    match std::fs::read_to_string(format!("/proc/self/task/{}/stat", tid)) {
        Ok(s) => s.rfind(')').and_then(|i| s[i + 1..].trim_start().chars().next()) == Some('S'),
        Err(_) => false,
    }
}

impl Sched {
    /// called by a worker: hand the turn back and wait to be released again; false = the run was aborted
    fn park(&self, t: usize, stat: TStat) -> bool {
        let mut g = self.st.lock().unwrap();
        if g.abort { return false; }
        g.status[t] = stat;
        // (a thread that was set aside as OsBlocked does not hold the turn when it comes back)
        if g.turn == Some(t) { g.turn = None; }
        self.cv.notify_all();
        while g.turn != Some(t) {
            if g.abort { return false; }
            g = self.cv.wait(g).unwrap();
        }
        g.status[t] = TStat::Running;
        true
    }
    fn done(&self, t: usize) {
        let mut g = self.st.lock().unwrap();
        g.status[t] = TStat::Done;
        if g.turn == Some(t) { g.turn = None; }
        self.cv.notify_all();
    }
    /// controller: wait until the thread that holds the turn reaches its next yield point, ends, or blocks in
    /// the kernel on something a parked thread holds (the lock of a once-cell that is being initialised:
    /// object/mod.rs Lazy::load -> OnceCell::get_or_try_init).  Such a thread is set aside as OsBlocked: it is
    /// not enabled until it wakes up, and it parks itself at its next yield point.
    fn await_turn_end(&self, t: usize) {
        let mut asleep = 0;
        loop {
            {
                let g = self.st.lock().unwrap();
                if g.turn != Some(t) { return; }
                let (g, _) = self.cv.wait_timeout(g, std::time::Duration::from_micros(300)).unwrap();
                if g.turn != Some(t) { return; }
                if g.status[t] != TStat::Running { asleep = 0; continue; }
            }
            // the lock is not held while the thread's state is sampled (it may be waiting for this very lock)
            let tid = self.st.lock().unwrap().tids[t];
            if os_sleeping(tid) { asleep += 1; } else { asleep = 0; }
            if asleep >= 4 {
                let mut g = self.st.lock().unwrap();
                if g.turn == Some(t) && g.status[t] == TStat::Running && os_sleeping(tid) {
                    g.status[t] = TStat::OsBlocked;
                    g.turn = None;
                    return;
                }
                asleep = 0;
            }
        }
    }
    /// controller: threads set aside as OsBlocked that have been woken meanwhile run on to their next yield
    /// point (or to their end) before anything else is scheduled
    fn settle(&self) {
        loop {
            let blocked: Vec<(usize, u64)> = {
                let g = self.st.lock().unwrap();
                (0..g.status.len()).filter(|&t| g.status[t] == TStat::OsBlocked).map(|t| (t, g.tids[t])).collect()
            };
            let mut awake = false;
            for (t, tid) in blocked {
                let mut asleep = 0;
                for _ in 0..200000 {
                    if self.st.lock().unwrap().status[t] != TStat::OsBlocked { awake = true; break; }
                    if os_sleeping(tid) { asleep += 1; if asleep >= 4 { break; } } else { asleep = 0; }
                    std::thread::sleep(std::time::Duration::from_micros(100));
                }
            }
            if !awake { return; }
        }
    }
    /// controller: let t run up to its next yield point
    fn release(&self, t: usize) {
        {
            let mut g = self.st.lock().unwrap();
            g.turn = Some(t);
            self.cv.notify_all();
        }
        self.await_turn_end(t);
        self.settle();
    }
    fn abort(&self) {
        let mut g = self.st.lock().unwrap();
        g.abort = true;
        self.cv.notify_all();
    }
}
fn yield_here() {
    if let Some(t) = ME.with(|m| m.get()) {
        let s = CURRENT.lock().unwrap().clone();
        if let Some(s) = s { s.park(t, TStat::Parked); }
    }
}

enum Slot<V> { InProcess, Computed(V) }
pub struct TurnCache<V> { map: Mutex<HashMap<PlainRef, Slot<V>>> }
type OVal = PResult<AnySync, Arc<PdfError>>;
#[derive(Clone)]
pub struct TurnRef(Arc<TurnCache<OVal>>);
impl std::ops::Deref for TurnRef { type Target = TurnCache<OVal>; fn deref(&self) -> &TurnCache<OVal> { &self.0 } }
impl<V> TurnCache<V> {
    fn new() -> Arc<Self> { Arc::new(TurnCache { map: Mutex::new(HashMap::new()) }) }
    fn is_computed(&self, k: &PlainRef) -> bool { matches!(self.map.lock().unwrap().get(k), Some(Slot::Computed(_))) }
}
impl Cache<OVal> for TurnRef {
    fn get_or_compute(&self, key: PlainRef, compute: impl FnOnce() -> PResult<AnySync, Arc<PdfError>>) -> PResult<AnySync, Arc<PdfError>> {
        loop {
            let mut g = self.map.lock().unwrap();
            match g.get(&key) {
                Some(Slot::Computed(v)) => return v.clone(),                  // Entry::Occupied / Computed
                Some(Slot::InProcess) => {                                     // Entry::Occupied / InProcess: condvar.wait
                    drop(g);
                    let me = ME.with(|m| m.get());
                    let s = CURRENT.lock().unwrap().clone();
                    match (me, s) {
                        (Some(t), Some(s)) => {
                            if !s.park(t, TStat::Blocked(key)) {
                                return Err(Arc::new(PdfError::Other { msg: "verif: run aborted (deadlock)".into() }));
                            }
                        }
                        _ => std::thread::yield_now(),
                    }
                }
                None => { g.insert(key, Slot::InProcess); break; }            // Entry::Vacant
            }
        }
        let value = compute();
        yield_here();                                                          // "publish"
        let mut g = self.map.lock().unwrap();
        g.insert(key, Slot::Computed(value.clone()));                          // replace(slot, Computed) + notify_all
        value
    }
    fn clear(&self) { self.map.lock().unwrap().clear(); }
}

/// one row per thread: `r r …` (typed = false: every call loads Node<0>) or `ty r ty r …`
fn programs(b: &[u8], typed: bool) -> Vec<Vec<(i32, u64)>> {
    String::from_utf8_lossy(b).split('\n')
        .map(|row| {
            let n: Vec<u64> = row.split(' ').filter(|s| !s.is_empty()).map(|s| s.parse::<u64>().unwrap_or(0)).collect();
            if typed { n.chunks(2).filter(|c| c.len() == 2).map(|c| (c[0] as i32, c[1])).collect() }
            else { n.into_iter().map(|r| (0, r)).collect() }
        }).collect()
}

fn schedule(f: &[Vec<u8>], typed: bool) -> R {
    let cf = fld(f, 0);
    let shared = cf.first() == Some(&b'1');
    let cache_on = cf.get(2) == Some(&b'1');
    let progs = programs(fld(f, 2), typed);
    let sched: Vec<usize> = String::from_utf8_lossy(fld(f, 3)).split(' ').filter(|s| !s.is_empty())
        .map(|s| s.parse::<usize>().unwrap_or(0)).collect();
    let tc = TurnRef(TurnCache::new());
    if cache_on {
        let file = match FileOptions::uncached().cache(tc.clone(), NoCache).load(f[1].clone()) { Ok(x) => x, Err(e) => return Err(ekind(&e)) };
        run_threads(&file, shared, &progs, &sched, Some(&tc), dec(fld(f, 4)).max(0) as u64)
    } else {
        let file = match FileOptions::uncached().load(f[1].clone()) { Ok(x) => x, Err(e) => return Err(ekind(&e)) };
        run_threads(&file, shared, &progs, &sched, None, dec(fld(f, 4)).max(0) as u64)
    }
}

fn run_threads<OC>(file: &pdf::file::File<Vec<u8>, OC, NoCache, pdf::file::NoLog>, shared: bool, progs: &[Vec<(i32, u64)>], sched: &[usize],
                   tc: Option<&TurnRef>, holder_id: u64) -> R
where OC: Cache<PResult<AnySync, Arc<PdfError>>> + Sync {
    let n = progs.len();
    let s = Arc::new(Sched { st: Mutex::new(SState { turn: None, status: vec![TStat::Running; n], abort: false, tids: vec![0; n] }), cv: Condvar::new() });
    // the holder of the lazy cells is built once, before the threads exist, and shared by all of them
    let holder = match holder_of(holder_id, &file.resolver()) { Ok(h) => h, Err(e) => return Err(ekind(&e)) };
    *CURRENT.lock().unwrap() = Some(s.clone());
    verif_hooks::set_callback(Some(Arc::new(|_site, _key, _ty| yield_here())));
    let answers: Vec<Mutex<Vec<String>>> = (0..n).map(|_| Mutex::new(vec![])).collect();
    let shared_resolver = file.resolver();
    let mut snapshot: Option<(Vec<Vec<String>>, Vec<bool>)> = None;
    std::thread::scope(|scope| {
        for t in 0..n {
            // start thread t and let it run to its first yield point (or to its end)
            { let mut g = s.st.lock().unwrap(); g.turn = Some(t); }
            let (s2, answers, progs, shared_resolver, holder) = (s.clone(), &answers, progs, &shared_resolver, &holder);
            scope.spawn(move || {
                ME.with(|m| m.set(Some(t)));
                s2.st.lock().unwrap().tids[t] = own_tid();
                let own = file.resolver();
                for &(ty, id) in &progs[t] {
                    if s2.st.lock().unwrap().abort { break; }
                    let res = catch_unwind(AssertUnwindSafe(|| {
                        if shared { run_item(ty, id, holder, shared_resolver) } else { run_item(ty, id, holder, &own) }
                    }));
                    let a = match res { Ok(Ok(d)) => format!("o{}", d), Ok(Err(e)) => format!("e{}", kind_code(&e)), Err(_) => "p".into() };
                    answers[t].lock().unwrap().push(a);
                }
                s2.done(t);
            });
            s.await_turn_end(t);
            s.settle();
        }
        let enabled = |t: usize| -> bool {
            let st = s.st.lock().unwrap().status[t];
            match st {
                TStat::Parked => true,
                TStat::Blocked(k) => tc.map(|c| c.is_computed(&k)).unwrap_or(true),
                _ => false,
            }
        };
        for &t in sched {
            if t < n && enabled(t) { s.release(t); }
        }
        let mut steps = 0;
        loop {
            match (0..n).find(|&t| enabled(t)) {
                Some(t) => s.release(t),
                None => break,
            }
            steps += 1;
            if steps > 100000 { break; }
        }
        let done: Vec<bool> = { let g = s.st.lock().unwrap(); g.status.iter().map(|x| *x == TStat::Done).collect() };
        snapshot = Some((answers.iter().map(|a| a.lock().unwrap().clone()).collect(), done.clone()));
        if done.iter().any(|d| !d) {
            s.abort();       // deadlock: let the blocked threads unwind with an error
        }
    });
    verif_hooks::set_callback(None);
    *CURRENT.lock().unwrap() = None;
    let (ans, done) = snapshot.unwrap();
    Ok((0..n).map(|t| {
        let mut v = ans[t].clone();
        if !done[t] { v.push("!".into()); }
        v.join(" ").into_bytes()
    }).collect())
}

// real threads, real SyncCache, no scheduler
fn stress(f: &[Vec<u8>], typed: bool) -> R {
    let progs = programs(fld(f, 1), typed);
    let rounds = dec(fld(f, 2)).max(1) as usize;
    let mut last = vec![];
    for _ in 0..rounds {
        let file = match FileOptions::cached().load(f[0].clone()) { Ok(x) => x, Err(e) => return Err(ekind(&e)) };
        let resolver = file.resolver();
        let holder = match holder_of(dec(fld(f, 3)).max(0) as u64, &resolver) { Ok(h) => h, Err(e) => return Err(ekind(&e)) };
        let barrier = std::sync::Barrier::new(progs.len());
        let out: Vec<Vec<String>> = std::thread::scope(|scope| {
            let hs: Vec<_> = progs.iter().map(|p| {
                let (resolver, barrier, holder) = (&resolver, &barrier, &holder);
                scope.spawn(move || {
                    barrier.wait();
                    p.iter().map(|&(ty, id)| {
                        match catch_unwind(AssertUnwindSafe(|| run_item(ty, id, holder, resolver))) {
                            Ok(Ok(d)) => format!("o{}", d), Ok(Err(e)) => format!("e{}", kind_code(&e)), Err(_) => "p".into() }
                    }).collect::<Vec<String>>()
                })
            }).collect();
            hs.into_iter().map(|h| h.join().unwrap_or_else(|_| vec!["p".into()])).collect()
        });
        // a round with a wrong answer is reported at once
        if !last.is_empty() && last != out { return Ok(out.iter().map(|v| v.join(" ").into_bytes()).chain(std::iter::once(b"differs-between-rounds".to_vec())).collect()); }
        last = out;
    }
    Ok(last.iter().map(|v| v.join(" ").into_bytes()).collect())
}

pub fn dispatch(mode: &str, f: &[Vec<u8>]) -> Option<R> {
    Some(match mode {
        "cache_history" => {
            if f.len() < 4 { return Some(Err("BadFields".into())); }
            let cf = fld(f, 0);
            let oc_on = cf.first() == Some(&b'1');
            let sc_on = cf.get(1) == Some(&b'1');
            let oc: ObjectCache = SyncCache::new();
            let sc: StreamCache = SyncCache::new();
            match (oc_on, sc_on) {
                (true, true) => history(oc, sc, f),
                (true, false) => history(oc, NoCache, f),
                (false, true) => history(NoCache, sc, f),
                (false, false) => history(NoCache, NoCache, f),
            }
        }
        "schedule" | "tschedule" => { if f.len() < 4 { return Some(Err("BadFields".into())); } schedule(f, mode == "tschedule") }
        "stress" | "tstress" => { if f.len() < 3 { return Some(Err("BadFields".into())); } stress(f, mode == "tstress") }
        _ => return None,
    })
}
