#!/usr/bin/env python3
"""tools/seedcheck.py Cxx [name] — confirm a seeded change produced by an independent sub-agent and run the property's check against it.
   1. scratch worktree /tmp/seed/Cxx/repo: demo passes without the patch, fails with it; the repository's suite passes with it;
   2. apply the patch to /repo, run `bin/vp check Cxx` (quick), undo the patch straight afterwards;
   3. keep patch, demo and meta.json under /verif/seeded/<name>/."""
import json, os, re, shutil, subprocess, sys, time
pid = sys.argv[1]
name = sys.argv[2] if len(sys.argv) > 2 else pid
src = sys.argv[3] if len(sys.argv) > 3 else "/tmp/seed/%s" % pid
wt = src + "/repo"
out = src + "/out"
ENV = dict(os.environ, CARGO_NET_OFFLINE="true")


def run(cmd, cwd, timeout=3000):
    p = subprocess.run(cmd, cwd=cwd, shell=isinstance(cmd, str), stdout=subprocess.PIPE, stderr=subprocess.STDOUT, env=ENV, timeout=timeout)
    return p.returncode, p.stdout.decode("utf-8", "replace")


demo = [f for f in os.listdir(out) if f.endswith(".rs")][0]
test_name = demo[:-3]
run("git checkout -q -- .", wt)
shutil.copy(os.path.join(out, demo), os.path.join(wt, "pdf", "tests", demo))
rc0, o0 = run("cargo test --offline -p pdf --test %s" % test_name, wt)
rc, o = run("git apply %s/patch.diff" % out, wt)
if rc != 0:
    print("patch does not apply:", o); sys.exit(2)
rc1, o1 = run("cargo test --offline -p pdf --test %s" % test_name, wt)
rc2, o2 = run("cargo test --workspace --no-fail-fast --offline", wt)
failed = re.findall(r"^test (\S+) \.\.\. FAILED", o2, flags=re.M)
results = re.findall(r"^test result: (\w+)\. (\d+) passed; (\d+) failed", o2, flags=re.M)
passed_total = sum(int(r[1]) for r in results)
run("git checkout -q -- .", wt)
os.remove(os.path.join(wt, "pdf", "tests", demo))
confirm = {"demo_passes_without_patch": rc0 == 0, "demo_fails_with_patch": rc1 != 0,
           "suite_with_patch": {"failed_tests": failed, "passed": passed_total}}
only_demo_fails = all(test_name in f or f.startswith("seeded") or True for f in failed) and all(("seeded" in f) or (f in o1) for f in failed)
print("confirm:", json.dumps(confirm))
# ---- run the check against /repo with the patch applied
rc, o = run("git -C /repo status --porcelain", "/verif")
if o.strip():
    print("/repo is not clean, refusing"); sys.exit(2)
rc, o = run("git -C /repo apply %s/patch.diff" % out, "/verif")
if rc != 0:
    print("patch does not apply to /repo:", o); sys.exit(2)
t = time.time()
# evidence/<id>.json must always describe a run on the unchanged tree: keep it aside while the patched tree is checked
ev = "/verif/evidence/%s.json" % pid
ev_keep = open(ev, "rb").read() if os.path.exists(ev) else None
try:
    rcc, oc = run("bin/vp check %s --tier quick" % pid, "/verif", timeout=3600)
finally:
    run("git -C /repo checkout -q -- .", "/verif")
    if ev_keep is not None:
        open(ev, "wb").write(ev_keep)
lines = [l for l in oc.split("\n") if l.startswith(("VIOLATION", "KNOWN-FINDING", "CHECK-BROKEN", "STALE"))]
print("check exit", rcc, "in %.0fs" % (time.time() - t))
print("\n".join(lines[:8]))
replay = None
m = re.search(r"VIOLATION property=\S+ replay=(\S+)(.*)", oc)
if m and os.path.exists(m.group(1)):
    replay = json.load(open(m.group(1)))
d = os.path.join("/verif/seeded", name)
os.makedirs(d, exist_ok=True)
shutil.copy(os.path.join(out, "patch.diff"), d)
shutil.copy(os.path.join(out, demo), d)
meta = {}
try:
    meta = json.load(open(os.path.join(out, "meta.json")))
except Exception as e:
    meta = {"note": "agent meta.json unreadable: %r" % (e,)}
meta["property"] = pid
meta["repo_head"] = run("git -C /repo rev-parse --short HEAD", "/verif")[1].strip()
meta["confirmed_by_me"] = confirm
meta["what_i_ran"] = ["scratch worktree %s at /repo HEAD: cargo test -p pdf --test %s (without patch: pass=%s; with patch: fail=%s)" % (wt, test_name, rc0 == 0, rc1 != 0),
                      "cargo test --workspace --no-fail-fast --offline with the patch: %d passed, failed=%s" % (passed_total, failed),
                      "git -C /repo apply patch.diff; bin/vp check %s --tier quick; git -C /repo checkout -- ." % pid]
meta["check_result"] = {"exit": rcc, "lines": lines[:6], "detected": rcc == 1 and any(l.startswith("VIOLATION") for l in lines),
                        "no_failing_input_found": any("no-failing-input-found" in l for l in lines),
                        "replay_why": (replay or {}).get("why") or (replay or {}).get("broken")}
json.dump(meta, open(os.path.join(d, "meta.json"), "w"), indent=1)
print("kept in", d, "detected" if meta["check_result"]["detected"] else "MISSED")
