#!/usr/bin/env python3
"""tools/seedtable.py — rewrite the table of seeded changes in DESIGN.md §0 from seeded/*/meta.json"""
import json, os, re
ROOT = os.path.abspath(os.path.join(os.path.dirname(__file__), ".."))
rows = []
for d in sorted(os.listdir(os.path.join(ROOT, "seeded"))):
    mp = os.path.join(ROOT, "seeded", d, "meta.json")
    if not os.path.exists(mp):
        continue
    m = json.load(open(mp))
    cr = m.get("check_result", {})
    how = "MISSED"
    if cr.get("detected"):
        how = "proof obligation / correspondence only (no-failing-input-found)" if cr.get("no_failing_input_found") else "concrete failing input (spec oracle ± correspondence)"
    rc = m.get("recheck")
    if rc:
        now = ("concrete failing input" if not rc.get("no_failing_input_found") else "broken proof/tie only (no-failing-input-found)") if rc.get("detected") else "MISSED"
        if how == "MISSED" and rc.get("detected"):
            how = "first run MISSED; after strengthening (%s): %s" % (m.get("strengthening", "generator"), now)
        elif m.get("strengthening") and rc.get("detected"):
            how = now + " (after strengthening: %s)" % m["strengthening"]
        else:
            how = now if rc.get("detected") else "MISSED"
    extra = "; ".join(m.get("also_detected_by", []))
    what = (m.get("what_changed") or "").replace("\n", " ").replace("|", "/")
    needs = (m.get("needs_to_manifest") or "").replace("\n", " ").replace("|", "/")
    rows.append("| `seeded/%s` | %s | %s | %s | %s%s |" % (d, m.get("property"), what[:230], needs[:200], how, (" — " + extra) if extra else ""))
table = "| change | property | what was changed | needs, to manifest | caught by `bin/vp check` (quick) |\n|---|---|---|---|---|\n" + "\n".join(rows)
p = os.path.join(ROOT, "DESIGN.md")
s = open(p).read()
block = "<!-- SEEDTABLE BEGIN -->\n" + table + "\n<!-- SEEDTABLE END -->"
if "@SEEDTABLE@" in s:
    s = s.replace("@SEEDTABLE@", block)
else:
    s = re.sub(r"<!-- SEEDTABLE BEGIN -->.*?<!-- SEEDTABLE END -->", lambda m: block, s, flags=re.S)
open(p, "w").write(s)
print(len(rows), "rows")
