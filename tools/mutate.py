#!/usr/bin/env python3
"""tools/mutate.py — automatic mutation testing of the verification framework against pdf-rs.

   mutate.py gen    [--seed S]                       enumerate mutation sites, write build/mut/mutants.jsonl (deterministic order)
   mutate.py run    --workers D1,D2,D3 [--limit N] [--target-pass M] [--only-files a,b]
                                                     run mutants (each worker dir holds `repo/` and `verif/` worktrees that were set up with
                                                     `VERIF_REPO=<dir>/repo bin/vp setup`); appends to build/mut/results.jsonl; resume-able
   mutate.py baseline --workers D1,D2,D3             every check on the unchanged tree in every worker (must all exit 0); snapshots coq/
   mutate.py show NNN                                print the diff of mutant NNN
   mutate.py stats                                   totals + tables
   mutate.py report                                  build/mut/REPORT.md from results.jsonl and the survivor analyses build/mut/analysis/NNNN.json

   One mutation per mutant, textual, applied with `git apply` in the worker's repo worktree and reverted with `git checkout -- .`.
   A mutant is DETECTED if at least one `bin/vp check Cxx` (quick) exits 1, SURVIVED otherwise."""
import argparse, difflib, hashlib, json, os, random, re, shutil, signal, subprocess, sys, threading, time

ROOT = os.path.abspath(os.path.join(os.path.dirname(os.path.realpath(__file__)), ".."))
REPO = os.environ.get("VERIF_REPO", "/work2/mut/repo")
OUT = os.environ.get("MUT_OUT") or os.path.join(ROOT, "build", "mut")      # MUT_OUT=build/mut2 keeps a later round apart
MUTANTS = os.path.join(OUT, "mutants.jsonl")
RESULTS = os.path.join(OUT, "results.jsonl")
SURV = os.path.join(OUT, "survivors")
ENV = dict(os.environ, CARGO_NET_OFFLINE="true")
SAFETY_PREFIXES = ("pdf/src/parser/", "pdf/src/object/")
SAFETY_FILES = ("pdf/src/enc.rs", "pdf/src/font.rs", "pdf/src/crypt.rs", "pdf/src/file.rs", "pdf/src/backend.rs", "pdf/src/xref.rs")


# ------------------------------------------------------------------------------------------------
# properties <-> files

def load_props():
    props = {}
    for ln in open(os.path.join(ROOT, "properties.jsonl")):
        ln = ln.strip()
        if ln:
            d = json.loads(ln)
            props[d["id"]] = d["anchors"]["files"]
    return props


# file -> properties that observe it although properties.jsonl does not anchor them there (round 1, REPORT §6/§8: nine of the
# eighteen gaps were gaps of the map only).  properties.jsonl itself stays untouched; `--no-extra-map` switches this off.
EXTRA_MAP = {
    "pdf/src/error.rs": ["C15", "C18"],
    "pdf/src/enc.rs": ["C12"],
    "pdf/src/object/color.rs": ["C20", "C15", "C07"],
    "pdf/src/object/stream.rs": ["C08", "C15"],
    "pdf/src/object/types.rs": ["C08"],
    "pdf/src/primitive.rs": ["C19", "C02", "C03", "C11"],
    "pdf/src/parser/lexer/mod.rs": ["C08"],
    "pdf/src/parser/lexer/str.rs": ["C08"],
    "pdf/src/parser/parse_object.rs": ["C08"],
    "pdf/src/encoding.rs": ["C20"],
    "pdf/src/font.rs": ["C20"],
}
USE_EXTRA_MAP = True


def props_for(path, props):
    ps = [p for p, fs in props.items() if path in fs]
    if USE_EXTRA_MAP:
        for p in EXTRA_MAP.get(path, []):
            if p not in ps:
                ps.append(p)
    if path.startswith(SAFETY_PREFIXES) or path in SAFETY_FILES:
        for p in ("C01", "C14"):
            if p not in ps:
                ps.append(p)
    return sorted(ps)


def anchored_files(props):
    fs = set()
    for v in props.values():
        fs.update(v)
    return sorted(f for f in fs if (f.startswith("pdf/src/") or f == "pdf_derive/src/lib.rs") and os.path.exists(os.path.join(REPO, f)))


# ------------------------------------------------------------------------------------------------
# a light Rust scanner: masks comments, strings and char literals (byte-char literals b'x' are kept)

def mask(src):
    out = list(src)
    n = len(src)
    i = 0
    bytelits = []          # (start, end) of b'x'

    def blank(a, b):
        for k in range(a, b):
            if out[k] != "\n":
                out[k] = " "

    while i < n:
        c = src[i]
        if src.startswith("//", i):
            j = src.find("\n", i)
            j = n if j < 0 else j
            blank(i, j)
            i = j
        elif src.startswith("/*", i):
            depth, j = 1, i + 2
            while j < n and depth:
                if src.startswith("/*", j):
                    depth += 1; j += 2
                elif src.startswith("*/", j):
                    depth -= 1; j += 2
                else:
                    j += 1
            blank(i, j)
            i = j
        elif c == '"' or (c in "rb" and re.match(r'(?:b?r#*"|b")', src[i:i + 8]) and (i == 0 or not (src[i - 1].isalnum() or src[i - 1] == "_"))):
            m = re.match(r'(b?)(r(#*))?"', src[i:i + 12])
            raw = m.group(2) is not None
            hashes = m.group(3) or ""
            j = i + m.end()
            if raw:
                end = src.find('"' + hashes, j)
                end = n if end < 0 else end + 1 + len(hashes)
            else:
                while j < n and src[j] != '"':
                    j += 2 if src[j] == "\\" else 1
                end = min(n, j + 1)
            blank(i + m.end(), end - 1 - (len(hashes) if raw else 0))   # keep the quotes, blank the contents
            i = end
        elif c == "'" or (c == "b" and i + 1 < n and src[i + 1] == "'" and (i == 0 or not (src[i - 1].isalnum() or src[i - 1] == "_"))):
            isb = c == "b"
            q = i + (1 if isb else 0)
            # char literal or lifetime?
            if q + 1 < n and src[q + 1] == "\\":
                j = src.find("'", q + 3)
                j = q + 3 if j < 0 else j
                if src[q + 2] == "'":      # '\''
                    j = q + 3
                end = j + 1
            elif q + 2 < n and src[q + 2] == "'":
                end = q + 3
            elif not isb and q + 2 < n and ord(src[q + 1]) > 127:
                j = src.find("'", q + 1)
                end = j + 1 if 0 < j <= q + 5 else q + 1
                if end == q + 1:
                    i = q + 1
                    continue
            else:
                i = q + 1      # lifetime
                continue
            if isb:
                bytelits.append((i, end))
            else:
                blank(q + 1, end - 1)
            i = end
        else:
            i += 1
    return "".join(out), bytelits


def match_brace(m, i, open_="{", close="}"):
    """index of the bracket matching m[i]"""
    depth = 0
    for j in range(i, len(m)):
        if m[j] == open_:
            depth += 1
        elif m[j] == close:
            depth -= 1
            if depth == 0:
                return j
    return len(m) - 1


def excluded_spans(m):
    """#[cfg(test)] and #[cfg(pdf_rs_pdf_verif)] items/statements, macro_rules bodies"""
    spans = []
    for mt in re.finditer(r"#\[cfg\((?:test|pdf_rs_pdf_verif|all\(test[^\]]*)\)\]|#\[test\]", m):
        j = mt.end()
        # the item ends at the first `;` or at the brace matching the first `{`, whichever starts first
        k1 = m.find(";", j)
        k2 = m.find("{", j)
        if k2 >= 0 and (k1 < 0 or k2 < k1):
            end = match_brace(m, k2) + 1
        else:
            end = (k1 + 1) if k1 >= 0 else len(m)
        spans.append((mt.start(), end))
    for mt in re.finditer(r"\bmacro_rules!\s*\w+\s*\{", m):
        spans.append((mt.start(), match_brace(m, mt.end() - 1) + 1))
    return spans


def functions(m):
    """[(name, body_start, body_end)] for every fn with a body"""
    fns = []
    for mt in re.finditer(r"\bfn\s+(\w+)", m):
        j = mt.end()
        depth = 0
        body = None
        while j < len(m):
            ch = m[j]
            if ch in "([":
                depth += 1
            elif ch in ")]":
                depth -= 1
            elif ch == ";" and depth == 0:
                break
            elif ch == "{" and depth == 0:
                body = j
                break
            j += 1
        if body is not None:
            fns.append((mt.group(1), body, match_brace(m, body) + 1, mt.start()))
    return fns


# ------------------------------------------------------------------------------------------------
# mutation operators: each yields (start, end, replacement, operator, detail)

def prev_nonspace(m, i):
    i -= 1
    while i >= 0 and m[i] in " \t":
        i -= 1
    return m[i] if i >= 0 else ""


KEYWORDS = {"match", "as", "in", "return", "if", "else", "while", "let", "mut", "ref", "move", "break", "const", "static", "for", "where", "dyn", "impl"}


def prev_word(m, i):
    mm = re.search(r"(\w+)\s*$", m[max(0, i - 24):i])
    return mm.group(1) if mm else ""


def split_top(s, sep=","):
    parts, depth, cur = [], 0, ""
    for ch in s:
        if ch in "([{<" and not (ch == "<"):
            depth += 1
        elif ch in ")]}":
            depth -= 1
        if ch == sep and depth == 0:
            parts.append(cur); cur = ""
        else:
            cur += ch
    parts.append(cur)
    return parts


def balanced(s):
    d = 0
    for ch in s:
        if ch in "([{":
            d += 1
        elif ch in ")]}":
            d -= 1
            if d < 0:
                return False
    return d == 0


def byte_repr(v):
    if 33 <= v <= 126 and chr(v) not in "'\\":
        return "b'%s'" % chr(v)
    return "b'\\x%02x'" % v


def byte_value(lit):
    body = lit[2:-1]
    if body.startswith("\\"):
        esc = {"n": 10, "r": 13, "t": 9, "0": 0, "\\": 92, "'": 39, '"': 34}
        if body[1] == "x":
            return int(body[2:], 16)
        return esc.get(body[1])
    return ord(body) if len(body) == 1 else None


def op_sites(src, m, bytelits):
    S = []
    add = lambda a, b, r, op, d="": S.append((a, b, r, op, d))
    lines_off = [0]
    for mt in re.finditer(r"\n", m):
        lines_off.append(mt.end())

    # ---- relational
    for mt in re.finditer(r"(?<=\s)<(?=\s)", m):
        add(mt.start(), mt.end(), "<=", "rel", "< -> <=")
    for mt in re.finditer(r"(?<=\s)>(?=\s)", m):
        add(mt.start(), mt.end(), ">=", "rel", "> -> >=")
    for mt in re.finditer(r"(?<![<>=\-])<=(?![=>])", m):
        add(mt.start(), mt.end(), "<", "rel", "<= -> <")
    for mt in re.finditer(r"(?<![<>\-=.])>=(?!=)", m):
        if m[mt.start() - 1:mt.start()] == ">":
            continue
        add(mt.start(), mt.end(), ">", "rel", ">= -> >")
    for mt in re.finditer(r"(?<![=!<>+\-*/%&|^])==(?!=)", m):
        add(mt.start(), mt.end(), "!=", "rel", "== -> !=")
    for mt in re.finditer(r"!=(?!=)", m):
        add(mt.start(), mt.end(), "==", "rel", "!= -> ==")

    # ---- arithmetic
    for mt in re.finditer(r"(?<=[\w\)\]])(\s*)\+(\s*)1\b(?![.\w])", m):
        add(mt.start(), mt.end(), "", "arith", "+ 1 dropped")
        add(mt.start(), mt.end(), mt.group(1) + "-" + mt.group(2) + "1", "arith", "+ 1 -> - 1")
    for mt in re.finditer(r"(?<=[\w\)\]])(\s*)-(\s*)1\b(?![.\w])", m):
        add(mt.start(), mt.end(), "", "arith", "- 1 dropped")
        add(mt.start(), mt.end(), mt.group(1) + "+" + mt.group(2) + "1", "arith", "- 1 -> + 1")
    for mt in re.finditer(r"(?<=[\w\)\]])(\s*)\+(?![=+])(\s*)(?=[\w\(])", m):
        if re.match(r"1\b(?![.\w])", m[mt.end():mt.end() + 3]):
            continue
        add(mt.start() + len(mt.group(1)), mt.start() + len(mt.group(1)) + 1, "-", "arith", "+ -> -")
    for mt in re.finditer(r"(?<=[\w\)\]])(\s*)-(?![=>\-])(\s*)(?=[\w\(])", m):
        if prev_word(m, mt.start()) in KEYWORDS:
            continue
        if re.match(r"1\b(?![.\w])", m[mt.end():mt.end() + 3]):
            continue
        add(mt.start() + len(mt.group(1)), mt.start() + len(mt.group(1)) + 1, "+", "arith", "- -> +")
    for mt in re.finditer(r"(?<=[\w\)\]])(\s*)\*(?![=*])(\s*)(?=[\w\(])", m):
        if prev_word(m, mt.start()) in KEYWORDS or m[mt.end():mt.end() + 6] in ("const ", "mut "):
            continue
        add(mt.start() + len(mt.group(1)), mt.start() + len(mt.group(1)) + 1, "/", "arith", "* -> /")
    for mt in re.finditer(r"(?<=[\w\)\]])(\s*)/(?![=/*])(\s*)(?=[\w\(])", m):
        add(mt.start() + len(mt.group(1)), mt.start() + len(mt.group(1)) + 1, "*", "arith", "/ -> *")
    for mt in re.finditer(r"(?<=\s)\+=(?=\s)", m):
        add(mt.start(), mt.end(), "-=", "arith", "+= -> -=")
    for mt in re.finditer(r"(?<=\s)-=(?=\s)", m):
        add(mt.start(), mt.end(), "+=", "arith", "-= -> +=")

    # ---- boundary constants
    for mt in re.finditer(r"(?<![\w'])(0x[0-9a-fA-F_]+|\d[\d_]*)((?:u|i)(?:8|16|32|64|128|size))?(?![\w]|\.\d)", m):
        a = mt.start()
        if a >= 1 and m[a - 1] == "." and not (a >= 2 and m[a - 2] == "."):
            continue                      # tuple field / fractional part
        if m[mt.end():mt.end() + 1] == "." and m[mt.end():mt.end() + 2] != "..":
            if re.match(r"\.\s*[a-z_]", m[mt.end():mt.end() + 3]) is None:
                continue                  # 1. float
        txt, suf = mt.group(1), mt.group(2) or ""
        hexa = txt.lower().startswith("0x")
        try:
            v = int(txt.replace("_", ""), 16 if hexa else 10)
        except ValueError:
            continue
        fmt = (lambda x: ("0x%X" % x)) if hexa else (lambda x: str(x))
        add(a, mt.end(), fmt(v + 1) + suf, "const", "%s -> %s" % (txt, fmt(v + 1)))
        if v > 0:
            add(a, mt.end(), fmt(v - 1) + suf, "const", "%s -> %s" % (txt, fmt(v - 1)))
    for (a, b) in bytelits:
        v = byte_value(src[a:b])
        if v is None:
            continue
        if v < 255:
            add(a, b, byte_repr(v + 1), "byte", "%s -> %s" % (src[a:b], byte_repr(v + 1)))
        if v > 0:
            add(a, b, byte_repr(v - 1), "byte", "%s -> %s" % (src[a:b], byte_repr(v - 1)))

    # ---- logical
    for mt in re.finditer(r"&&", m):
        if prev_nonspace(m, mt.start()) not in "(,=&|{;" and prev_nonspace(m, mt.start()) != "":
            add(mt.start(), mt.end(), "||", "logic", "&& -> ||")
    for mt in re.finditer(r"\|\|", m):
        p = prev_nonspace(m, mt.start())
        if p and (p.isalnum() or p in "_)]?'\""):
            # a binary || (closures follow `(`, `,`, `=`, `move`)
            if re.search(r"\bmove\s*$", m[max(0, mt.start() - 8):mt.start()]):
                continue
            add(mt.start(), mt.end(), "&&", "logic", "|| -> &&")
    for mt in re.finditer(r"\bif\s+!(?!=)", m):
        add(mt.end() - 1, mt.end(), "", "logic", "negation dropped on if")
    for mt in re.finditer(r"\bif\s+(?!let\b)(?!!)([^\n{;]+?)\s*\{", m):
        cond = mt.group(1)
        if balanced(cond) and "=>" not in cond and not cond.strip().endswith(("&&", "||")):
            add(mt.start(1), mt.end(1), "!(" + src[mt.start(1):mt.end(1)] + ")", "logic", "negation added on if")

    # ---- true / false
    for mt in re.finditer(r"\btrue\b", m):
        add(mt.start(), mt.end(), "false", "bool", "true -> false")
    for mt in re.finditer(r"\bfalse\b", m):
        add(mt.start(), mt.end(), "true", "bool", "false -> true")

    # ---- swapped arguments of a call / tuple fields of a destructuring
    for mt in re.finditer(r"(?<![!\w])(\w+)\(", m):
        name = mt.group(1)
        if name in ("if", "while", "match", "for", "fn", "in", "as", "return", "Some", "Ok", "Err", "Box", "Self", "pub", "crate", "super", "where", "impl", "loop", "mut", "ref", "move", "let", "else"):
            continue
        if re.search(r"\bfn\s+$", m[max(0, mt.start() - 6):mt.start()]):
            continue
        if mt.start() >= 1 and m[mt.start() - 1] == "!":
            continue
        close = match_brace(m, mt.end() - 1, "(", ")")
        inner = m[mt.end():close]
        if "\n" in inner or "|" in inner or len(inner) > 120:
            continue
        parts = split_top(inner)
        if len(parts) not in (2, 3):
            continue
        off = mt.end()
        spans = []
        for p in parts:
            spans.append((off, off + len(p)))
            off += len(p) + 1
        for k in range(len(parts) - 1):
            a0, a1 = spans[k]
            b0, b1 = spans[k + 1]
            A, B = src[a0:a1].strip(), src[b0:b1].strip()
            if not A or not B or A == B or ":" in m[a0:a1].replace("::", "") or ":" in m[b0:b1].replace("::", ""):
                continue
            sa = a0 + (len(src[a0:a1]) - len(src[a0:a1].lstrip()))
            eb = b1 - (len(src[b0:b1]) - len(src[b0:b1].rstrip()))
            ea = sa + len(A)
            sb = eb - len(B)
            add(sa, eb, B + src[ea:sb] + A, "swapargs", "%s(..%s <-> %s..)" % (name, A[:20], B[:20]))
    for mt in re.finditer(r"\b(?:let|for)\s+\(\s*(?:mut\s+)?(\w+)\s*,\s*(?:mut\s+)?(\w+)\s*\)", m):
        if mt.group(1) != mt.group(2) and "_" not in (mt.group(1), mt.group(2)):
            a, b = mt.start(1), mt.end(2)
            add(a, b, mt.group(2) + src[mt.end(1):mt.start(2)] + mt.group(1), "swapargs", "destructuring (%s, %s) swapped" % (mt.group(1), mt.group(2)))

    # ---- line based operators
    nl = len(lines_off)
    def line_span(k):
        a = lines_off[k]
        b = lines_off[k + 1] - 1 if k + 1 < nl else len(m)
        return a, b
    arm = re.compile(r"^(\s*)(\S.*?)\s=>\s(.+?),?\s*$")
    prev = None
    for k in range(nl):
        a, b = line_span(k)
        ml = m[a:b]
        mt = arm.match(ml)
        cur = None
        if mt and balanced(mt.group(2)) and balanced(mt.group(3)) and not mt.group(3).rstrip().endswith("{"):
            body_a = a + mt.start(3)
            body_b = a + mt.end(3)
            cur = (body_a, body_b, len(mt.group(1)))
            body = src[body_a:body_b]
            # Some(x) -> None in an arm
            ms = re.match(r"^(Ok\()?Some\(", body)
            if ms and balanced(body):
                if ms.group(1):
                    add(body_a, body_b, "Ok(None)", "some_none", "Ok(Some(..)) -> Ok(None) in an arm")
                elif match_brace(body, 4, "(", ")") == len(body) - 1:
                    add(body_a, body_b, "None", "some_none", "Some(..) -> None in an arm")
            if prev and prev[2] == cur[2] and prev[3] == k - 1:
                pb = src[prev[0]:prev[1]]
                if pb != body:
                    add(prev[0], body_b, body + src[prev[1]:body_a] + pb, "swaparms", "bodies of adjacent match arms swapped")
        prev = (cur[0], cur[1], cur[2], k) if cur else None
        # dropped statement: plain method call or compound assignment
        st = ml.strip()
        if re.match(r"^[\w.\[\]*]+(\.\w+)+\(.*\);$", st) and balanced(st) and "?" not in st and not st.startswith(("return", "let ")) and "=" not in re.sub(r"\(.*\)", "", st):
            add(a, b, re.match(r"\s*", ml).group(0), "dropstmt", "dropped: " + st[:50])
        elif re.match(r"^[\w.\[\]*]+\s*[+\-]=\s*[^;{}]+;$", st) and balanced(st) and "?" not in st:
            add(a, b, re.match(r"\s*", ml).group(0), "dropstmt", "dropped: " + st[:50])

    # ---- .rev()
    for mt in re.finditer(r"\.rev\(\)", m):
        add(mt.start(), mt.end(), "", "rev", ".rev() removed")
    for mt in re.finditer(r"\.(?:iter|into_iter|chars|bytes|iter_mut)\(\)(?!\.rev\(\))", m):
        add(mt.end(), mt.end(), ".rev()", "rev", ".rev() added")
    for mt in re.finditer(r"\bfor\s+\w+\s+in\s+([^\n{]*?\.\.[^\n{]*?)\s*\{", m):
        r = mt.group(1)
        if balanced(r) and not r.startswith("("):
            add(mt.start(1), mt.end(1), "(" + src[mt.start(1):mt.end(1)] + ").rev()", "rev", ".rev() added on a for range")

    # ---- min / max
    for mt in re.finditer(r"(?<![\w])(\.|cmp::|\b)(min|max)\(", m):
        if mt.group(1) == "" and mt.start() >= 1 and m[mt.start() - 1] in "._":
            continue
        a = mt.start(2)
        other = "max" if mt.group(2) == "min" else "min"
        add(a, a + 3, other, "minmax", "%s -> %s" % (mt.group(2), other))

    # ---- ? -> .unwrap_or_default()
    for mt in re.finditer(r"(?<=[\w\)\]])\?(?![A-Za-z])", m):
        add(mt.start(), mt.end(), ".unwrap_or_default()", "qmark", "? -> .unwrap_or_default()")

    # ---- take(n) -> take(n-1)
    for mt in re.finditer(r"\.take\(", m):
        close = match_brace(m, mt.end() - 1, "(", ")")
        inner = src[mt.end():close]
        if "\n" in inner or not inner.strip():
            continue
        if re.match(r"^\d+$", inner.strip()):
            rep = str(max(0, int(inner.strip()) - 1))
        elif re.match(r"^[\w.]+$", inner.strip()):
            rep = inner.strip() + " - 1"
        else:
            rep = "(" + inner + ") - 1"
        add(mt.end(), close, rep, "take", "take(%s) -> take(%s)" % (inner.strip()[:20], rep[:24]))

    # ---- range / slice bounds
    for mt in re.finditer(r"(?<!\.)\.\.(=?)(?!\.)", m):
        a, b = mt.start(), mt.end()
        # left operand
        i, depth = a - 1, 0
        while i >= 0:
            ch = m[i]
            if ch in ")]":
                depth += 1
            elif ch in "([":
                if depth == 0:
                    break
                depth -= 1
            elif depth == 0 and (ch in ",{};=&|\n<>" or m[max(0, i - 3):i + 1] == " in "):
                break
            i -= 1
        left = (i + 1, a)
        j, depth = b, 0
        while j < len(m):
            ch = m[j]
            if ch in "([":
                depth += 1
            elif ch in ")]":
                if depth == 0:
                    break
                depth -= 1
            elif depth == 0 and (ch in ",{};\n|" or m[j:j + 2] == "=>"):
                break
            j += 1
        right = (b, j)
        L, R = src[left[0]:left[1]], src[right[0]:right[1]]
        if "'" in L or "'" in R:
            continue       # a range pattern over byte/char literals: handled by the byte operator
        if mt.group(1):
            add(a, b, "..", "range", "..= -> ..")
        if R.strip():
            e = right[1] - (len(R) - len(R.rstrip()))
            add(e, e, " - 1", "range", "a..b -> a..b-1")
        if L.strip():
            e = left[1] - (len(L) - len(L.rstrip()))
            add(e, e, " + 1", "range", "a..b -> a+1..b")

    # ---- as casts
    pairs = {"u16": ["u32"], "u32": ["u16", "u64"], "u64": ["u32"], "u8": ["u16"], "i32": ["i16"], "usize": ["u16"]}
    for mt in re.finditer(r"\bas\s+(u8|u16|u32|u64|i32|usize)\b", m):
        for t in pairs[mt.group(1)]:
            add(mt.start(1), mt.end(1), t, "cast", "as %s -> as %s" % (mt.group(1), t))

    # ---- checked / saturating / wrapping arithmetic
    for mt in re.finditer(r"\.(checked|saturating|wrapping)_(add|sub|mul)\(", m):
        kind, opn = mt.group(1), mt.group(2)
        if kind == "checked":
            close = match_brace(m, mt.end() - 1, "(", ")")
            # receiver: scan back over a postfix expression
            i, depth = mt.start() - 1, 0
            while i >= 0:
                ch = m[i]
                if ch in ")]":
                    depth += 1
                elif ch in "([":
                    if depth == 0:
                        break
                    depth -= 1
                elif depth == 0 and not (ch.isalnum() or ch in "_.:"):
                    break
                i -= 1
            rs = i + 1
            if rs < mt.start():
                add(rs, close + 1, "Some(" + src[rs:mt.start()] + ".wrapping_" + opn + src[mt.end() - 1:close + 1] + ")", "checked", "checked_%s -> wrapping_%s" % (opn, opn))
        elif kind == "saturating":
            add(mt.start(1), mt.end(1), "wrapping", "checked", "saturating_%s -> wrapping_%s" % (opn, opn))
        else:
            add(mt.start(1), mt.end(1), "saturating", "checked", "wrapping_%s -> saturating_%s" % (opn, opn))
    return S


# ------------------------------------------------------------------------------------------------
# enumeration + deterministic, evenly spread order

def make_diff(path, old, new):
    d = difflib.unified_diff(old.splitlines(True), new.splitlines(True), "a/" + path, "b/" + path, n=3)
    return "".join(d)


def enumerate_mutants(seed):
    props = load_props()
    rng = random.Random(seed)
    per_file = {}
    for path in anchored_files(props):
        src = committed_source(path)
        m, bl = mask(src)
        excl = excluded_spans(m)
        fns = functions(m)
        sites = op_sites(src, m, bl)
        line_of = lambda pos: src.count("\n", 0, pos) + 1
        seen = set()
        byfn = {}
        for (a, b, rep, op, detail) in sites:
            if any(x <= a < y for x, y in excl):
                continue
            ls = src.rfind("\n", 0, a) + 1
            if m[ls:a].strip().startswith("#[") or m[ls:a].strip().startswith("#!["):
                continue
            # innermost enclosing fn
            fn = None
            for (name, s, e, decl) in fns:
                if s <= a < e and (fn is None or s > fn[1]):
                    fn = (name, s, e)
            if fn is None:
                # outside a body: only const/static items
                le = src.find("\n", a)
                ltxt = m[ls:le if le >= 0 else len(m)]
                if not re.match(r"\s*(pub(\([a-z]+\))?\s+)?(const|static)\s", ltxt):
                    continue
                fname = "<const>"
            else:
                fname = "%s@%d" % (fn[0], line_of(fn[1]))
            new = src[:a] + rep + src[b:]
            if new == src:
                continue
            key = hashlib.sha256((path + "\0" + new).encode()).hexdigest()[:16]
            if key in seen:
                continue
            seen.add(key)
            byfn.setdefault(fname, []).append({"id": key, "file": path, "line": line_of(a), "col": a - ls + 1, "function": fname.split("@")[0],
                                               "operator": op, "detail": detail, "start": a, "end": b, "replacement": rep})
        # inside one function: round-robin over operator classes so that no class dominates
        fn_queues = []
        for fname in sorted(byfn):
            byop = {}
            for s in byfn[fname]:
                byop.setdefault(s["operator"], []).append(s)
            ops = sorted(byop)
            rng.shuffle(ops)
            for o in ops:
                rng.shuffle(byop[o])
            q = []
            while any(byop[o] for o in ops):
                for o in ops:
                    if byop[o]:
                        q.append(byop[o].pop())
            fn_queues.append(q)
        rng.shuffle(fn_queues)
        # inside one file: round-robin over functions
        fq = []
        depth = 0
        while any(len(q) > depth for q in fn_queues):
            layer = [q[depth] for q in fn_queues if len(q) > depth]
            rng.shuffle(layer)
            fq.extend(layer)
            depth += 1
        per_file[path] = fq
    # over files: weight sqrt(number of sites) so that small files are not starved and big ones not flooded
    keyed = []
    for path, fq in per_file.items():
        w = max(1.0, len(fq)) ** 0.5
        for i, s in enumerate(fq):
            keyed.append(((i + rng.random()) / w, path, i, s))
    keyed.sort(key=lambda t: (t[0], t[1], t[2]))
    out = []
    for n, (_, path, _, s) in enumerate(keyed):
        s = dict(s, n=n, props=props_for(path, props))
        out.append(s)
    return out


def changed_lines(diff):
    minus = [l[1:].strip() for l in diff.split("\n") if l.startswith("-") and not l.startswith("---")]
    plus = [l[1:].strip() for l in diff.split("\n") if l.startswith("+") and not l.startswith("+++")]
    return minus, plus


def context_key(file, function, operator, diff):
    """identity of a mutation that survives unrelated edits of the file: (file, function, operator, text of the changed lines)"""
    minus, plus = changed_lines(diff)
    return hashlib.sha256("\0".join([file, function or "", operator, "\n".join(minus), "\n".join(plus)]).encode()).hexdigest()[:16]


_SRC = {}


def committed_source(path):
    """the file as committed at REPO's HEAD (not the working file: somebody may be trying a patch there while a sweep runs)"""
    if path not in _SRC:
        p = subprocess.run(["git", "-C", REPO, "show", "HEAD:" + path], stdout=subprocess.PIPE)
        _SRC[path] = p.stdout.decode("utf-8") if p.returncode == 0 else open(os.path.join(REPO, path), encoding="utf-8").read()
    return _SRC[path]


def mutant_diff(mu):
    if mu.get("diff"):
        return mu["diff"]          # a mutant taken from the results of an earlier round (--from-results)
    src = committed_source(mu["file"])
    new = src[:mu["start"]] + mu["replacement"] + src[mu["end"]:]
    return make_diff(mu["file"], src, new)


def cmd_gen(a):
    os.makedirs(OUT, exist_ok=True)
    ms = enumerate_mutants(a.seed)
    head = subprocess.run(["git", "-C", REPO, "rev-parse", "HEAD"], stdout=subprocess.PIPE).stdout.decode().strip()
    prev = set()
    for pth in (a.skip_results.split(",") if a.skip_results else []):
        for l in open(pth):
            if l.strip():
                r = json.loads(l)
                if r.get("diff"):
                    prev.add(context_key(r["file"], r.get("function"), r["operator"], r["diff"]))
    nprev = 0
    with open(MUTANTS, "w") as f:
        for mu in ms:
            mu["repo_head"] = head
            mu["ckey"] = context_key(mu["file"], mu["function"], mu["operator"], mutant_diff(mu))
            mu["earlier_round"] = mu["ckey"] in prev
            nprev += mu["earlier_round"]
            f.write(json.dumps(mu) + "\n")
    print("run in an earlier round (skipped by `run`):", nprev, "of", len(prev), "earlier results")
    byop, byfile = {}, {}
    for mu in ms:
        byop[mu["operator"]] = byop.get(mu["operator"], 0) + 1
        byfile[mu["file"]] = byfile.get(mu["file"], 0) + 1
    print("mutants:", len(ms), "seed", a.seed, "repo", head[:8])
    print("by operator:", json.dumps(byop, sort_keys=True))
    print("by file:", json.dumps(byfile, sort_keys=True))
    first = ms[:a.preview]
    pf = {}
    for mu in first:
        pf[mu["file"]] = pf.get(mu["file"], 0) + 1
    print("first %d by file:" % a.preview, json.dumps(pf, sort_keys=True))
    po = {}
    for mu in first:
        po[mu["operator"]] = po.get(mu["operator"], 0) + 1
    print("first %d by operator:" % a.preview, json.dumps(po, sort_keys=True))


def load_mutants():
    return [json.loads(l) for l in open(MUTANTS)]


def load_results():
    res = {}
    if os.path.exists(RESULTS):
        for l in open(RESULTS):
            l = l.strip()
            if l:
                try:
                    r = json.loads(l)
                    res[r["id"]] = r
                except Exception:
                    pass
    return res


# ------------------------------------------------------------------------------------------------
# running

def sh(cmd, cwd, timeout, env=None):
    """run in its own process group; on time-out kill that group by PID. returns (rc|None, output, seconds)"""
    t = time.time()
    p = subprocess.Popen(cmd, cwd=cwd, shell=isinstance(cmd, str), stdout=subprocess.PIPE, stderr=subprocess.STDOUT, env=env or ENV, start_new_session=True)
    try:
        out, _ = p.communicate(timeout=timeout)
        rc = p.returncode
    except subprocess.TimeoutExpired:
        try:
            os.killpg(p.pid, signal.SIGKILL)
        except ProcessLookupError:
            pass
        out, _ = p.communicate()
        rc = None
    return rc, out.decode("utf-8", "replace"), time.time() - t


class Worker:
    def __init__(self, d):
        self.dir = d
        self.repo = os.path.join(d, "repo")
        self.verif = os.path.join(d, "verif")
        self.env = dict(ENV, VERIF_REPO=self.repo)
        self.snap = os.path.join(d, "coq.snap")
        self.gen = os.path.join(self.verif, "coq", "theories", "Gen", "Generated.v")

    def gen_hash(self):
        try:
            return hashlib.sha256(open(self.gen, "rb").read()).hexdigest()
        except OSError:
            return ""

    def revert(self):
        sh("git checkout -q -- . && git status --porcelain", self.repo, 120)

    def check(self, pid, timeout=2400):
        rc, out, dt = sh(["bin/vp", "check", pid, "--tier", "quick"], self.verif, timeout, self.env)
        lines = [l for l in out.split("\n") if l.startswith(("VIOLATION", "CHECK-BROKEN", "STALE-FINDING"))]
        viol = [l for l in lines if l.startswith("VIOLATION")]
        info = {"exit": rc if rc is not None else "timeout", "seconds": round(dt, 1),
                "violations": [l[:300] for l in viol[:6]],
                "concrete": sum(1 for l in viol if "no-failing-input-found" not in l),
                "no_failing_input_found": sum(1 for l in viol if "no-failing-input-found" in l),
                "other": [l[:300] for l in lines if not l.startswith("VIOLATION")][:4]}
        # what the replay says (why / broken obligations), for the report
        why = []
        for l in viol[:3]:
            mm = re.search(r"replay=(\S+)", l)
            if mm and os.path.exists(mm.group(1)):
                try:
                    rp = json.load(open(mm.group(1)))
                    if rp.get("why"):
                        why.append(("why: %s | impl=%s" % (rp.get("why"), rp.get("impl", "")))[:300])
                    elif rp.get("broken"):
                        why.append(("broken: " + "; ".join(rp["broken"]))[:400])
                except Exception:
                    pass
        info["why"] = why
        if rc not in (0, 1):
            info["tail"] = out[-600:]
        return info

    def snapshot(self):
        if os.path.exists(self.snap):
            shutil.rmtree(self.snap)
        sh(["cp", "-a", os.path.join(self.verif, "coq"), self.snap], self.dir, 600)
        open(os.path.join(self.dir, "coq.snap.hash"), "w").write(self.gen_hash())

    def restore_if_needed(self, force=False):
        """a mutant that changed a generated table leaves rebuilt .vo files behind: put the unchanged tree's build back
        (mtimes preserved) instead of paying for the rebuild of the cone on the next mutant"""
        hp = os.path.join(self.dir, "coq.snap.hash")
        if not os.path.exists(self.snap) or not os.path.exists(hp):
            return False
        if force or self.gen_hash() != open(hp).read():
            sh(["rsync", "-a", "--delete", self.snap + "/", os.path.join(self.verif, "coq") + "/"], self.dir, 600)
            return True
        return False


def run_mutant(w, mu, stop_on_detect=False, check_jobs=1):
    t0 = time.time()
    diff = mutant_diff(mu)
    rec = {"id": mu["id"], "n": mu["n"], "file": mu["file"], "line": mu["line"], "function": mu["function"], "operator": mu["operator"],
           "detail": mu["detail"], "diff": diff, "worker": w.dir, "compile": None, "tests": None, "checks": {}, "outcome": None}
    w.revert()
    p = subprocess.run(["git", "apply", "-"], cwd=w.repo, input=diff.encode(), stdout=subprocess.PIPE, stderr=subprocess.STDOUT)
    if p.returncode != 0 and mu.get("diff"):
        # an earlier round's diff on a library that moved on: accept shifted lines / one line of context
        w.revert()
        p = subprocess.run(["git", "apply", "-C1", "--recount", "-"], cwd=w.repo, input=diff.encode(), stdout=subprocess.PIPE, stderr=subprocess.STDOUT)
        rec["applied_with_reduced_context"] = p.returncode == 0
    if p.returncode != 0:
        rec["outcome"] = "apply-failed"
        rec["note"] = p.stdout.decode()[-300:]
        rec["seconds"] = round(time.time() - t0, 1)
        return rec
    try:
        rc, out, dt = sh("cargo build --offline 2>&1 | tail -40", w.repo, 900)
        ok = rc == 0 and not re.search(r"^error(\[E\d+\])?:", out, flags=re.M) and "could not compile" not in out
        rec["compile"] = ok
        rec["compile_s"] = round(dt, 1)
        if not ok:
            rec["outcome"] = "not-compiling"
            mm = re.search(r"^error.*$", out, flags=re.M)
            rec["note"] = mm.group(0)[:200] if mm else out[-200:]
            return rec
        rc, out, dt = sh("cargo test --workspace --offline --no-fail-fast 2>&1", w.repo, 1500)
        failed = re.findall(r"^test (\S+) \.\.\. FAILED", out, flags=re.M)
        results = re.findall(r"^test result: (\w+)\. (\d+) passed; (\d+) failed", out, flags=re.M)
        rec["tests_s"] = round(dt, 1)
        rec["tests_passed"] = sum(int(r[1]) for r in results)
        if rc is None:
            rec["tests"] = False
            rec["outcome"] = "killed-by-tests"
            rec["note"] = "test suite timed out"
            return rec
        if rc != 0:
            rec["tests"] = False
            rec["outcome"] = "killed-by-tests"
            rec["failed_tests"] = failed[:10]
            if not failed:
                rec["note"] = out[-300:]
            return rec
        rec["tests"] = True
        detected = False
        # the translator decides whether the generated tables changed: if they did not, every .vo is up to date and the
        # checks of this mutant can safely overlap (the build phase of each check is serialised by vp's own lock);
        # if they did, the cone is rebuilt and the checks run one after the other
        sh([sys.executable, os.path.join(w.verif, "gen", "extract.py")], w.verif, 300, w.env)
        hp = os.path.join(w.dir, "coq.snap.hash")
        tables_changed = (not os.path.exists(hp)) or w.gen_hash() != open(hp).read()
        rec["tables_changed"] = tables_changed
        if check_jobs > 1 and not tables_changed and not stop_on_detect:
            from concurrent.futures import ThreadPoolExecutor
            first = mu["props"][0]
            rec["checks"][first] = w.check(first)          # builds the harness once
            with ThreadPoolExecutor(max_workers=check_jobs) as ex:
                rest = mu["props"][1:]
                for pid, info in zip(rest, ex.map(w.check, rest)):
                    rec["checks"][pid] = info
            detected = any(c["exit"] == 1 for c in rec["checks"].values())
        else:
            for pid in mu["props"]:
                info = w.check(pid)
                rec["checks"][pid] = info
                if info["exit"] == 1:
                    detected = True
                    if stop_on_detect:
                        break
        rec["outcome"] = "detected" if detected else "survived"
        return rec
    finally:
        w.revert()
        rec["restored_coq"] = w.restore_if_needed()
        rec["seconds"] = round(time.time() - t0, 1)


def cmd_run(a):
    os.makedirs(SURV, exist_ok=True)
    workers = [Worker(d) for d in a.workers.split(",")]
    if a.from_results:
        props = load_props()
        ms = []
        for l in open(a.from_results):
            if l.strip():
                r = json.loads(l)
                if r.get("diff"):
                    ms.append({"id": r["id"], "n": r["n"], "file": r["file"], "line": r["line"], "function": r.get("function", ""), "operator": r["operator"],
                               "detail": r.get("detail", ""), "diff": r["diff"], "props": props_for(r["file"], props)})
    else:
        ms = load_mutants()
    done = load_results()
    if a.only_files:
        keep = set(a.only_files.split(","))
        ms = [m for m in ms if m["file"] in keep]
    if a.ids:
        keep = set(a.ids.split(","))
        ms = [m for m in ms if m["id"] in keep or str(m["n"]) in keep]
    results_path = RESULTS
    if a.results_name:
        results_path = os.path.join(OUT, a.results_name)
        done = {json.loads(l)["id"]: {} for l in open(results_path) if l.strip()} if os.path.exists(results_path) else {}
    if a.all_props:
        # second pass over chosen mutants (e.g. the gaps): every one of the 20 checks, to tell a gap of the framework from a
        # gap of the file -> property map in properties.jsonl; kept apart from the sweep's results
        results_path = os.path.join(OUT, a.results_name or "results_allprops.jsonl")
        allp = sorted(load_props())
        done = {}
        if os.path.exists(results_path):
            done = {json.loads(l)["id"]: {} for l in open(results_path) if l.strip()}
        for m in ms:
            m["props"] = allp
    todo = [m for m in ms if m["id"] not in done and (a.ids or a.all_props or not m.get("earlier_round"))]
    if a.limit:
        todo = todo[:a.limit]
    lock = threading.Lock()
    state = {"i": 0, "passing": sum(1 for r in done.values() if r.get("tests")), "stop": False}
    stopfile = os.path.join(OUT, "STOP")

    def loop(w):
        while True:
            with lock:
                if state["stop"] or state["i"] >= len(todo) or os.path.exists(stopfile):
                    return
                if a.target_pass and state["passing"] >= a.target_pass:
                    return
                mu = todo[state["i"]]
                state["i"] += 1
            try:
                rec = run_mutant(w, mu, a.stop_on_detect, a.check_jobs)
            except Exception as e:
                rec = {"id": mu["id"], "n": mu["n"], "file": mu["file"], "line": mu["line"], "operator": mu["operator"], "outcome": "driver-error", "note": repr(e)}
                w.revert()
            with lock:
                with open(results_path, "a") as f:
                    f.write(json.dumps(rec) + "\n")
                if rec.get("tests"):
                    state["passing"] += 1
                if rec["outcome"] == "survived" and not a.all_props and not a.results_name:
                    open(os.path.join(SURV, "%04d.diff" % mu["n"]), "w").write(rec["diff"])
                ck = " ".join("%s=%s" % (p, c["exit"]) for p, c in rec.get("checks", {}).items())
                print("[%s] #%04d %-14s %s:%d %-9s %-40s %ss %s" % (time.strftime("%H:%M:%S"), mu["n"], rec["outcome"], mu["file"].replace("pdf/src/", ""), mu["line"],
                                                                 mu["operator"], mu["detail"][:40], rec.get("seconds"), ck), flush=True)

    ts = [threading.Thread(target=loop, args=(w,)) for w in workers]
    for t in ts:
        t.start()
    for t in ts:
        t.join()
    print("done; test-passing mutants so far:", state["passing"])


def cmd_baseline(a):
    workers = [Worker(d) for d in a.workers.split(",")]
    props = sorted(load_props())
    res = {}

    def loop(w):
        w.revert()
        r = {}
        for pid in props:
            info = w.check(pid)
            r[pid] = info
            print(w.dir, pid, info["exit"], info["seconds"], info["violations"][:1], info["other"][:1], flush=True)
        res[w.dir] = r
        w.snapshot()

    ts = [threading.Thread(target=loop, args=(w,)) for w in workers]
    for t in ts:
        t.start()
    for t in ts:
        t.join()
    os.makedirs(OUT, exist_ok=True)
    json.dump(res, open(os.path.join(OUT, "baseline.json"), "w"), indent=1)
    bad = [(d, p) for d, r in res.items() for p, i in r.items() if i["exit"] != 0]
    print("baseline:", "all checks exit 0" if not bad else "NOT CLEAN: %s" % bad)


def cmd_show(a):
    for mu in load_mutants():
        if str(mu["n"]) == a.n or mu["id"] == a.n:
            print(json.dumps({k: mu[k] for k in ("n", "id", "file", "line", "function", "operator", "detail", "props")}))
            print(mutant_diff(mu))


def cmd_stats(a):
    res = list(load_results().values())
    tot = {}
    for r in res:
        tot[r["outcome"]] = tot.get(r["outcome"], 0) + 1
    print("generated (run):", len(res), json.dumps(tot, sort_keys=True))
    passing = [r for r in res if r.get("tests")]
    det = [r for r in passing if r["outcome"] == "detected"]
    print("compiled+test-passing: %d, detected %d (%.1f%%), survived %d" % (len(passing), len(det), 100.0 * len(det) / max(1, len(passing)), len(passing) - len(det)))

    def table(keyf, title):
        t = {}
        for r in passing:
            for k in keyf(r):
                d = t.setdefault(k, [0, 0])
                d[0] += 1
        return t
    print("\nper property (checks run / exit 1 / concrete / no-failing-input only / exit 2):")
    pp = {}
    for r in passing:
        for p, c in r["checks"].items():
            d = pp.setdefault(p, [0, 0, 0, 0, 0])
            d[0] += 1
            if c["exit"] == 1:
                d[1] += 1
                if c["concrete"]:
                    d[2] += 1
                else:
                    d[3] += 1
            elif c["exit"] != 0:
                d[4] += 1
    for p in sorted(pp):
        d = pp[p]
        print("  %s  run %3d  detected %3d (%.0f%%)  concrete %3d  proof/tie-only %3d  broken/timeout %d" % (p, d[0], d[1], 100.0 * d[1] / d[0], d[2], d[3], d[4]))
    print("\nper file (passing / detected):")
    pf = {}
    for r in passing:
        d = pf.setdefault(r["file"], [0, 0])
        d[0] += 1
        d[1] += r["outcome"] == "detected"
    for f in sorted(pf):
        print("  %-36s %3d %3d  %.0f%%" % (f, pf[f][0], pf[f][1], 100.0 * pf[f][1] / pf[f][0]))
    print("\nper operator (passing / detected):")
    po = {}
    for r in passing:
        d = po.setdefault(r["operator"], [0, 0])
        d[0] += 1
        d[1] += r["outcome"] == "detected"
    for f in sorted(po):
        print("  %-10s %3d %3d  %.0f%%" % (f, po[f][0], po[f][1], 100.0 * po[f][1] / po[f][0]))


def cmd_report(a):
    """build/mut/REPORT.md from results.jsonl + build/mut/analysis/NNNN.json (one analysis per survivor) + analysis/STRENGTHENED.md"""
    res = sorted(load_results().values(), key=lambda r: r.get("n", 0))
    props = load_props()
    tot = {}
    for r in res:
        tot[r["outcome"]] = tot.get(r["outcome"], 0) + 1
    passing = [r for r in res if r.get("tests")]
    det = [r for r in passing if r["outcome"] == "detected"]
    surv = [r for r in passing if r["outcome"] == "survived"]
    ana = {}
    ad = os.path.join(OUT, "analysis")
    if os.path.isdir(ad):
        for fn in os.listdir(ad):
            if re.match(r"^\d+\.json$", fn):
                try:
                    d = json.load(open(os.path.join(ad, fn)))
                    ana[int(d["n"])] = d
                except Exception as e:
                    print("unreadable analysis", fn, e)
    allp = {}
    ap = os.path.join(OUT, "results_allprops.jsonl")
    if os.path.exists(ap):
        for l in open(ap):
            if l.strip():
                r2 = json.loads(l)
                allp[r2["n"]] = r2
    def caught_by_unmapped(n):
        r2 = allp.get(n)
        if not r2:
            return None
        return sorted(p for p, c in r2.get("checks", {}).items() if c["exit"] == 1)
    L = []
    w = L.append
    head = res[0].get("diff", "") and subprocess.run(["git", "-C", REPO, "rev-parse", "--short", "HEAD"], stdout=subprocess.PIPE).stdout.decode().strip()
    w("# " + a.title + "\n")
    w(("Driver: `tools/mutate.py` (seed 20260929, library at `%s`, framework branch `" + subprocess.run(["git", "-C", ROOT, "rev-parse", "--abbrev-ref", "HEAD"], stdout=subprocess.PIPE).stdout.decode().strip() + "`, quick tier, check seed 20260927).  "
      "A mutant is **detected** when at least one relevant `bin/vp check Cxx` exits 1, **survived** otherwise; relevant = every property whose "
      "`anchors.files` names the mutated file" + (" or that `EXTRA_MAP` in tools/mutate.py adds for it" if USE_EXTRA_MAP and a.art_prefix != "mutation" else "") + ", plus C01 and C14 for files under `parser/`, `object/`, `enc.rs`, `font.rs`, `crypt.rs`, `file.rs`, `backend.rs`, `xref.rs`.  "
      "The unchanged tree was checked first in all three worker worktrees: all 20 checks exit 0 (`" + a.art_prefix + "/baseline.json`).\n") % head)
    w("## 1. Totals\n")
    w("| | mutants |\n|---|---|")
    w("| generated (sites enumerated over 23 anchored files) | %d |" % len(load_mutants()))
    w("| run (in the seed's order, evenly spread over files and functions) | %d |" % len(res))
    w("| not compiling | %d |" % tot.get("not-compiling", 0))
    w("| killed by the repository's own tests | %d |" % tot.get("killed-by-tests", 0))
    w("| **compiled and test-passing** | **%d** |" % len(passing))
    w("| detected by at least one check | %d (%.1f %%) |" % (len(det), 100.0 * len(det) / max(1, len(passing))))
    w("| survived | %d (%.1f %%) |" % (len(surv), 100.0 * len(surv) / max(1, len(passing))))
    for k in tot:
        if k not in ("not-compiling", "killed-by-tests", "detected", "survived"):
            w("| %s | %d |" % (k, tot[k]))
    gaps = [r for r in surv if ana.get(r["n"], {}).get("verdict") == "GAP"]
    map_gaps = [r for r in gaps if caught_by_unmapped(r["n"])]
    nG = sum(1 for r in surv if ana.get(r["n"], {}).get("verdict") == "GAP")
    nE = sum(1 for r in surv if ana.get(r["n"], {}).get("verdict") == "EQUIVALENT")
    nU = len(surv) - nG - nE
    w("\nSurvivors by analysis: **%d gaps** (demonstrated on the real crate), %d equivalent w.r.t. the 20 properties, %d undemonstrated/unanalysed.  "
      "Detection rate over the non-equivalent mutants (detected / (detected + gaps + undemonstrated)): **%.1f %%**.\n"
      % (nG, nE, nU, 100.0 * len(det) / max(1, len(det) + nG + nU)))
    if allp:
        w("Every gap was run a second time against **all 20 checks** (`" + a.art_prefix + "/results_allprops.jsonl`): %d of the %d gaps are detected by a property "
          "that `properties.jsonl` does not map to the mutated file (a gap of the file → property map, not of the checks); %d are detected by no check at all.  "
          "With the complete suite run on every mutant the detection rate over non-equivalent mutants would be (%d + %d) / %d = **%.1f %%**.\n"
          % (len(map_gaps), len(gaps), len(gaps) - len(map_gaps), len(det), len(map_gaps), len(det) + nG + nU, 100.0 * (len(det) + len(map_gaps)) / max(1, len(det) + nG + nU)))

    w("## 2. Detection per property\n")
    w("`run` = test-passing mutants for which the property's check was run; `exit 1` = the check reported a VIOLATION; `concrete` = at least one "
      "VIOLATION line with a replayable failing input; `proof/tie only` = only `no-failing-input-found` lines (a proof obligation, generated-table lemma or the "
      "model/implementation correspondence broke, no spec-violating input found); `exit 2` = CHECK-BROKEN; `sole` = the property was the only one that detected the mutant.\n")
    w("| property | run | exit 1 | rate | concrete | proof/tie only | exit 2 / time-out | sole detector | gaps attributed |")
    w("|---|---|---|---|---|---|---|---|---|")
    pp = {}
    for r in passing:
        dets = [p for p, c in r["checks"].items() if c["exit"] == 1]
        for p, c in r["checks"].items():
            d = pp.setdefault(p, [0, 0, 0, 0, 0, 0])
            d[0] += 1
            if c["exit"] == 1:
                d[1] += 1
                d[2 if c["concrete"] else 3] += 1
                if len(dets) == 1:
                    d[5] += 1
            elif c["exit"] != 0:
                d[4] += 1
    gaps_by_prop = {}
    for r in surv:
        d = ana.get(r["n"])
        if d and d.get("verdict") == "GAP":
            gaps_by_prop.setdefault(d.get("property") or "?", []).append(r["n"])
    for p in sorted(pp):
        d = pp[p]
        w("| %s | %d | %d | %.0f %% | %d | %d | %d | %d | %d |" % (p, d[0], d[1], 100.0 * d[1] / d[0], d[2], d[3], d[4], d[5], len(gaps_by_prop.get(p, []))))
    w("\n(The rate of a property is low by construction where the property is only *associated* with a file: e.g. C01/C14 are run for every file of the parser/object area, "
      "but only panics, aborts and hangs count for them.)\n")

    w("## 3. Detection per file and per operator\n")
    w("| file | test-passing | detected | survived | of which gaps | rate |")
    w("|---|---|---|---|---|---|")
    pf = {}
    for r in passing:
        d = pf.setdefault(r["file"], [0, 0, 0])
        d[0] += 1
        d[1] += r["outcome"] == "detected"
        d[2] += ana.get(r["n"], {}).get("verdict") == "GAP"
    for f in sorted(pf):
        d = pf[f]
        w("| `%s` | %d | %d | %d | %d | %.0f %% |" % (f, d[0], d[1], d[0] - d[1], d[2], 100.0 * d[1] / d[0]))
    w("\n| operator | run | not compiling | killed by tests | test-passing | detected | survived | rate |")
    w("|---|---|---|---|---|---|---|---|")
    po = {}
    for r in res:
        d = po.setdefault(r["operator"], [0, 0, 0, 0, 0])
        d[0] += 1
        d[1] += r["outcome"] == "not-compiling"
        d[2] += r["outcome"] == "killed-by-tests"
        d[3] += bool(r.get("tests"))
        d[4] += r["outcome"] == "detected"
    for o in sorted(po):
        d = po[o]
        w("| %s | %d | %d | %d | %d | %d | %d | %s |" % (o, d[0], d[1], d[2], d[3], d[4], d[3] - d[4], ("%.0f %%" % (100.0 * d[4] / d[3])) if d[3] else "–"))

    w("\n## 4. How the detected mutants were detected\n")
    conc = [r for r in det if any(c["exit"] == 1 and c["concrete"] for c in r["checks"].values())]
    w("%d of %d detected mutants were detected with a **concrete replay** (an input on which the real crate violates the spec oracle) by at least one check; "
      "%d only through a **broken proof obligation / generated-table lemma / model-implementation correspondence** (`no-failing-input-found`).\n"
      % (len(conc), len(det), len(det) - len(conc)))
    w("| # | file:line | operator | mutation | detected by (c = concrete replay, p = proof/tie only) | first reason |")
    w("|---|---|---|---|---|---|")
    for r in det:
        by = " ".join("%s%s" % (p, "ᶜ" if c["concrete"] else "ᵖ") for p, c in r["checks"].items() if c["exit"] == 1)
        why = ""
        for p, c in r["checks"].items():
            if c["exit"] == 1 and c.get("why"):
                why = c["why"][0]
                break
        why = why.replace("|", "/").replace("\n", " ")[:160]
        w("| %04d | `%s:%d` | %s | %s | %s | %s |" % (r["n"], r["file"].replace("pdf/src/", ""), r["line"], r["operator"], r["detail"].replace("|", "/")[:50], by, why))

    w("\n## 5. Survivors\n")
    w("One paragraph per survivor.  **EQUIVALENT (a)** = no behaviour change at all (dead code, performance, message text); **EQUIVALENT (b)** = behaviour changes only in "
      "functionality none of the 20 statements speaks about, and no panic/hang is introduced; **GAP** = a property statement is violated on an input of its domain, "
      "demonstrated by a Rust test that passes on the unchanged crate and fails on the mutant (`%s/demos/mut_NNNN.rs`).  Diffs: `%s/survivors/NNNN.diff`.\n" % (a.art_prefix, a.art_prefix))
    for r in surv:
        d = ana.get(r["n"])
        change = [l for l in r["diff"].split("\n") if (l.startswith("-") or l.startswith("+")) and not l.startswith(("---", "+++"))]
        w("**#%04d** `%s:%d` (`%s`) — %s: %s  " % (r["n"], r["file"], r["line"], r.get("function", ""), r["operator"], r["detail"]))
        w("`" + " ⟶ ".join(c[1:].strip()[:110] for c in change[:2] if c[1:].strip()) + "`  ")
        w("checks run: " + " ".join("%s=%s" % (p, c["exit"]) for p, c in r["checks"].items()) + "  ")
        if not d:
            w("*not analysed*\n")
            continue
        v = d.get("verdict")
        tag = v + (" (%s)" % d["flavour"] if d.get("flavour") and v == "EQUIVALENT" else "") + ((" — " + d["property"]) if d.get("property") and v != "EQUIVALENT" else "")
        w("**%s.** %s" % (tag, d.get("paragraph", "").strip()))
        if v == "GAP":
            cb = caught_by_unmapped(r["n"])
            if cb is not None:
                w("  *All 20 checks on this mutant:* " + ("detected by **%s** (not mapped to `%s` in properties.jsonl)." % (", ".join(cb), r["file"]) if cb else "no check detects it."))
            dm = d.get("demo") or {}
            w("  *Demo:* `" + a.art_prefix + "/demos/%s` — unchanged: %s; mutant: %s.  *Why missed:* %s  *Proposal:* %s" % (
                os.path.basename(dm.get("test", "?")), dm.get("original", "?"), str(dm.get("mutant", "?"))[:300], d.get("why_missed", ""), d.get("proposal", "")))
        w("")

    w("## 6. Gaps grouped by property (for the area owners)\n")
    for p in sorted(gaps_by_prop):
        w("### %s\n" % p)
        for n in gaps_by_prop[p]:
            d = ana[n]
            r = [x for x in surv if x["n"] == n][0]
            cb = caught_by_unmapped(n)
            cbt = "" if cb is None else (" [full suite: caught by %s]" % ", ".join(cb) if cb else " [full suite: caught by no check]")
            w("* **#%04d** `%s:%d` %s (%s)%s — %s  **Strengthening:** %s" % (n, r["file"], r["line"], r["operator"], r["detail"], cbt, (d.get("why_missed") or "").strip(), (d.get("proposal") or "").strip()))
        w("")
    extra = os.path.join(ad, "STRENGTHENED.md")
    if os.path.exists(extra):
        w(open(extra).read())
    os.makedirs(OUT, exist_ok=True)
    open(os.path.join(OUT, "REPORT.md"), "w").write("\n".join(L) + "\n")
    print("wrote", os.path.join(OUT, "REPORT.md"), "survivors", len(surv), "analysed", sum(1 for r in surv if r["n"] in ana), "gaps", nG)


def cmd_cumulative(a):
    """totals and per-property table over several rounds (markdown on stdout)"""
    tot, pp = {}, {}
    verd = {"GAP": 0, "EQUIVALENT": 0, "other": 0}
    for d in a.rounds:
        for l in open(os.path.join(d, "results.jsonl")):
            if not l.strip():
                continue
            r = json.loads(l)
            tot[r["outcome"]] = tot.get(r["outcome"], 0) + 1
            if r.get("tests"):
                for p, c in r["checks"].items():
                    q = pp.setdefault(p, [0, 0, 0, 0])
                    q[0] += 1
                    if c["exit"] == 1:
                        q[1] += 1
                        q[2 if c["concrete"] else 3] += 1
            if r["outcome"] == "survived":
                f = os.path.join(d, "analysis", "%04d.json" % r["n"])
                v = json.load(open(f)).get("verdict") if os.path.exists(f) else None
                verd[v if v in verd else "other"] += 1
    n = sum(tot.values())
    passing = tot.get("detected", 0) + tot.get("survived", 0)
    print("| | all rounds |\n|---|---|")
    print("| run | %d |\n| not compiling | %d |\n| killed by the repository's own tests | %d |\n| apply-failed / driver errors | %d |" % (
        n, tot.get("not-compiling", 0), tot.get("killed-by-tests", 0), n - passing - tot.get("not-compiling", 0) - tot.get("killed-by-tests", 0)))
    print("| **compiled and test-passing** | **%d** |\n| detected | %d (%.1f %%) |\n| survived | %d |" % (passing, tot.get("detected", 0), 100.0 * tot.get("detected", 0) / max(1, passing), tot.get("survived", 0)))
    print("| survivors: equivalent / gaps / unanalysed | %d / %d / %d |" % (verd["EQUIVALENT"], verd["GAP"], verd["other"]))
    print("| detection over non-equivalent mutants | %.1f %% |" % (100.0 * tot.get("detected", 0) / max(1, tot.get("detected", 0) + verd["GAP"] + verd["other"])))
    print("\n| property | run | exit 1 | rate | concrete | proof/tie only |\n|---|---|---|---|---|---|")
    for p in sorted(pp):
        q = pp[p]
        print("| %s | %d | %d | %.0f %% | %d | %d |" % (p, q[0], q[1], 100.0 * q[1] / q[0], q[2], q[3]))


def main():
    ap = argparse.ArgumentParser()
    sub = ap.add_subparsers(dest="cmd", required=True)
    g = sub.add_parser("gen"); g.add_argument("--seed", type=int, default=20260929); g.add_argument("--preview", type=int, default=500)
    g.add_argument("--skip-results", default="", help="results.jsonl of earlier rounds: their mutants are marked and not run again")
    r = sub.add_parser("run"); r.add_argument("--workers", required=True); r.add_argument("--limit", type=int, default=0)
    r.add_argument("--target-pass", type=int, default=0); r.add_argument("--only-files", default=""); r.add_argument("--ids", default="")
    r.add_argument("--stop-on-detect", action="store_true"); r.add_argument("--check-jobs", type=int, default=1)
    r.add_argument("--all-props", action="store_true")
    r.add_argument("--from-results", default="", help="take the mutants (with their diffs) from an earlier round's results.jsonl")
    r.add_argument("--results-name", default="", help="file name under the output directory for this run's records")
    b = sub.add_parser("baseline"); b.add_argument("--workers", required=True)
    s = sub.add_parser("show"); s.add_argument("n")
    sub.add_parser("stats")
    rp = sub.add_parser("report"); rp.add_argument("--art-prefix", default="mutation"); rp.add_argument("--title", default="Mutation sweep of the pdf-rs verification framework")
    cu = sub.add_parser("cumulative"); cu.add_argument("rounds", nargs="+", help="DIR holding results.jsonl and analysis/NNNN.json, one per round")
    ap.add_argument("--no-extra-map", action="store_true")
    a = ap.parse_args()
    if a.no_extra_map:
        global USE_EXTRA_MAP
        USE_EXTRA_MAP = False
    {"gen": cmd_gen, "run": cmd_run, "baseline": cmd_baseline, "show": cmd_show, "stats": cmd_stats, "report": cmd_report, "cumulative": cmd_cumulative}[a.cmd](a)


if __name__ == "__main__":
    main()
