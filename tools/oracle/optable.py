"""tools/oracle/optable.py — specification side of C08, written from ISO 32000-1 (not from pdf-rs):

  * exact binary32 rounding of decimal text and shortest round-trip printing (what Rust's `{}` prints);
  * the operator table of Annex A with the operand shapes of §8.2–§8.7, §9.3–§9.4, §14.6 and the meaning of each
    operator as operations (shorthands expanded as Tables 59, 60, 107–109 define them);
  * the current point as Table 59 defines it (m, l, c, v, y set it; h returns to the start of the subpath; re leaves it at
    the rectangle's corner; path-painting operators end the path);
  * a reference tokenizer for content streams (§7.2, §7.3, §7.8.2) and the interpreter built on the table;
  * the canonical atom encoding of operation lists (same grammar as Content/Canon.v and harness/src/modes/content.rs).

Values: number = F(bits) (binary32 bit pattern), name = Nm(bytes), string = bytes, integer = int, bool, None,
array = list, dictionary = Dict([(key bytes, value)]).  Operation = tuple (constructor, fields…).
"""
import struct
from fractions import Fraction


# ------------------------------------------------------------------------------------------------
# binary32

def bits_of_float(x):
    return struct.unpack(">I", struct.pack(">f", x))[0]


def float_of_bits(b):
    return struct.unpack(">f", struct.pack(">I", b))[0]


def frac_of_bits(b):
    s = -1 if b >> 31 else 1
    e = (b >> 23) & 0xff
    m = b & 0x7fffff
    if e == 255:
        raise ValueError("not finite")
    if e == 0:
        return s * Fraction(m, 1 << 149)
    return s * Fraction((1 << 23) | m) * (Fraction(2) ** (e - 150))


def round_f32(q):
    """bit pattern of the binary32 nearest to the rational q (ties to even); overflow -> infinity"""
    if q == 0:
        return 0
    sign = 0x80000000 if q < 0 else 0
    q = abs(q)
    # find e with 2^e <= q < 2^(e+1)
    e = q.numerator.bit_length() - q.denominator.bit_length()
    if Fraction(2) ** e > q:
        e -= 1
    if Fraction(2) ** (e + 1) <= q:
        e += 1
    if e < -126:
        e = -126
    scaled = q / (Fraction(2) ** (e - 23))     # in [2^23, 2^24) for normals
    n = scaled.numerator // scaled.denominator
    rem = scaled - n
    if rem > Fraction(1, 2) or (rem == Fraction(1, 2) and n % 2 == 1):
        n += 1
    if n >= (1 << 24):
        n >>= 1
        e += 1
    if e > 127:
        return sign | 0x7f800000
    if n < (1 << 23):           # subnormal
        return sign | n
    return sign | ((e + 127) << 23) | (n & 0x7fffff)


def frac_of_text(t):
    if isinstance(t, bytes):
        t = t.decode()
    neg = t.startswith("-")
    if t[:1] in "+-":
        t = t[1:]
    if "." in t:
        a, b = t.split(".")
    else:
        a, b = t, ""
    q = Fraction(int((a + b) or "0"), 10 ** len(b))
    return -q if neg else q


def f32_of_text(t):
    if isinstance(t, bytes):
        t = t.decode()
    b = round_f32(frac_of_text(t))
    if t.startswith("-") and b == 0:
        b = 0x80000000
    return b


def shortest(bits):
    """the text Rust's Display prints for a finite f32: shortest digit string that reads back to the same value
    (closest such), positional notation, no exponent"""
    if bits & 0x7fffffff == 0:
        return "-0" if bits >> 31 else "0"
    neg = bits >> 31
    q = abs(frac_of_bits(bits))
    target = bits & 0x7fffffff
    # decimal exponent of the leading digit
    k = 0
    while Fraction(10) ** (k + 1) <= q:
        k += 1
    while Fraction(10) ** k > q:
        k -= 1
    best = None
    for p in range(1, 18):
        unit = Fraction(10) ** (k - p + 1)
        lo = (q / unit).numerator // (q / unit).denominator
        cands = []
        for n in (lo, lo + 1):
            v = n * unit
            if n > 0 and round_f32(v) == target:
                cands.append((abs(v - q), -n))      # ties: the larger digit string (as Rust's Grisu/Dragon)
        if cands:
            cands.sort()
            best = (-cands[0][1], k - p + 1)
            break
    n, e10 = best
    digits = str(n)
    if e10 >= 0:
        s = digits + "0" * e10
    else:
        if len(digits) <= -e10:
            digits = "0" * (-e10 - len(digits) + 1) + digits
        s = digits[:e10] + "." + digits[e10:]
        s = s.rstrip("0").rstrip(".")
    return ("-" if neg else "") + s


class F:
    """a binary32 number"""
    __slots__ = ("bits",)

    def __init__(self, bits):
        self.bits = bits & 0xffffffff

    @staticmethod
    def of(x):
        return F(round_f32(Fraction(x)) if not isinstance(x, float) else bits_of_float(x))

    def key(self):
        return 0 if self.bits == 0x80000000 else self.bits      # value equality: -0 = +0

    def __eq__(self, o):
        return isinstance(o, F) and self.key() == o.key()

    def __hash__(self):
        return hash(self.key())

    def __repr__(self):
        return "F(%s)" % shortest(self.bits)

    def neg(self):
        return F(self.bits ^ 0x80000000)

    def text(self):
        return shortest(self.bits)

    def frac(self):
        return frac_of_bits(self.bits)


class Nm:
    __slots__ = ("s",)

    def __init__(self, s):
        self.s = s if isinstance(s, bytes) else s.encode()

    def __eq__(self, o):
        return isinstance(o, Nm) and self.s == o.s

    def __hash__(self):
        return hash(self.s)

    def __repr__(self):
        return "/%s" % self.s.decode("latin1")


class Dict:
    __slots__ = ("items",)

    def __init__(self, items):
        self.items = list(items)

    def __eq__(self, o):
        return isinstance(o, Dict) and self.items == o.items

    def __repr__(self):
        return "<<%r>>" % (self.items,)


def num_eq(a, b):
    """PDF numbers: an integer and a real of equal value are the same number (at binary32 precision: the digit string
    Rust prints for an integral f32 above 2^24 is a different integer that rounds to the same f32)"""
    if isinstance(a, int) and isinstance(b, int):
        return a == b
    ka = F(round_f32(Fraction(a))).key() if isinstance(a, int) else a.key()
    kb = F(round_f32(Fraction(b))).key() if isinstance(b, int) else b.key()
    return ka == kb


def prim_eq(a, b):
    if isinstance(a, bool) or isinstance(b, bool) or a is None or b is None:
        return type(a) is type(b) and a == b
    if isinstance(a, (int, F)) and isinstance(b, (int, F)):
        return num_eq(a, b)
    if isinstance(a, list) and isinstance(b, list):
        return len(a) == len(b) and all(prim_eq(x, y) for x, y in zip(a, b))
    if isinstance(a, Dict) and isinstance(b, Dict):
        return len(a.items) == len(b.items) and all(k1 == k2 and prim_eq(v1, v2) for (k1, v1), (k2, v2) in zip(a.items, b.items))
    return type(a) is type(b) and a == b


def val_eq(a, b):
    if isinstance(a, tuple) and isinstance(b, tuple):
        return len(a) == len(b) and all(val_eq(x, y) for x, y in zip(a, b))
    if isinstance(a, F) and isinstance(b, F):
        return a == b
    if isinstance(a, (tuple, F)) or isinstance(b, (tuple, F)):
        return False
    return prim_eq(a, b)


def ops_equal(a, b):
    return len(a) == len(b) and all(val_eq(x, y) for x, y in zip(a, b))


# ------------------------------------------------------------------------------------------------
# canonical atoms

SHAPES = {
    # constructor: field kinds — f number, n name, s string, o option prim, p point, m matrix, w winding, c colour,
    # L list of numbers, T list of TJ items, e enum integer, i image
    "BeginMarkedContent": "no", "EndMarkedContent": "", "MarkedContentPoint": "no", "Close": "", "MoveTo": "p", "LineTo": "p",
    "CurveTo": "ppp", "Rect": "ffff", "EndPath": "", "Stroke": "", "FillAndStroke": "w", "Fill": "w", "Shade": "n", "Clip": "w",
    "Save": "", "Restore": "", "Transform": "m", "LineWidth": "f", "Dash": "Lf", "LineJoin": "e", "LineCap": "e", "MiterLimit": "f",
    "Flatness": "f", "GraphicsState": "n", "StrokeColor": "c", "FillColor": "c", "FillColorSpace": "n", "StrokeColorSpace": "n",
    "RenderingIntent": "n", "BeginText": "", "EndText": "", "CharSpacing": "f", "WordSpacing": "f", "TextScaling": "f", "Leading": "f",
    "TextFont": "nf", "TextRenderMode": "e", "TextRise": "f", "MoveTextPosition": "p", "SetTextMatrix": "m", "TextNewline": "",
    "TextDraw": "s", "TextDrawAdjusted": "T", "XObject": "n", "InlineImage": "i",
}


def enc_fl(x, model):
    return (b"f" + x.text().encode()) if model else (b"F%08x" % x.bits)


def enc_prim(p, model, out, tok=False):
    if p is None:
        out.append(b"Z")
    elif p is True:
        out.append(b"Bt")
    elif p is False:
        out.append(b"Bf")
    elif isinstance(p, int):
        out.append(b"I%d" % p)
    elif isinstance(p, F):
        if model and not tok:
            # Primitive::serialize (Number arm): an integral value below 2^31 is written exactly (`as i64`), anything else
            # as `{}` prints it, with a '.' appended when that text has none
            fr = p.frac()
            if fr.denominator == 1 and abs(fr) < 2 ** 31:
                out.append(b"f" + str(int(fr)).encode())
            else:
                t = p.text()
                out.append(b"f" + (t if "." in t else t + ".").encode())
        else:
            out.append(enc_fl(p, model))
    elif isinstance(p, Nm):
        out.append(b"N" + p.s)
    elif isinstance(p, bytes):
        out.append(b"S" + p)
    elif isinstance(p, list):
        out.append(b"A%d" % len(p))
        for x in p:
            enc_prim(x, model, out, tok)
    elif isinstance(p, Dict):
        out.append(b"D%d" % len(p.items))
        for k, v in p.items:
            out.append(b"N" + k)
            enc_prim(v, model, out, tok)
    else:
        raise TypeError(repr(p))


def enc_ops(ops, model=False):
    out = []
    for op in ops:
        out.append(op[0].encode())
        for kind, v in zip(SHAPES[op[0]], op[1:]):
            if kind == "f":
                out.append(enc_fl(v, model))
            elif kind == "n":
                out.append(b"N" + v.s)
            elif kind == "s":
                out.append(b"S" + v)
            elif kind == "o":
                if v is NOPROPS:
                    out.append(b"O0")
                else:
                    out.append(b"O1")
                    enc_prim(v, model, out)
            elif kind == "p":
                out += [enc_fl(v[0], model), enc_fl(v[1], model)]
            elif kind == "m":
                out += [enc_fl(x, model) for x in v]
            elif kind == "w":
                out.append(b"W1" if v == "NonZero" else b"W0")
            elif kind == "e":
                out.append(b"I%d" % v)
            elif kind == "L":
                out.append(b"L%d" % len(v))
                out += [enc_fl(x, model) for x in v]
            elif kind == "T":
                out.append(b"L%d" % len(v))
                for x in v:
                    out.append(b"S" + x if isinstance(x, bytes) else enc_fl(x, model))
            elif kind == "c":
                if v[0] == "Other":
                    out += [b"CO", b"L%d" % len(v[1])]
                    for x in v[1]:
                        enc_prim(x, model, out)
                else:
                    out.append({"Gray": b"CG", "Rgb": b"CR", "Cmyk": b"CK"}[v[0]])
                    out += [enc_fl(x, model) for x in v[1:]]
            elif kind == "i":
                enc_prim(v[0], model, out)
                out.append(b"x" + v[1])
    return out


class _NoProps:
    def __repr__(self):
        return "NOPROPS"


NOPROPS = _NoProps()     # Option::None of the marked-content operators (None itself is the PDF null object)


class Atoms:
    def __init__(self, atoms):
        self.a, self.i = atoms, 0

    def next(self):
        x = self.a[self.i]
        self.i += 1
        return x

    def fl(self):
        x = self.next()
        if x[:1] == b"F":
            return F(int(x[1:], 16))
        if x[:1] == b"f":
            return F(f32_of_text(x[1:]))
        raise ValueError("float atom %r" % x)

    def prim(self):
        x = self.next()
        t, body = x[:1], x[1:]
        if t == b"Z":
            return None
        if t == b"B":
            return body == b"t"
        if t == b"I":
            return int(body)
        if t in (b"F", b"f"):
            self.i -= 1
            return self.fl()
        if t == b"N":
            return Nm(body)
        if t == b"S":
            return body
        if t == b"A":
            return [self.prim() for _ in range(int(body))]
        if t == b"D":
            return Dict([(self.next()[1:], self.prim()) for _ in range(int(body))])
        raise ValueError("prim atom %r" % x)


def dec_ops(atoms):
    A = Atoms(atoms)
    ops = []
    while A.i < len(atoms):
        c = A.next().decode()
        f = []
        for kind in SHAPES[c]:
            if kind == "f":
                f.append(A.fl())
            elif kind == "n":
                f.append(Nm(A.next()[1:]))
            elif kind == "s":
                f.append(A.next()[1:])
            elif kind == "o":
                f.append(NOPROPS if A.next() == b"O0" else A.prim())
            elif kind == "p":
                f.append((A.fl(), A.fl()))
            elif kind == "m":
                f.append(tuple(A.fl() for _ in range(6)))
            elif kind == "w":
                f.append("NonZero" if A.next() == b"W1" else "EvenOdd")
            elif kind == "e":
                f.append(int(A.next()[1:]))
            elif kind == "L":
                f.append(tuple(A.fl() for _ in range(int(A.next()[1:]))))
            elif kind == "T":
                items = []
                for _ in range(int(A.next()[1:])):
                    if A.a[A.i][:1] == b"S":
                        items.append(A.next()[1:])
                    else:
                        items.append(A.fl())
                f.append(tuple(items))
            elif kind == "c":
                t = A.next()
                if t == b"CO":
                    f.append(("Other", [A.prim() for _ in range(int(A.next()[1:]))]))
                else:
                    k = {b"CG": ("Gray", 1), b"CR": ("Rgb", 3), b"CK": ("Cmyk", 4)}[t]
                    f.append((k[0],) + tuple(A.fl() for _ in range(k[1])))
            elif kind == "i":
                d = A.prim()
                f.append((d, A.next()[1:]))
        ops.append((c,) + tuple(f))
    return ops


_FATOM = None


def normalise_atoms(atoms):
    """model atoms (f<decimal text>) -> implementation atoms (F<bits>); anything else (in particular the single
    byte-string field of ops_serialize, which ends in a newline) is left alone"""
    global _FATOM
    if _FATOM is None:
        import re
        # the byte-level model carries a lexed real as the text it was written as: "+1.50", ".5", "5." are numbers too
        _FATOM = re.compile(rb"f[-+]?([0-9]+\.?[0-9]*|\.[0-9]+)\Z")
    return [(b"F%08x" % f32_of_text(a[1:])) if _FATOM.match(a) else a for a in atoms]


# ------------------------------------------------------------------------------------------------
# ISO 32000-1 Annex A: every operator, operand shape, meaning

# shape letters: N number, / name, S string, A array of numbers, J array of strings and numbers (TJ), I integer,
# O any object (property list: name or dictionary), * operands of a colour in a special colour space (numbers, then
# optionally a pattern name)
ISO_OPS = {
    # Table 51 general graphics state
    "w": "N", "J": "I", "j": "I", "M": "N", "d": "AN", "ri": "/", "i": "N", "gs": "/",
    # Table 57 special graphics state
    "q": "", "Q": "", "cm": "NNNNNN",
    # Table 59 path construction
    "m": "NN", "l": "NN", "c": "NNNNNN", "v": "NNNN", "y": "NNNN", "h": "", "re": "NNNN",
    # Table 60 path painting
    "S": "", "s": "", "f": "", "F": "", "f*": "", "B": "", "B*": "", "b": "", "b*": "", "n": "",
    # Table 61 clipping
    "W": "", "W*": "",
    # Table 107 text objects, Table 105 text state, Table 108 positioning, Table 109 showing
    "BT": "", "ET": "", "Tc": "N", "Tw": "N", "Tz": "N", "TL": "N", "Tf": "/N", "Tr": "I", "Ts": "N",
    "Td": "NN", "TD": "NN", "Tm": "NNNNNN", "T*": "", "Tj": "S", "TJ": "J", "'": "S", '"': "NNS",
    # Table 113 Type 3 fonts
    "d0": "NN", "d1": "NNNNNN",
    # Table 74 colour
    "CS": "/", "cs": "/", "SC": "*", "SCN": "*", "sc": "*", "scn": "*", "G": "N", "g": "N", "RG": "NNN", "rg": "NNN",
    "K": "NNNN", "k": "NNNN",
    # Table 77 shading, Table 87 XObjects, Table 92 inline images
    "sh": "/", "Do": "/", "BI": None, "ID": None, "EI": None,
    # Table 320 marked content, Table 32 compatibility
    "MP": "/", "DP": "/O", "BMC": "/", "BDC": "/O", "EMC": "", "BX": "", "EX": "",
}
assert len(ISO_OPS) == 73

LINE_CAPS = (0, 1, 2)                 # Table 54
LINE_JOINS = (0, 1, 2)                # Table 55
TEXT_MODES = (0, 1, 2, 3, 4, 5, 6, 7)  # Table 106
INTENTS = ("AbsoluteColorimetric", "RelativeColorimetric", "Saturation", "Perceptual")   # Table 70

# Table 93 / 94: inline image abbreviations
INLINE_KEYS = {"BPC": "BitsPerComponent", "CS": "ColorSpace", "D": "Decode", "DP": "DecodeParms", "F": "Filter", "H": "Height",
               "IM": "ImageMask", "I": "Interpolate", "W": "Width"}
INLINE_CS = {"G": "DeviceGray", "RGB": "DeviceRGB", "CMYK": "DeviceCMYK", "I": "Indexed"}
INLINE_FILTERS = {"AHx": "ASCIIHexDecode", "A85": "ASCII85Decode", "LZW": "LZWDecode", "Fl": "FlateDecode", "RL": "RunLengthDecode",
                  "CCF": "CCITTFaxDecode", "DCT": "DCTDecode"}


class CP:
    """current point (Table 59); `stale=True` reproduces a reader that only follows m, l, c, v, y"""
    def __init__(self, stale=False):
        self.cp = None
        self.start = None
        self.stale = stale
        if stale:
            self.cp = (F(0), F(0))

    def moveto(self, p):
        self.cp = p
        self.start = p

    def lineto(self, p):
        self.cp = p

    def close(self):
        if not self.stale:
            self.cp = self.start

    def rect(self, x, y):
        if not self.stale:
            self.cp = (x, y)
            self.start = (x, y)

    def end_path(self):
        if not self.stale:
            self.cp = None
            self.start = None


class SpecError(Exception):
    pass


def as_num(v):
    if isinstance(v, bool) or not isinstance(v, (int, F)):
        raise SpecError("number expected")
    return F(round_f32(Fraction(v))) if isinstance(v, int) else v


def iso_meaning(kw, args, st):
    """operations the standard defines for `args kw` with current point state `st` (operands in order)"""
    shape = ISO_OPS[kw]
    if shape is None:
        raise SpecError("inline image operators are handled by the interpreter")
    if shape != "*" and len(args) != len(shape):
        raise SpecError("operand count")
    n = [None] * len(args)
    if shape != "*":
        for i, (k, a) in enumerate(zip(shape, args)):
            if k == "N":
                n[i] = as_num(a)
            elif k == "/":
                if not isinstance(a, Nm):
                    raise SpecError("name expected")
            elif k == "S":
                if not isinstance(a, bytes):
                    raise SpecError("string expected")
            elif k == "I":
                if isinstance(a, bool) or not isinstance(a, int):
                    raise SpecError("integer expected")
            elif k == "A":
                if not isinstance(a, list):
                    raise SpecError("array expected")
            elif k == "J":
                if not isinstance(a, list) or not all(isinstance(x, (bytes, int, F)) and not isinstance(x, bool) for x in a):
                    raise SpecError("TJ array expected")
    P = lambda i: (n[i], n[i + 1])
    if kw == "w": return [("LineWidth", n[0])]
    if kw == "J":
        if args[0] not in LINE_CAPS: raise SpecError("line cap")
        return [("LineCap", args[0])]
    if kw == "j":
        if args[0] not in LINE_JOINS: raise SpecError("line join")
        return [("LineJoin", args[0])]
    if kw == "M": return [("MiterLimit", n[0])]
    if kw == "d": return [("Dash", tuple(as_num(x) for x in args[0]), n[1])]
    if kw == "ri":
        if args[0].s.decode("latin1") not in INTENTS: raise SpecError("intent")
        return [("RenderingIntent", args[0])]
    if kw == "i": return [("Flatness", n[0])]
    if kw == "gs": return [("GraphicsState", args[0])]
    if kw == "q": return [("Save",)]
    if kw == "Q": return [("Restore",)]
    if kw == "cm": return [("Transform", tuple(n))]
    if kw == "m":
        st.moveto(P(0)); return [("MoveTo", P(0))]
    if kw == "l":
        st.lineto(P(0)); return [("LineTo", P(0))]
    if kw == "c":
        st.lineto(P(4)); return [("CurveTo", P(0), P(2), P(4))]
    if kw == "v":
        if st.cp is None: raise SpecError("v without a current point")
        c1 = st.cp
        st.lineto(P(2)); return [("CurveTo", c1, P(0), P(2))]
    if kw == "y":
        st.lineto(P(2)); return [("CurveTo", P(0), P(2), P(2))]
    if kw == "h":
        st.close(); return [("Close",)]
    if kw == "re":
        st.rect(n[0], n[1]); return [("Rect", n[0], n[1], n[2], n[3])]
    if kw == "S":
        st.end_path(); return [("Stroke",)]
    if kw == "s":                       # Table 60: same as h S
        st.end_path(); return [("Close",), ("Stroke",)]
    if kw in ("f", "F"):                # F: same as f
        st.end_path(); return [("Fill", "NonZero")]
    if kw == "f*":
        st.end_path(); return [("Fill", "EvenOdd")]
    if kw == "B":
        st.end_path(); return [("FillAndStroke", "NonZero")]
    if kw == "B*":
        st.end_path(); return [("FillAndStroke", "EvenOdd")]
    if kw == "b":                       # same as h B
        st.end_path(); return [("Close",), ("FillAndStroke", "NonZero")]
    if kw == "b*":                      # same as h B*
        st.end_path(); return [("Close",), ("FillAndStroke", "EvenOdd")]
    if kw == "n":
        st.end_path(); return [("EndPath",)]
    if kw == "W": return [("Clip", "NonZero")]
    if kw == "W*": return [("Clip", "EvenOdd")]
    if kw == "BT": return [("BeginText",)]
    if kw == "ET": return [("EndText",)]
    if kw == "Tc": return [("CharSpacing", n[0])]
    if kw == "Tw": return [("WordSpacing", n[0])]
    if kw == "Tz": return [("TextScaling", n[0])]
    if kw == "TL": return [("Leading", n[0])]
    if kw == "Tf": return [("TextFont", args[0], n[1])]
    if kw == "Tr":
        if args[0] not in TEXT_MODES: raise SpecError("text rendering mode")
        return [("TextRenderMode", args[0])]
    if kw == "Ts": return [("TextRise", n[0])]
    if kw == "Td": return [("MoveTextPosition", P(0))]
    if kw == "TD":                      # Table 108: same as  -ty TL  tx ty Td
        return [("Leading", n[1].neg()), ("MoveTextPosition", P(0))]
    if kw == "Tm": return [("SetTextMatrix", tuple(n))]
    if kw == "T*": return [("TextNewline",)]
    if kw == "Tj": return [("TextDraw", args[0])]
    if kw == "TJ": return [("TextDrawAdjusted", tuple(x if isinstance(x, bytes) else as_num(x) for x in args[0]))]
    if kw == "'":                       # Table 109: same as  T*  string Tj
        return [("TextNewline",), ("TextDraw", args[0])]
    if kw == '"':                       # same as  aw Tw  ac Tc  string '
        return [("WordSpacing", n[0]), ("CharSpacing", n[1]), ("TextNewline",), ("TextDraw", args[2])]
    if kw == "d0": return [("SetCharWidth", n[0], n[1])]
    if kw == "d1": return [("SetCacheDevice",) + tuple(n)]
    if kw == "CS": return [("StrokeColorSpace", args[0])]
    if kw == "cs": return [("FillColorSpace", args[0])]
    if kw in ("SC", "SCN"): return [("StrokeColor", ("Other", list(args)))]
    if kw in ("sc", "scn"): return [("FillColor", ("Other", list(args)))]
    if kw == "G": return [("StrokeColor", ("Gray", n[0]))]
    if kw == "g": return [("FillColor", ("Gray", n[0]))]
    if kw == "RG": return [("StrokeColor", ("Rgb", n[0], n[1], n[2]))]
    if kw == "rg": return [("FillColor", ("Rgb", n[0], n[1], n[2]))]
    if kw == "K": return [("StrokeColor", ("Cmyk",) + tuple(n))]
    if kw == "k": return [("FillColor", ("Cmyk",) + tuple(n))]
    if kw == "sh": return [("Shade", args[0])]
    if kw == "Do": return [("XObject", args[0])]
    if kw == "MP": return [("MarkedContentPoint", args[0], NOPROPS)]
    if kw == "DP": return [("MarkedContentPoint", args[0], args[1])]
    if kw == "BMC": return [("BeginMarkedContent", args[0], NOPROPS)]
    if kw == "BDC": return [("BeginMarkedContent", args[0], args[1])]
    if kw == "EMC": return [("EndMarkedContent",)]
    if kw in ("BX", "EX"): return []
    raise SpecError("unknown operator " + kw)


# ------------------------------------------------------------------------------------------------
# reference tokenizer (§7.2.2 white-space, §7.2.3 delimiters/comments, §7.3 objects, §7.8.2 content streams)

WS = b"\x00\t\n\x0c\r "
DELIM = b"()<>[]{}/%"


class Word:
    __slots__ = ("w",)

    def __init__(self, w):
        self.w = w

    def __repr__(self):
        return "Word(%r)" % self.w


class Raw:
    __slots__ = ("d",)

    def __init__(self, d):
        self.d = d


class Lex:
    def __init__(self, data):
        self.d, self.i = data, 0

    def skip(self):
        d = self.d
        while self.i < len(d):
            c = d[self.i]
            if c in WS:
                self.i += 1
            elif c == 0x25:
                while self.i < len(d) and d[self.i] not in b"\r\n":
                    self.i += 1
            else:
                break

    def obj(self):
        """next object or Word; None at end"""
        self.skip()
        d = self.d
        if self.i >= len(d):
            return None
        c = d[self.i]
        if c == 0x2f:
            self.i += 1
            out = bytearray()
            while self.i < len(d) and d[self.i] not in WS and d[self.i] not in DELIM:
                if d[self.i] == 0x23 and self.i + 2 < len(d) + 0 and len(d) >= self.i + 3:
                    out.append(int(d[self.i + 1:self.i + 3], 16))
                    self.i += 3
                else:
                    out.append(d[self.i])
                    self.i += 1
            return Nm(bytes(out))
        if c == 0x28:
            return self.litstring()
        if c == 0x3c:
            if d[self.i:self.i + 2] == b"<<":
                self.i += 2
                items = []
                while True:
                    self.skip()
                    if d[self.i:self.i + 2] == b">>":
                        self.i += 2
                        return Dict(items)
                    k = self.obj()
                    if not isinstance(k, Nm):
                        raise SpecError("dictionary key")
                    v = self.obj()
                    items = [(a, b) for a, b in items if a != k.s] + [(k.s, v)]
            self.i += 1
            hx = bytearray()
            while d[self.i] != 0x3e:
                if d[self.i] not in WS:
                    hx.append(d[self.i])
                self.i += 1
            self.i += 1
            if len(hx) % 2:
                hx += b"0"
            return bytes.fromhex(hx.decode())
        if c == 0x5b:
            self.i += 1
            items = []
            while True:
                self.skip()
                if d[self.i] == 0x5d:
                    self.i += 1
                    return items
                items.append(self.obj())
        if c in DELIM:
            raise SpecError("unexpected delimiter %c at %d" % (c, self.i))
        j = self.i
        while j < len(d) and d[j] not in WS and d[j] not in DELIM:
            j += 1
        w = d[self.i:j]
        self.i = j
        if w == b"true":
            return True
        if w == b"false":
            return False
        if w == b"null":
            return None
        t = w.decode("latin1")
        body = t[1:] if t[:1] in "+-" else t
        if body and all(ch in "0123456789" for ch in body):
            return int(t)
        if body and body.count(".") == 1 and all(ch in "0123456789." for ch in body) and len(body) > 1:
            return F(f32_of_text(t.lstrip("+")))
        return Word(w)

    def litstring(self):
        d = self.d
        self.i += 1
        out, depth = bytearray(), 1
        while True:
            c = d[self.i]
            self.i += 1
            if c == 0x5c:
                e = d[self.i]
                self.i += 1
                if e in b"nrtbf":
                    out.append({0x6e: 10, 0x72: 13, 0x74: 9, 0x62: 8, 0x66: 12}[e])
                elif e in b"()\\":
                    out.append(e)
                elif e in b"01234567":
                    v, k = e - 48, 1
                    while k < 3 and self.i < len(d) and d[self.i] in b"01234567":
                        v = v * 8 + d[self.i] - 48
                        self.i += 1
                        k += 1
                    out.append(v & 0xff)
                elif e == 13:
                    if d[self.i:self.i + 1] == b"\n":
                        self.i += 1
                elif e == 10:
                    pass
                else:
                    out.append(e)
            elif c == 0x28:
                depth += 1
                out.append(c)
            elif c == 0x29:
                depth -= 1
                if depth == 0:
                    return bytes(out)
                out.append(c)
            elif c == 13:                      # an unescaped end-of-line marker reads as LF
                if d[self.i:self.i + 1] == b"\n":
                    self.i += 1
                out.append(10)
            else:
                out.append(c)


def expand_image_dict(items):
    out = []
    for k, v in items:
        k = INLINE_KEYS.get(k.decode("latin1"), k.decode("latin1")).encode()
        out = [(a, b) for a, b in out if a != k] + [(k, v)]
    return out


def spec_parse(data, stale=False):
    """operations a conforming reader sees in the content stream `data`"""
    lx = Lex(data)
    st = CP(stale)
    ops, operands = [], []
    compat = 0
    while True:
        t = lx.obj()
        if t is None and lx.i >= len(data):
            break
        if not isinstance(t, Word):
            operands.append(t)
            continue
        kw = t.w.decode("latin1")
        if kw == "BI":
            items = []
            while True:
                k = lx.obj()
                if isinstance(k, Word):
                    if k.w != b"ID":
                        raise SpecError("inline image: expected ID")
                    break
                items.append((k.s, lx.obj()))
            lx.i += 1                              # the single white-space byte after ID
            # §8.9.7: the data runs to the EI that follows white-space and is followed by white-space / end
            j = lx.i
            while True:
                e = data.index(b"EI", j)
                if e > 0 and data[e - 1] in WS and (e + 2 >= len(data) or data[e + 2] in WS):
                    break
                j = e + 1
            ops.append(("InlineImage", (Dict(expand_image_dict(items)), data[lx.i:e - 1])))
            lx.i = e + 2
            operands = []
            continue
        if kw in ISO_OPS:
            if kw == "BX":
                compat += 1
            elif kw == "EX":
                compat -= 1
            ops += iso_meaning(kw, operands, st)
        elif compat <= 0:
            raise SpecError("unknown operator %r outside a compatibility section" % kw)
        operands = []
    return ops


# ------------------------------------------------------------------------------------------------
# spelling (a conformant way to write a token list; the generator knows the tokens)

def regular_name(s):
    return all(33 <= c <= 126 and c not in DELIM and c != 0x23 for c in s)


def spell_name(s):
    out = bytearray(b"/")
    for c in s:
        if 33 <= c <= 126 and c not in DELIM and c != 0x23:
            out.append(c)
        else:
            out += b"#%02X" % c
    return bytes(out)


def spell_string(s, hexform=False):
    if hexform:
        return b"<" + s.hex().encode() + b">"
    out = bytearray(b"(")
    for c in s:
        if c in b"()\\":
            out += b"\\" + bytes([c])
        elif c == 13:
            out += b"\\r"
        elif c == 10:
            out += b"\\n"
        else:
            out.append(c)
    return bytes(out) + b")"


def spell_prim(p, num_text=None):
    if p is None:
        return b"null"
    if p is True:
        return b"true"
    if p is False:
        return b"false"
    if isinstance(p, int):
        return b"%d" % p
    if isinstance(p, F):
        t = p.text()
        return (t if "." in t else t + ".0").encode()     # a real keeps a decimal point
    if isinstance(p, Nm):
        return spell_name(p.s)
    if isinstance(p, bytes):
        return spell_string(p, any(c >= 0x80 for c in p))
    if isinstance(p, list):
        return b"[" + b" ".join(spell_prim(x) for x in p) + b"]"
    if isinstance(p, Dict):
        return b"<<" + b" ".join(spell_name(k) + b" " + spell_prim(v) for k, v in p.items) + b">>"
    raise TypeError(repr(p))


def spell_tokens(toks, sep=b" ", eol=b"\n"):
    out = bytearray()
    for t in toks:
        if isinstance(t, Word):
            out += t.w + eol
        elif isinstance(t, Raw):
            # follows "ID" + eol: the eol byte is the single white-space after ID
            out += t.d + b"\nEI" + eol
        else:
            out += spell_prim(t) + sep
    return bytes(out)


def tok_atoms(toks):
    """token list -> model atoms"""
    out = []
    for t in toks:
        if isinstance(t, Word):
            out.append(b"w" + t.w)
        elif isinstance(t, Raw):
            out.append(b"x" + t.d)
        else:
            enc_prim(t, True, out, True)
    return out
