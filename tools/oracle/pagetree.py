"""tools/oracle/pagetree.py — specification side of C07 (ISO 32000-1 §7.7.3 page tree, §7.7.3.4 inheritance).

Written from the standard, independent of pdf-rs:
  * the pages of a document are the leaves (/Type /Page) of the tree rooted at the catalog's /Pages, in
    depth-first, left-to-right order of the /Kids arrays; /Count of a /Pages node is the number of leaves below it;
  * /Resources, /MediaBox, /CropBox (and /Rotate) are inheritable: a page that lacks the entry takes the value of
    the nearest ancestor that has it; /CropBox defaults to the media box; /MediaBox and /Resources are required.

A tree is built as python objects, the expectation is computed here from the *tree* (never from a file), and the
file is rendered by tools/oracle/pdfwriter.py.  The same tree is flattened to the object store the Coq model reads.
"""
import struct
from .pdfwriter import Name, Ref, Obj, Comp, Revision, Stream, write_file

ATTRS = ("mb", "cb", "res")


class Node:
    __slots__ = ("leaf", "kids", "mb", "cb", "res", "num", "count", "parent", "parent_num", "kid_nums", "cs")

    def __init__(self, leaf, kids=None, mb=None, cb=None, res=None):
        self.leaf = leaf
        self.kids = kids if kids is not None else []
        self.mb, self.cb, self.res = mb, cb, res      # rect = tuple of 4 numbers; res = ("R", objnum) | ("D", key)
        self.num = None           # object number
        self.count = None         # value written as /Count (None: the true number of leaves below)
        self.parent = None        # structural parent (set by finish)
        self.parent_num = None    # override for the /Parent entry (object number) — out-of-domain cases only
        self.kid_nums = None      # override for the /Kids entry — out-of-domain cases only
        self.cs = None            # ColourSpaces of the node's own /Resources (direct or indirect), None: no /ColorSpace entry


def leaf(**kw):
    return Node(True, **kw)


def tree(kids, **kw):
    return Node(False, list(kids), **kw)


def nodes(t):
    out = [t]
    for k in t.kids:
        out.extend(nodes(k))
    return out


def nleaves(t):
    return 1 if t.leaf else sum(nleaves(k) for k in t.kids)


def height(t):
    """number of /Pages levels on the longest path (a single /Pages root with pages below it: 1)"""
    return 0 if t.leaf else 1 + max([height(k) for k in t.kids] + [0])


def finish(t, parent=None):
    t.parent = parent
    for k in t.kids:
        finish(k, t)
    return t


def leaves(t, anc=()):
    """[(leaf, [ancestors nearest first])] depth-first, left to right"""
    if t.leaf:
        return [(t, list(anc))]
    out = []
    for k in t.kids:
        out.extend(leaves(k, (t,) + tuple(anc)))
    return out


def first_some(attr, chain):
    """(value, distance) of the nearest node in the chain that has the attribute; (None, None) if nobody"""
    for d, n in enumerate(chain):
        v = getattr(n, attr)
        if v is not None:
            return v, d
    return None, None


# ---- canonical tokens (must match harness/src/modes/pagetree.rs) -------------------------------

def f32_bits(x):
    return struct.unpack(">I", struct.pack(">f", float(x)))[0]


def rect_tok(r):
    return ",".join("%08x" % f32_bits(x) for x in r)


def res_tok(r):
    return "R%d" % r[1] if r[0] == "R" else "D" + r[1]


def expected_page(lf, anc):
    """the field the harness prints for this leaf, by the standard"""
    chain = [lf] + anc
    mb, _ = first_some("mb", chain)
    cb, _ = first_some("cb", chain)
    rs, _ = first_some("res", chain)
    m = rect_tok(mb) if mb is not None else "!MissingEntry"
    c = rect_tok(cb) if cb is not None else m
    r = res_tok(rs) if rs is not None else "!MissingEntry"
    return ("P%d %s %s %s" % (lf.num, m, c, r)).encode()


def expected_query(root, nq):
    ls = leaves(root)
    out = [b"%d" % len(ls)]
    for i in range(nq):
        out.append(expected_page(*ls[i]) if i < len(ls) else b"!PageOutOfBounds")
    return out


def expected_cs_page(lf, anc):
    """the field mode page_cs prints for this leaf: the resources of the nearest node that has them, and the colour spaces
    named by their /ColorSpace sub-dictionary, as they were written"""
    for n in [lf] + anc:
        if n.res is not None:
            desc = n.cs.desc if n.cs is not None else {}
            lst = ";".join("%s=%s" % (k, desc[k]) for k in sorted(desc)) or "-"
            return ("P%d %s %s" % (lf.num, res_tok(n.res), lst)).encode()
    return ("P%d !MissingEntry" % lf.num).encode()


def expected_cs_query(root, nq):
    ls = leaves(root)
    out = [b"%d" % len(ls)]
    for i in range(nq):
        out.append(expected_cs_page(*ls[i]) if i < len(ls) else b"!PageOutOfBounds")
    return out


def expected_iter(root):
    return [b"P%d" % lf.num for lf, _ in leaves(root)]


# ---- rendering ------------------------------------------------------------------------------------

def number(root, rng, first=1, extra=0):
    """assign object numbers: a random permutation of first .. first+n-1+extra (extra numbers stay free for
    catalog / resources / box objects); returns the list of unused numbers"""
    ns = nodes(root)
    pool = list(range(first, first + len(ns) + extra))
    rng.shuffle(pool)
    for n in ns:
        n.num = pool.pop()
    return pool


def node_dict(n, boxrefs=None):
    d = {"Type": Name("Page" if n.leaf else "Pages")}
    pn = n.parent_num if n.parent_num is not None else (n.parent.num if n.parent is not None else None)
    if pn is not None:
        d["Parent"] = Ref(pn)
    if not n.leaf:
        d["Kids"] = [Ref(k) for k in (n.kid_nums if n.kid_nums is not None else [k.num for k in n.kids])]
        d["Count"] = n.count if n.count is not None else nleaves(n)
    for attr, key in (("mb", "MediaBox"), ("cb", "CropBox")):
        v = getattr(n, attr)
        if v is not None:
            br = (boxrefs or {}).get((n.num, attr))
            d[key] = Ref(br) if br is not None else list(v)
    if n.res is not None:
        if n.res[0] == "R":
            d["Resources"] = Ref(n.res[1])
        else:
            d["Resources"] = {"Properties": {n.res[1]: {}}} if n.res[1] else {}
            if n.cs is not None:
                d["Resources"]["ColorSpace"] = dict(n.cs.entries)
    return d


def render(root, rng, catalog_num, res_objs, boxrefs=None, compress=0.0, fmt=None, order=None):
    """one-revision file.  res_objs: {objnum: key-or-''} indirect resource dictionaries;
    boxrefs: {(node num, attr): objnum} boxes stored as indirect arrays;
    compress: probability that a dictionary object goes into the object stream."""
    objs = {}
    for n in nodes(root):
        objs[n.num] = node_dict(n, boxrefs)
    for num, key in res_objs.items():
        objs[num] = {"Properties": {key: {}}} if key else {"ProcSet": [Name("PDF")]}
    for n in nodes(root):
        if n.cs is not None:
            if n.res is not None and n.res[0] == "R" and n.res[1] in objs:
                objs[n.res[1]]["ColorSpace"] = dict(n.cs.entries)
            objs.update(n.cs.objs)        # functions, look-up tables, ICC profiles, attribute dictionaries stored as objects
    for (nn, attr), num in (boxrefs or {}).items():
        node = [n for n in nodes(root) if n.num == nn][0]
        objs[num] = list(getattr(node, attr))
    objs[catalog_num] = {"Type": Name("Catalog"), "Pages": Ref(root.num)}
    entries = {}
    any_comp = False
    for num, v in objs.items():
        if isinstance(v, dict) and rng.random() < compress:
            entries[num] = Comp(v)
            any_comp = True
        else:
            entries[num] = Obj(v)
    if fmt is None:
        fmt = "stream" if any_comp or rng.random() < 0.3 else "table"
    rev = Revision(entries, fmt=fmt, trailer={"Root": Ref(catalog_num)},
                   objstm_filter=rng.choice([None, "flate"]) if any_comp else None)
    data, info = write_file([rev])
    return data


# ---- colour spaces in a /Resources dictionary (ISO 32000-1 §8.6; functions §7.10) ----------------------------
# Each constructor writes one well-formed colour space and says what it wrote (the token mode page_cs prints):
#   DeviceGray | DeviceRGB | DeviceCMYK | Pattern
#   CalGray{keys} | CalRGB{keys} | Lab{keys}                 keys of the dictionary, sorted, joined by '+'
#   ICCBased(N,alternate|-)
#   Indexed(base,hival,hex of the look-up table)
#   Separation(name,alternate,fn)
#   DeviceN(name+name…,alternate,fn,-|{keys of the attributes dictionary})
#   fn = F<FunctionType>:<inputs>><outputs>
NCOMP = {"DeviceGray": 1, "DeviceRGB": 3, "DeviceCMYK": 4}
COLORANTS = ["Cyan", "Magenta", "Yellow", "Black", "Spot", "PANTONE#20123", "Gold", "Varnish", "All", "None"]


class ColourSpaces:
    """the /ColorSpace sub-dictionary of one resource dictionary: entries (name -> value as written), the objects the
    values refer to, and the description of every entry"""
    __slots__ = ("entries", "objs", "desc")

    def __init__(self):
        self.entries, self.objs, self.desc = {}, {}, {}


def _keys(d):
    return "{" + "+".join(sorted(d)) + "}"


def _rbytes(rng, n):
    return bytes(rng.randrange(256) for _ in range(n))


def cs_function(rng, alloc, ftype, n_in, n_out, indirect=True):
    """a function of type 2 or 3 (dictionaries; one input by definition), 4 or 0 (streams, always indirect objects)"""
    dom = [0, 1] * n_in
    rg = [0, 1] * n_out
    if ftype == 2:
        d = {"FunctionType": 2, "Domain": [0, 1], "C0": [0] * n_out, "C1": [rng.choice([1, 0.5, 0.25]) for _ in range(n_out)],
             "N": rng.choice([1, 2, 0.5])}
        if rng.random() < 0.5:
            d["Range"] = rg
        v = alloc(d) if indirect else d
    elif ftype == 3:
        # stitching (§7.10.4): k one-input functions over the sub-domains Bounds cuts out of Domain, each with its own Encode pair
        k = rng.choice([1, 2, 3])
        subs = [{"FunctionType": 2, "Domain": [0, 1], "C0": [0] * n_out, "C1": [rng.choice([1, 0.5]) for _ in range(n_out)], "N": 1} for _ in range(k)]
        d = {"FunctionType": 3, "Domain": [0, 1], "Functions": [alloc(f) if rng.random() < 0.5 else f for f in subs],
             "Bounds": [round((j + 1) / k, 3) for j in range(k - 1)], "Encode": [0, 1] * k}
        if rng.random() < 0.5:
            d["Range"] = rg
        v = alloc(d) if indirect else d
    elif ftype == 4:
        prog = "{ " + "pop " * n_in + " ".join(rng.choice(["0", "1", "0.5"]) for _ in range(n_out)) + " }"
        v = alloc(Stream({"FunctionType": 4, "Domain": dom, "Range": rg}, prog.encode()))
    else:
        d = {"FunctionType": 0, "Domain": dom, "Range": rg, "Size": [2] * n_in, "BitsPerSample": 8}
        if rng.random() < 0.3:
            d["Order"] = 1
        v = alloc(Stream(d, _rbytes(rng, (2 ** n_in) * n_out)))
    return v, "F%d:%d>%d" % (ftype, n_in, n_out)


def cs_cie(rng, fam):
    if fam == "CalGray":
        d = {"WhitePoint": [0.9505, 1, 1.089]}
        if rng.random() < 0.6:
            d["Gamma"] = 2.2
        n = 1
    elif fam == "CalRGB":
        d = {"WhitePoint": [0.9505, 1, 1.089]}
        if rng.random() < 0.6:
            d["Gamma"] = [2.2, 2.2, 2.2]
        if rng.random() < 0.6:
            d["Matrix"] = [0.4124, 0.2126, 0.0193, 0.3576, 0.7152, 0.1192, 0.1805, 0.0722, 0.9505]
        n = 3
    else:
        d = {"WhitePoint": [0.9642, 1, 0.8249]}
        if rng.random() < 0.6:
            d["Range"] = [-100, 100, -100, 100]
        if rng.random() < 0.3:
            d["BlackPoint"] = [0, 0, 0]
        n = 3
    return [Name(fam), d], fam + _keys(d), n


def cs_icc(rng, alloc, n=None, alt=None):
    n = rng.choice([1, 3, 4]) if n is None else n
    d = {"N": n}
    a = "-"
    if alt is None:
        alt = rng.random() < 0.5
    if alt:
        a = {1: "DeviceGray", 3: "DeviceRGB", 4: "DeviceCMYK"}[n]
        d["Alternate"] = Name(a)
    if rng.random() < 0.3:
        d["Range"] = [0, 1] * n
    return [Name("ICCBased"), alloc(Stream(d, _rbytes(rng, rng.choice([0, 20, 128]))))], "ICCBased(%d,%s)" % (n, a), n


def cs_base(rng, alloc, simple=False):
    """a space usable as an alternate space or as the base of an Indexed space: (value, description, components)"""
    k = rng.randrange(3 if simple else 6)
    if k < 3:
        nm = ["DeviceGray", "DeviceRGB", "DeviceCMYK"][k]
        return Name(nm), nm, NCOMP[nm]
    if k == 3:
        return cs_cie(rng, rng.choice(["CalGray", "CalRGB", "Lab"]))
    if k == 4:
        return cs_icc(rng, alloc)
    nm = rng.choice(["DeviceRGB", "DeviceCMYK"])
    return Name(nm), nm, NCOMP[nm]


def cs_separation(rng, alloc, ftype=None):
    ftype = rng.choice([2, 4, 0]) if ftype is None else ftype
    alt, adesc, n = cs_base(rng, alloc)
    nm = rng.choice(COLORANTS)
    f, fdesc = cs_function(rng, alloc, ftype, 1, n, indirect=rng.random() < 0.5)
    return [Name("Separation"), Name(nm), alt, f], "Separation(%s,%s,%s)" % (nm, adesc, fdesc)


def cs_devicen(rng, alloc, ftype=None, attr=None, ncol=None, fn_indirect=None, attr_indirect=None):
    """attr: None = no fifth element | "nchannel" | "full" (Subtype, Colorants, Process)"""
    ftype = rng.choice([2, 4, 4, 0]) if ftype is None else ftype
    if ncol is None:
        ncol = 1 if ftype == 2 else rng.randint(1, 3)        # a type 2 function has exactly one input
    if attr is None and rng.random() < 0.5:
        attr = rng.choice(["nchannel", "full"])
    names = rng.sample(COLORANTS[:8], ncol)
    alt, adesc, n = cs_base(rng, alloc)
    f, fdesc = cs_function(rng, alloc, ftype, ncol, n, indirect=(rng.random() < 0.5) if fn_indirect is None else fn_indirect)
    arr = [Name("DeviceN"), [Name(x) for x in names], alt, f]
    a = "-"
    if attr is not None and attr is not False:
        if attr == "nchannel":
            d = {"Subtype": Name("NChannel")}
        else:
            sep, _ = cs_separation(rng, alloc, ftype=2)
            d = {"Subtype": Name("DeviceN"), "Colorants": {names[0]: sep},
                 "Process": {"ColorSpace": Name("DeviceCMYK"), "Components": [Name(x) for x in COLORANTS[:4]]}}
        a = _keys(d)
        arr.append(alloc(d) if ((rng.random() < 0.4) if attr_indirect is None else attr_indirect) else d)
    return arr, "DeviceN(%s,%s,%s,%s)" % ("+".join(names), adesc, fdesc, a)


def cs_indexed(rng, alloc, stream=None, base=None):
    bv, bdesc, n = cs_base(rng, alloc) if base is None else base
    hival = rng.choice([0, 1, 1, 3, 15, 255 if n == 1 else 7])
    table = _rbytes(rng, (hival + 1) * n)
    stream = (rng.random() < 0.5) if stream is None else stream
    lk = alloc(Stream({}, table)) if stream else table
    return [Name("Indexed"), bv, hival, lk], "Indexed(%s,%d,%s)" % (bdesc, hival, table.hex())


def cs_all_families(rng, alloc):
    """one colour space of every family and spelling, in a fixed order"""
    out = []
    out.append(cs_devicen(rng, alloc, ftype=4, attr=False, ncol=2))                       # stream tint transform, 4 elements
    out.append(cs_devicen(rng, alloc, ftype=0, attr=False, ncol=2))
    out.append(cs_devicen(rng, alloc, ftype=4, attr="nchannel", ncol=3, attr_indirect=False))
    out.append(cs_devicen(rng, alloc, ftype=0, attr="full", ncol=2, attr_indirect=True))
    out.append(cs_devicen(rng, alloc, ftype=2, attr=False, ncol=1, fn_indirect=False))     # dictionary tint transform, 4 elements
    out.append(cs_devicen(rng, alloc, ftype=2, attr="nchannel", ncol=1, fn_indirect=False, attr_indirect=False))
    out.append(cs_devicen(rng, alloc, ftype=2, attr="full", ncol=1, fn_indirect=True, attr_indirect=True))
    for ft in (2, 4, 0):
        out.append(cs_separation(rng, alloc, ftype=ft))
    out.append(cs_indexed(rng, alloc, stream=False))
    out.append(cs_indexed(rng, alloc, stream=True))
    out.append(cs_indexed(rng, alloc, stream=False, base=cs_icc(rng, alloc, n=3, alt=True)))
    sep = cs_separation(rng, alloc, ftype=4)
    out.append(cs_indexed(rng, alloc, stream=True, base=(sep[0], sep[1], 1)))
    out.append(cs_icc(rng, alloc, alt=True)[:2])
    out.append(cs_icc(rng, alloc, alt=False)[:2])
    for fam in ("CalRGB", "CalGray", "Lab"):
        out.append(cs_cie(rng, fam)[:2])
    out.append((Name("Pattern"), "Pattern"))
    out.append(([Name("Pattern")], "Pattern"))
    out.append(([Name("Pattern"), Name("DeviceRGB")], "Pattern"))
    for nm in ("DeviceGray", "DeviceRGB", "DeviceCMYK"):
        out.append((Name(nm), nm))
    return out


def cs_random(rng, alloc):
    k = rng.randrange(9)
    if k <= 2:
        return cs_devicen(rng, alloc)
    if k == 3:
        return cs_separation(rng, alloc)
    if k == 4:
        return cs_indexed(rng, alloc)
    if k == 5:
        return cs_icc(rng, alloc)[:2]
    if k == 6:
        return cs_cie(rng, rng.choice(["CalGray", "CalRGB", "Lab"]))[:2]
    if k == 7:
        return rng.choice([(Name("Pattern"), "Pattern"), ([Name("Pattern")], "Pattern"), ([Name("Pattern"), Name("DeviceCMYK")], "Pattern")])
    nm = rng.choice(list(NCOMP))
    return Name(nm), nm


def colour_spaces(rng, next_free, everything=False, stitching=False):
    """a /ColorSpace sub-dictionary: 1..4 random colour spaces, or one of every family; stitching: a Separation and a one-colorant
    DeviceN whose tint transforms are type 3 (stitching) functions, next to 0..2 random spaces (finding C07-b: never in the other cases)"""
    cs = ColourSpaces()

    def alloc(v):
        num = next_free()
        cs.objs[num] = v
        return Ref(num)
    if stitching:
        lst = [cs_separation(rng, alloc, ftype=3), cs_devicen(rng, alloc, ftype=3, ncol=1, attr=rng.choice([False, "nchannel"]))]
        lst = lst[:rng.choice([1, 2, 2])] + [cs_random(rng, alloc) for _ in range(rng.randint(0, 2))]
        rng.shuffle(lst)
    else:
        lst = cs_all_families(rng, alloc) if everything else [cs_random(rng, alloc) for _ in range(rng.randint(1, 4))]
    for i, (v, d) in enumerate(lst):
        nm = "%s%d" % (rng.choice(["CS", "Cs", "C"]), i)
        cs.entries[nm] = v
        cs.desc[nm] = d
    return cs


# ---- the object store the Coq model reads ------------------------------------------------------------

def store_text(root):
    """one line per node: `id K parent count mb cb res kid…`  (K = T|L, absent = '-')"""
    lines = []
    for n in nodes(root):
        pn = n.parent_num if n.parent_num is not None else (n.parent.num if n.parent is not None else None)
        kn = n.kid_nums if n.kid_nums is not None else [k.num for k in n.kids]
        cnt = 0 if n.leaf else (n.count if n.count is not None else nleaves(n))
        toks = ["%d" % n.num, "L" if n.leaf else "T", "-" if pn is None else "%d" % pn, "%d" % cnt,
                rect_tok(n.mb) if n.mb is not None else "-", rect_tok(n.cb) if n.cb is not None else "-",
                res_tok(n.res) if n.res is not None else "-"] + ["%d" % k for k in kn]
        lines.append(" ".join(toks))
    return "\n".join(lines).encode()


# ---- random trees ----------------------------------------------------------------------------------------

def rand_rect(rng):
    k = rng.randrange(4)
    if k == 0:
        return (0, 0, 612, 792)
    if k == 1:
        return (0, 0, rng.randint(1, 5000), rng.randint(1, 5000))
    if k == 2:
        return tuple(rng.randint(-2000, 8000) / 4.0 for _ in range(4))
    return (rng.randint(-100, 100), rng.randint(-100, 100) / 2.0, rng.randint(100, 2000), rng.randint(100, 2000) / 4.0)


def gen_shape(rng, max_nodes=60, max_height=12, target_h=None, n=None):
    """random ordered tree: ≤ max_nodes nodes, /Pages levels ≤ max_height, fan-out 0..6, empty intermediates included"""
    if target_h is None:
        target_h = rng.choice([1, 1, 2, 2, 3, 3, 3, 4, 4, 5, 6, 7, 8, 9, 10, 11, 12])
    target_h = min(target_h, max_height)
    if n is None:
        n = rng.randint(max(target_h, 1), max_nodes)
    n = max(n, target_h)
    root = tree([])
    trees = [(root, 1)]
    cur = root
    count = 1
    for lvl in range(2, target_h + 1):          # a spine so that the chosen height is reached
        t = tree([])
        cur.kids.insert(rng.randint(0, len(cur.kids)), t)
        trees.append((t, lvl))
        cur = t
        count += 1
    p_leaf = rng.choice([0.5, 0.7, 0.85])
    tries = 0
    while count < n and tries < 10 * n:
        tries += 1
        par, lvl = rng.choice(trees)
        if len(par.kids) >= 6:
            continue
        if rng.random() < p_leaf or lvl >= target_h:
            k = leaf()
        else:
            k = tree([])
            trees.append((k, lvl + 1))
        par.kids.insert(rng.randint(0, len(par.kids)), k)
        count += 1
    return root


def decorate(root, rng, next_free):
    """random placement of the three inheritable attributes; returns (res_objs, boxrefs)"""
    ns = nodes(root)
    p = {a: rng.choice([0.0, 0.1, 0.3, 0.6]) for a in ATTRS}
    p_cs = rng.choice([0.0, 0.3, 0.3, 0.7])         # share of the resource dictionaries that name colour spaces
    res_objs, boxrefs = {}, {}
    style = rng.randrange(5)
    for n in ns:
        for a in ATTRS:
            have = rng.random() < p[a]
            if n is root and style == 0:
                have = True                # everything inheritable from the root
            if n.leaf and style == 1:
                have = False               # leaves own nothing
            if not have:
                continue
            if a == "res":
                if rng.random() < 0.5:
                    num = next_free()
                    key = "Q%d" % num if rng.random() < 0.7 else ""
                    res_objs[num] = key
                    n.res = ("R", num)
                else:
                    n.res = ("D", "K%d" % n.num if rng.random() < 0.8 else "")
                if rng.random() < p_cs:
                    n.cs = colour_spaces(rng, next_free)
            else:
                setattr(n, a, rand_rect(rng))
                if rng.random() < 0.15:
                    boxrefs[(n.num, a)] = next_free()
    return res_objs, boxrefs


def build_case(rng, shape, compress=None):
    """number + decorate + render a shape; returns (file bytes, root) with the root finished"""
    finish(shape)
    n = len(nodes(shape))
    free = number(shape, rng, first=1, extra=0)
    nxt = [n + 1]

    def next_free():
        v = nxt[0]
        nxt[0] += 1
        return v
    cat = next_free()
    res_objs, boxrefs = decorate(shape, rng, next_free)
    if compress is None:
        compress = rng.choice([0.0, 0.0, 0.3, 0.7, 1.0])
    data = render(shape, rng, cat, res_objs, boxrefs, compress=compress)
    return data, shape
