"""tools/oracle/security.py — the standard security handler, written from the standards and independent of pdf-rs.

Sources: ISO 32000-1:2008 §7.6 (Algorithms 1-7), ISO 32000-2:2020 §7.6.4 (Algorithms 1.A, 2.A, 2.B, 8-10),
RFC 4013 (SASLprep, python's `stringprep` tables + NFKC), FIPS 197 (AES, pure python below), RC4 as published.
hashlib supplies MD5 / SHA-2.

Writer's side:  Handler(...)  describes a variant; `h.encrypt_dict()` is the /Encrypt dictionary, `h.file_key` the
file encryption key, `h.encrypt(num, gen, data, iv)` Algorithm 1 / 1.A, `protect(objects, h, ...)` encrypts every string
and stream of a document.  Reader's side (Algorithms 6, 7, 2.A — used to validate this file against the sample
files of the repository and as the expected value for wrong passwords): `authenticate(d, id0, pw)`.

All primitive calls go through the module-level names md5 / sha256 / sha384 / sha512 / aes_cbc_enc / aes_cbc_dec /
saslprep_bytes so that a caller can wrap them (the C06 plugin records them into oracle tables for the Gallina model).
"""
import hashlib, stringprep, unicodedata

PAD = bytes.fromhex("28BF4E5E4E758A4164004E56FFFA01082E2E00B6D0683E802F0CA9FE6453697A")


def md5(b):
    return hashlib.md5(bytes(b)).digest()


def sha256(b):
    return hashlib.sha256(bytes(b)).digest()


def sha384(b):
    return hashlib.sha384(bytes(b)).digest()


def sha512(b):
    return hashlib.sha512(bytes(b)).digest()


# ------------------------------------------------------------------------------------------------ RC4
def rc4(key, data):
    if not 1 <= len(key) <= 256:
        raise ValueError("RC4 key length")
    s = list(range(256))
    j = 0
    for i in range(256):
        j = (j + s[i] + key[i % len(key)]) & 255
        s[i], s[j] = s[j], s[i]
    i = j = 0
    out = bytearray()
    for b in data:
        i = (i + 1) & 255
        j = (j + s[i]) & 255
        s[i], s[j] = s[j], s[i]
        out.append(b ^ s[(s[i] + s[j]) & 255])
    return bytes(out)


# ------------------------------------------------------------------------------------------------ AES (FIPS 197)
def _xt(a):
    a <<= 1
    return (a ^ 0x11B) & 0xFF if a & 0x100 else a


def _gmul(a, b):
    r = 0
    while b:
        if b & 1:
            r ^= a
        a = _xt(a)
        b >>= 1
    return r


def _mk_sbox():
    # multiplicative inverse in GF(2^8) followed by the affine map (FIPS 197 §5.1.1)
    inv = [0] * 256
    for a in range(1, 256):
        for b in range(1, 256):
            if _gmul(a, b) == 1:
                inv[a] = b
                break
    sb = []
    for a in range(256):
        x = inv[a]
        y = x
        for k in range(1, 5):
            y ^= ((x << k) | (x >> (8 - k))) & 0xFF
        sb.append(y ^ 0x63)
    return sb


SBOX = _mk_sbox()
INV_SBOX = [0] * 256
for _i, _v in enumerate(SBOX):
    INV_SBOX[_v] = _i
_M2 = [_gmul(x, 2) for x in range(256)]
_M3 = [_gmul(x, 3) for x in range(256)]
_M9 = [_gmul(x, 9) for x in range(256)]
_M11 = [_gmul(x, 11) for x in range(256)]
_M13 = [_gmul(x, 13) for x in range(256)]
_M14 = [_gmul(x, 14) for x in range(256)]


def _expand(key):
    nk = len(key) // 4
    if nk not in (4, 6, 8):
        raise ValueError("AES key length")
    nr = nk + 6
    w = [list(key[4 * i:4 * i + 4]) for i in range(nk)]
    rc = 1
    for i in range(nk, 4 * (nr + 1)):
        t = list(w[i - 1])
        if i % nk == 0:
            t = t[1:] + t[:1]
            t = [SBOX[x] for x in t]
            t[0] ^= rc
            rc = _xt(rc)
        elif nk > 6 and i % nk == 4:
            t = [SBOX[x] for x in t]
        w.append([a ^ b for a, b in zip(w[i - nk], t)])
    return [sum(w[4 * r:4 * r + 4], []) for r in range(nr + 1)]


_SHIFT = [0, 5, 10, 15, 4, 9, 14, 3, 8, 13, 2, 7, 12, 1, 6, 11]
_INV_SHIFT = [0, 13, 10, 7, 4, 1, 14, 11, 8, 5, 2, 15, 12, 9, 6, 3]


def _enc_block(rk, blk):
    s = [a ^ b for a, b in zip(blk, rk[0])]
    nr = len(rk) - 1
    for r in range(1, nr + 1):
        s = [SBOX[s[_SHIFT[i]]] for i in range(16)]
        if r != nr:
            t = []
            for c in range(4):
                a0, a1, a2, a3 = s[4 * c:4 * c + 4]
                t += [_M2[a0] ^ _M3[a1] ^ a2 ^ a3, a0 ^ _M2[a1] ^ _M3[a2] ^ a3,
                      a0 ^ a1 ^ _M2[a2] ^ _M3[a3], _M3[a0] ^ a1 ^ a2 ^ _M2[a3]]
            s = t
        s = [a ^ b for a, b in zip(s, rk[r])]
    return s


def _dec_block(rk, blk):
    nr = len(rk) - 1
    s = [a ^ b for a, b in zip(blk, rk[nr])]
    for r in range(nr - 1, -1, -1):
        s = [INV_SBOX[s[_INV_SHIFT[i]]] for i in range(16)]
        s = [a ^ b for a, b in zip(s, rk[r])]
        if r != 0:
            t = []
            for c in range(4):
                a0, a1, a2, a3 = s[4 * c:4 * c + 4]
                t += [_M14[a0] ^ _M11[a1] ^ _M13[a2] ^ _M9[a3], _M9[a0] ^ _M14[a1] ^ _M11[a2] ^ _M13[a3],
                      _M13[a0] ^ _M9[a1] ^ _M14[a2] ^ _M11[a3], _M11[a0] ^ _M13[a1] ^ _M9[a2] ^ _M14[a3]]
            s = t
    return s


def aes_cbc_enc(key, iv, data):
    """CBC, no padding; len(data) must be a multiple of 16"""
    if len(data) % 16 or len(iv) != 16:
        raise ValueError("CBC input")
    rk = _expand(key)
    out = bytearray()
    prev = list(iv)
    for i in range(0, len(data), 16):
        prev = _enc_block(rk, [a ^ b for a, b in zip(data[i:i + 16], prev)])
        out += bytes(prev)
    return bytes(out)


def aes_cbc_dec(key, iv, data):
    if len(data) % 16 or len(iv) != 16:
        raise ValueError("CBC input")
    rk = _expand(key)
    out = bytearray()
    prev = list(iv)
    for i in range(0, len(data), 16):
        blk = list(data[i:i + 16])
        out += bytes(a ^ b for a, b in zip(_dec_block(rk, blk), prev))
        prev = blk
    return bytes(out)


def pkcs7_pad(m):
    n = 16 - len(m) % 16
    return bytes(m) + bytes([n]) * n


def pkcs7_unpad(m):
    if not m or len(m) % 16:
        return None
    n = m[-1]
    if n == 0 or n > 16 or m[-n:] != bytes([n]) * n:
        return None
    return m[:-n]


# ------------------------------------------------------------------------------------------------ SASLprep (RFC 4013)
def saslprep(s):
    """returns the prepared string or raises ValueError"""
    s = "".join(" " if stringprep.in_table_c12(c) else c for c in s if not stringprep.in_table_b1(c))
    s = unicodedata.normalize("NFKC", s)
    for c in s:
        if (stringprep.in_table_c12(c) or stringprep.in_table_c21(c) or stringprep.in_table_c22(c) or stringprep.in_table_c3(c)
                or stringprep.in_table_c4(c) or stringprep.in_table_c5(c) or stringprep.in_table_c6(c) or stringprep.in_table_c7(c)
                or stringprep.in_table_c8(c) or stringprep.in_table_c9(c)):
            raise ValueError("prohibited character")
    if any(stringprep.in_table_d1(c) for c in s):
        if any(stringprep.in_table_d2(c) for c in s):
            raise ValueError("bidi")
        if not (stringprep.in_table_d1(s[0]) and stringprep.in_table_d1(s[-1])):
            raise ValueError("bidi")
    for c in s:
        if stringprep.in_table_a1(c):
            raise ValueError("unassigned")
    return s


def saslprep_bytes(pw):
    """password bytes -> UTF-8 of SASLprep(password), or None when the bytes are not UTF-8 / the profile rejects them"""
    try:
        return saslprep(bytes(pw).decode("utf-8")).encode("utf-8")
    except (ValueError, UnicodeDecodeError):
        return None


def prep_r56(pw):
    p = saslprep_bytes(pw)
    return None if p is None else p[:127]


# ------------------------------------------------------------------------------------------------ R2-R4
def pad_pw(pw):
    return (bytes(pw) + PAD)[:32]


def le32(p):
    return (p & 0xFFFFFFFF).to_bytes(4, "little")


def alg2(R, n, pw, O, P, id0, encrypt_metadata=True):
    """Algorithm 2: file encryption key (n bytes) from the user password"""
    h = md5(pad_pw(pw) + bytes(O) + le32(P) + bytes(id0) + (b"\xff\xff\xff\xff" if R >= 4 and not encrypt_metadata else b""))
    if R >= 3:
        for _ in range(50):
            h = md5(h[:n])
    return h[:n]


def _owner_rc4_key(R, n, opw):
    h = md5(pad_pw(opw))
    if R >= 3:
        for _ in range(50):
            h = md5(h)
    return h[:n]


def _xor(key, i):
    return bytes(b ^ i for b in key)


def alg3(R, n, opw, upw):
    """Algorithm 3: the O value"""
    key = _owner_rc4_key(R, n, opw if opw else upw)
    x = rc4(key, pad_pw(upw))
    if R >= 3:
        for i in range(1, 20):
            x = rc4(_xor(key, i), x)
    return x


def alg4(key):
    """Algorithm 4: U for revision 2"""
    return rc4(key, PAD)


def alg5(key, id0, tail=bytes(16)):
    """Algorithm 5: U for revision 3/4 (16 significant bytes + 16 arbitrary)"""
    x = rc4(key, md5(PAD + bytes(id0)))
    for i in range(1, 20):
        x = rc4(_xor(key, i), x)
    return x + bytes(tail)


def alg6(R, n, pw, d, id0):
    """Algorithm 6: authenticate the user password; returns the file key or None"""
    key = alg2(R, n, pw, d["O"], d["P"], id0, d.get("EncryptMetadata", True))
    if R == 2:
        return key if alg4(key) == d["U"] else None
    return key if alg5(key, id0)[:16] == d["U"][:16] else None


def alg7(R, n, pw, d, id0):
    """Algorithm 7: authenticate the owner password"""
    key = _owner_rc4_key(R, n, pw)
    if R == 2:
        upw = rc4(key, d["O"])
    else:
        upw = d["O"]
        for i in range(19, -1, -1):
            upw = rc4(_xor(key, i), upw)
    return alg6(R, n, upw, d, id0)


# ------------------------------------------------------------------------------------------------ R5 / R6
def alg2b(pw, salt, u=b""):
    """Algorithm 2.B: the revision-6 hash"""
    k = sha256(bytes(pw) + bytes(salt) + bytes(u))
    i = 0
    while True:
        k1 = (bytes(pw) + k + bytes(u)) * 64
        e = aes_cbc_enc(k[:16], k[16:32], k1)
        m = int.from_bytes(e[:16], "big") % 3
        k = (sha256, sha384, sha512)[m](e)
        i += 1
        if i >= 64 and e[-1] <= i - 32:
            break
    return k[:32]


def hash_r56(R, pw, salt, u=b""):
    return sha256(bytes(pw) + bytes(salt) + bytes(u)) if R == 5 else alg2b(pw, salt, u)


def alg8(R, pw, file_key, vsalt, ksalt):
    """Algorithm 8: U and UE.  pw is already SASLprep'd + truncated"""
    U = hash_r56(R, pw, vsalt) + bytes(vsalt) + bytes(ksalt)
    UE = aes_cbc_enc(hash_r56(R, pw, ksalt), bytes(16), file_key)
    return U, UE


def alg9(R, pw, file_key, vsalt, ksalt, U):
    """Algorithm 9: O and OE"""
    O = hash_r56(R, pw, vsalt, U) + bytes(vsalt) + bytes(ksalt)
    OE = aes_cbc_enc(hash_r56(R, pw, ksalt, U), bytes(16), file_key)
    return O, OE


def alg10(P, encrypt_metadata, file_key, rnd4=b"abcd"):
    """Algorithm 10: Perms (AES-256 ECB of one block = CBC with zero IV)"""
    blk = le32(P) + b"\xff\xff\xff\xff" + (b"T" if encrypt_metadata else b"F") + b"adb" + bytes(rnd4)
    return aes_cbc_enc(file_key, bytes(16), blk)


def alg2a(R, pw, d):
    """Algorithm 2.A: returns the file key or None (owner tested first, as the standard lists it)"""
    p = prep_r56(pw)
    if p is None:
        return None
    O, U = d["O"], d["U"]
    if hash_r56(R, p, O[32:40], U[:48]) == O[:32]:
        return aes_cbc_dec(hash_r56(R, p, O[40:48], U[:48]), bytes(16), d["OE"])
    if hash_r56(R, p, U[32:40]) == U[:32]:
        return aes_cbc_dec(hash_r56(R, p, U[40:48]), bytes(16), d["UE"])
    return None


# ------------------------------------------------------------------------------------------------ per-object encryption
def object_key(file_key, num, gen, aes):
    """Algorithm 1 steps a-c"""
    n = len(file_key)
    h = md5(bytes(file_key) + (num & 0xFFFFFF).to_bytes(3, "little") + (gen & 0xFFFF).to_bytes(2, "little") + (b"sAlT" if aes else b""))
    return h[:min(n + 5, 16)]


METHODS = ("V2", "AESV2", "AESV3")


class Handler:
    """one variant of the standard security handler, writer's side

    R: 2..6   method: "V2" | "AESV2" | "AESV3" | "Identity" (V >= 4 only)   n: key length in bytes (5..16; 32 for AESV3)
    cf_length: how the crypt filter states its length: "bytes" | None (omitted; /Length of the dictionary is used)
    method is the crypt filter of streams (/StmF); str_method the one of strings (/StrF; default: the same filter).
    ISO 32000-1 Table 20: /StmF and /StrF each name an entry of /CF or Identity; both default to Identity (absent=True
    leaves an Identity entry out of the dictionary).
    """

    def __init__(self, R, method, n, upw, opw, P, id0, encrypt_metadata=True, salts=None, file_key=None, u_tail=bytes(16),
                 V=None, cf_length="bytes", cf_name=b"StdCF", str_method=None, absent=False, str_cf_name=b"StrCF"):
        self.R, self.method, self.n, self.P, self.id0, self.em = R, method, n, P, bytes(id0), encrypt_metadata
        self.upw, self.opw = bytes(upw), bytes(opw)
        self.cf_length, self.cf_name = cf_length, cf_name
        self.str_method = method if str_method is None else str_method
        self.absent, self.str_cf_name = absent, str_cf_name
        self.V = V if V is not None else (1 if R == 2 and n == 5 else 2 if R <= 3 else 4 if R == 4 else 5)
        if R <= 4:
            # EncryptMetadata is meaningful only for V >= 4 (Table 21); Algorithm 2 step f reads it only for R >= 4
            self.O = alg3(R, n, self.opw, self.upw)
            self.file_key = alg2(R, n, self.upw, self.O, P, self.id0, encrypt_metadata)
            self.U = alg4(self.file_key) if R == 2 else alg5(self.file_key, self.id0, u_tail)
            self.OE = self.UE = self.Perms = None
        else:
            salts = salts or (b"uvsalt01", b"uksalt02", b"ovsalt03", b"oksalt04")
            self.file_key = bytes(file_key) if file_key is not None else bytes(range(32))
            up, op = prep_r56(self.upw), prep_r56(self.opw)
            if up is None or op is None:
                raise ValueError("password is not acceptable to SASLprep")
            self.U, self.UE = alg8(R, up, self.file_key, salts[0], salts[1])
            self.O, self.OE = alg9(R, op, self.file_key, salts[2], salts[3], self.U)
            self.Perms = alg10(P, encrypt_metadata, self.file_key)

    @property
    def metadata_exempt(self):
        return self.V >= 4 and not self.em

    def filters(self):
        """(StmF name or None, StrF name or None, [(filter name, method, /Length in bytes or None)]) for V >= 4"""
        ln = self.n if self.cf_length == "bytes" else None
        cf = []
        ident = None if self.absent else b"Identity"
        stmf = strf = ident
        if self.method != "Identity":
            stmf = self.cf_name
            cf.append((self.cf_name, self.method, ln))
        if self.str_method != "Identity":
            if self.str_method == self.method:
                strf = self.cf_name
            else:
                strf = self.str_cf_name
                cf.append((self.str_cf_name, self.str_method, ln))
        return stmf, strf, cf

    def dict_plain(self):
        """python-level view of the /Encrypt dictionary (bytes values are strings)"""
        d = {"O": self.O, "U": self.U, "P": self.P, "R": self.R, "V": self.V, "Length": self.n * 8, "EncryptMetadata": self.em}
        if self.OE is not None:
            d.update(OE=self.OE, UE=self.UE, Perms=self.Perms)
        return d

    def encrypt_dict(self):
        from .pdfwriter import Name
        d = {"Filter": Name("Standard"), "V": self.V, "R": self.R, "Length": self.n * 8, "P": self.P, "O": self.O, "U": self.U}
        if self.V >= 4:
            stmf, strf, cfs = self.filters()
            d["CF"] = {}
            for (name, method, ln) in cfs:
                cf = {"Type": Name("CryptFilter"), "CFM": Name(method), "AuthEvent": Name("DocOpen")}
                if ln is not None:
                    cf["Length"] = ln
                d["CF"][name.decode()] = cf
            if stmf is not None:
                d["StmF"] = Name(stmf)
            if strf is not None:
                d["StrF"] = Name(strf)
            d["EncryptMetadata"] = self.em
        elif not self.em:
            d["EncryptMetadata"] = False       # present but not meaningful for V < 4
        if self.R >= 5:
            d.update(OE=self.OE, UE=self.UE, Perms=self.Perms)
        return d

    def encrypt(self, num, gen, data, iv=bytes(16), string=False):
        """Algorithm 1 (RC4 / AES-128) and 1.A (AES-256) under the crypt filter of streams, or of strings"""
        data = bytes(data)
        method = self.str_method if string else self.method
        if method == "Identity":
            return data
        if method == "V2":
            return rc4(object_key(self.file_key, num, gen, False), data)
        if method == "AESV2":
            return bytes(iv) + aes_cbc_enc(object_key(self.file_key, num, gen, True), iv, pkcs7_pad(data))
        return bytes(iv) + aes_cbc_enc(self.file_key, iv, pkcs7_pad(data))

    def decrypt(self, num, gen, data):
        data = bytes(data)
        if self.method == "V2":
            return rc4(object_key(self.file_key, num, gen, False), data) if data else data
        key = object_key(self.file_key, num, gen, True) if self.method == "AESV2" else self.file_key
        if len(data) < 16 or len(data) % 16:
            return None
        return pkcs7_unpad(aes_cbc_dec(key, data[:16], data[16:]))


def authenticate(d, id0, pw):
    """reader's side from the standards: file key or None.  d: python view of the /Encrypt dictionary"""
    R = d["R"]
    if R <= 4:
        n = 5 if d.get("V", 0) == 1 else d.get("KeyBytes", d.get("Length", 40) // 8)
        k = alg6(R, n, pw, d, id0)
        return k if k is not None else alg7(R, n, pw, d, id0)
    return alg2a(R, pw, d)


def encrypt_value(h, num, gen, v, ivs, strings=True, streams=True):
    """encrypt every string inside v and, for a stream, its data (Algorithm 1 / 1.A under (num, gen)).
    strings / streams = False model a crypt filter /Identity for /StrF resp. /StmF."""
    from .pdfwriter import Stream
    if isinstance(v, (bytes, bytearray)):
        return h.encrypt(num, gen, v, next(ivs), string=True) if strings else bytes(v)
    if isinstance(v, (list, tuple)):
        return [encrypt_value(h, num, gen, x, ivs, strings, streams) for x in v]
    if isinstance(v, dict):
        return {k: encrypt_value(h, num, gen, x, ivs, strings, streams) for k, x in v.items()}
    if isinstance(v, Stream):
        d = {k: encrypt_value(h, num, gen, x, ivs, strings, streams) for k, x in v.d.items()}
        return Stream(d, h.encrypt(num, gen, v.data, next(ivs)) if streams else v.data)
    return v


def protect(objects, h, ivs, exempt=(), gens=None, strings=True, streams=True):
    """objects: {num: value} (plain).  Returns {num: value} with every string and stream encrypted under (num, gen).
    `exempt`: object numbers left as they are (the /Encrypt dictionary; the metadata stream when it is exempt;
    cross-reference streams)."""
    gens = gens or {}
    return {num: (v if num in exempt else encrypt_value(h, num, gens.get(num, 0), v, ivs, strings, streams)) for num, v in objects.items()}
