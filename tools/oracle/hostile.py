"""tools/oracle/hostile.py — generators of hostile input for the exploration half of C01 / C14.

Pure python (stdlib + the sibling oracle modules), deterministic given `rng` (a random.Random).

  corpus_files(repo=None)      -> [(name, bytes)]      repository fixtures incl. past fuzz crashes
  schema(repo=None)            -> {struct: [(key, rust_type, kind)]}   kind in {"ref", "num", "other"}; parsed from the Rust source
  typed_doc(rng, focus=None)   -> Doc                  typed object graph (numbers known, roles recorded)
  render(doc, style, rng=None) -> bytes                style in STYLES (classic table, xref stream, object streams, incremental, encrypted)
  valid_files(rng)             -> [(name, bytes)]      oracle-written valid files in every style ("grammar generator")
  mutate(rng, data, others=()) -> bytes                one mutated copy (byte / token / structure level)
  planted(rng, tier)           -> iterator of (tag, bytes)   cycles, over-deep nesting, boundary numbers, planted field by field
  malformed(rng)               -> iterator of (tag, bytes)   truncations, giant numbers, unbalanced delimiters, empty / header only
  fix_xref(data)               -> bytes                rebuild a classic xref table for a text-edited file
"""
import copy, hashlib, os, re, struct, zlib

from . import pdfwriter as W
from . import codecs as C

Name, Ref, Stream = W.Name, W.Ref, W.Stream
N = Name

BOUNDARY = [-1, 0, 1, 2 ** 31 - 1, 2 ** 32 - 1, 2 ** 64 - 1]
BOUNDARY_MORE = [2 ** 31, 2 ** 32, 2 ** 63]
TOKEN_NUMBERS = [-1, 0, 1, 2 ** 31 - 1, 2 ** 31, 2 ** 32 - 1, 2 ** 32, 2 ** 63, 2 ** 64 - 1, 2 ** 64]


def _repo(repo=None):
    return repo or os.environ.get("VERIF_REPO", "/repo")


# =================================================================================================
# corpus

def corpus_files(repo=None):
    base = os.path.join(_repo(repo), "files")
    out = []
    for fn in sorted(os.listdir(base)):
        p = os.path.join(base, fn)
        if os.path.isfile(p) and fn.endswith(".pdf"):
            out.append((fn, open(p, "rb").read()))
    for sub in ("invalid", "password_protected"):
        for dp, _, fns in sorted(os.walk(os.path.join(base, sub))):
            for fn in sorted(fns):
                out.append((sub + "/" + fn, open(os.path.join(dp, fn), "rb").read()))
    return out


# =================================================================================================
# schema extracted from the Rust source

SCHEMA_FILES = ["object/types.rs", "font.rs", "object/color.rs", "object/function.rs", "object/stream.rs", "crypt.rs", "enc.rs",
                "xref.rs", "content.rs", "file.rs", "encoding.rs", "object/mod.rs"]
NUM_TYPES = {"i32", "u32", "usize", "u8", "u16", "i64", "u64", "f32", "Rectangle", "Matrix", "isize", "i16", "f64"}
REF_WRAPPERS = ("Ref<", "RcRef<", "MaybeRef<", "Lazy<", "Box<", "PagesRc", "PageRc")
_schema_cache = {}


def _strip_wrappers(t):
    t = t.strip()
    while True:
        m = re.match(r"^(?:Option|Vec)<(.*)>$", t)
        if m:
            t = m.group(1).strip()
            continue
        m = re.match(r"^HashMap<\s*Name\s*,\s*(.*)>$", t)
        if m:
            t = m.group(1).strip()
            continue
        return t


def _kind_of(t, objects):
    if any(w in t for w in REF_WRAPPERS):
        return "ref"
    core = _strip_wrappers(t)
    if t.replace(" ", "") in ("Vec<Primitive>", "Option<Vec<Primitive>>"):
        return "num"      # arrays whose elements are read as numbers one by one (/W, /D)
    if core in NUM_TYPES or re.match(r"^\((\s*(f32|i32|u32|usize)\s*,?)+\)$", core):
        return "num"
    head = re.match(r"^(\w+)", core)
    if head and head.group(1) in objects and head.group(1) not in ("Primitive", "Dictionary", "Name", "PdfString", "Date", "String", "bool"):
        return "ref"
    return "other"


def schema(repo=None, with_types=False):
    """{struct: [(key, rust_type, kind)]}; pseudo-structs for hand-written `impl Object` readers have rust_type "?"."""
    root = os.path.join(_repo(repo), "pdf", "src")
    ck = (root, with_types)
    if ck in _schema_cache:
        return _schema_cache[ck]
    srcs = {}
    for f in SCHEMA_FILES:
        p = os.path.join(root, f)
        if os.path.exists(p):
            srcs[f] = open(p, encoding="utf-8", errors="replace").read()
    objects = set()
    for s in srcs.values():
        for m in re.finditer(r"#\[derive\(([^)]*)\)\]((?:\s*(?:#\[[^\]]*\]|///[^\n]*))*)\s*(?:pub(?:\s*\([^)]*\))?\s+)?(struct|enum)\s+(\w+)", s):
            if re.search(r"\bObject\b", m.group(1)):
                objects.add(m.group(4))
        for m in re.finditer(r"impl(?:<[^>]*>)?\s+(?:Object|FromDict)\s+for\s+(\w+)", s):
            objects.add(m.group(1))
    out, types = {}, {}
    for f, s in srcs.items():
        for m in re.finditer(r"#\[derive\(([^)]*)\)\]((?:\s*(?:#\[[^\]]*\]|///[^\n]*))*)\s*(?:pub(?:\s*\([^)]*\))?\s+)?struct\s+(\w+)(?:<[^>]*>)?\s*\{", s):
            if not re.search(r"\bObject\b", m.group(1)):
                continue
            name = m.group(3)
            # struct-level #[pdf(Type = "X?", Subtype = "Y")]
            ta = re.search(r'#\[pdf\(([^\]]*)\)\]', m.group(2) or "")
            if ta:
                ty = re.search(r'Type\s*=\s*"([^"]+)"', ta.group(1))
                st = re.search(r'Subtype\s*=\s*"([^"]+)"', ta.group(1))
                types[name] = (ty.group(1).rstrip("?") if ty else None, st.group(1).rstrip("?") if st else None)
            i = m.end()
            depth, j = 1, i
            while j < len(s) and depth:
                depth += {"{": 1, "}": -1}.get(s[j], 0)
                j += 1
            body = s[i:j - 1]
            fields = []
            for fm in re.finditer(r'#\[pdf\(\s*key\s*=\s*"([^"]+)"[^\n]*\n\s*(?:///[^\n]*\s*|//[^\n]*\s*)*(?:pub(?:\s*\([^)]*\))?\s+)?(\w+)\s*:\s*([^\n]+?),?\s*(?://[^\n]*)?\n', body):
                t = fm.group(3).strip().rstrip(",").strip()
                fields.append((fm.group(1), t, _kind_of(t, objects)))
            out[name] = fields
        # hand-written readers: dict.remove("K") / dict.get("K") / dict.require("T", "K") inside impl blocks
        for m in re.finditer(r"impl(?:<[^>]*>)?\s+(?:Object|FromDict)\s+for\s+(\w+)(?:<[^>]*>)?\s*\{", s):
            name = m.group(1)
            i = m.end()
            depth, j = 1, i
            while j < len(s) and depth:
                depth += {"{": 1, "}": -1}.get(s[j], 0)
                j += 1
            body = s[i:j - 1]
            fields = []
            for km in re.finditer(r'\.(?:remove|get|require|expect)\(\s*(?:"[^"]*"\s*,\s*)?"(\w+)"', body):
                ctx = body[max(0, km.start() - 60):km.end() + 160]
                if km.group(1) in ("Kids",):
                    kind = "ref"
                elif re.search(r"usize::from_primitive|as_integer|as_u32|as_usize|as_u8|as_number|f32::|Vec::<f32>", ctx):
                    kind = "num"
                elif re.search(r"Ref::<|Ref<|Object::from_primitive|T::from_primitive|Stream|ColorSpace|Vec::<", ctx):
                    kind = "ref"
                else:
                    kind = "other"
                if not any(k == km.group(1) for k, _, _ in fields):
                    fields.append((km.group(1), "?", kind))
            if fields and name not in out:
                out[name] = fields
    # content.rs inline_image() reads its dictionary by hand
    if "content.rs" in srcs:
        m = re.search(r"fn inline_image\b(.*?)\n}\n", srcs["content.rs"], flags=re.S)
        if m:
            fields = []
            for km in re.finditer(r'\.(?:remove|get|require)\(\s*(?:"[^"]*"\s*,\s*)?"(\w+)"', m.group(1)):
                ctx = m.group(1)[km.start():km.end() + 120]
                kind = "num" if re.search(r"as_u32|as_integer|as_number|f32", ctx) else "other"
                if not any(k == km.group(1) for k, _, _ in fields):
                    fields.append((km.group(1), "?", kind))
            out["InlineImage"] = fields
    res = (out, types) if with_types else out
    _schema_cache[ck] = res
    return res


def schema_index(repo=None):
    """key -> [(struct, rust_type, kind)]"""
    idx = {}
    for st, fields in schema(repo).items():
        for k, t, kind in fields:
            idx.setdefault(k, []).append((st, t, kind))
    return idx


def guess_struct(d, repo=None):
    """the schema struct a dictionary most plausibly is read as: by /Type + /Subtype attributes, else by key overlap"""
    sch, types = schema(repo, with_types=True)
    ty = d.get("Type").s.decode("latin-1") if isinstance(d.get("Type"), Name) else None
    sub = d.get("Subtype").s.decode("latin-1") if isinstance(d.get("Subtype"), Name) else None
    if ty == "Font" or sub in ("Type0", "Type1", "TrueType", "CIDFontType0", "CIDFontType2"):
        cand = {"Type0": "Type0Font", "Type1": "TFont", "TrueType": "TFont", "MMType1": "TFont", "CIDFontType0": "CIDFont", "CIDFontType2": "CIDFont"}.get(sub)
        if cand in sch:
            return cand
    best = None
    for st, (t, s) in types.items():
        if t and (t == ty or (ty is None and s is not None)) and (s is None or s == sub):
            if best is None or (s is not None):
                best = st
    if best:
        return best
    keys = set(d)
    score = None
    for st, fields in sch.items():
        n = len(keys & {k for k, _, _ in fields})
        if n and (score is None or (n, -len(fields)) > score[0]):
            score = ((n, -len(fields)), st)
    return score[1] if score else None


def field_info(struct_name, key, repo=None):
    """(struct, rust_type, kind) for `key` read by `struct_name`, falling back to any struct that reads this key"""
    sch = schema(repo)
    for k, t, kind in sch.get(struct_name, []):
        if k == key:
            return (struct_name, t, kind)
    for st, t, kind in schema_index(repo).get(key, []):
        return (st, t, kind)
    return None


# =================================================================================================
# typed documents ("grammar generator")

class Doc:
    """objects: {num: value}; roles: {role: num} (what each object is, for planting); root/info numbers"""
    def __init__(self):
        self.objects = {}
        self.roles = {}
        self.root = None
        self.info = None
        self.next = 1
        self.ident = [b"0123456789abcdef", b"fedcba9876543210"]

    def add(self, value, role=None):
        n = self.next
        self.next += 1
        self.objects[n] = value
        if role:
            self.roles[role] = n
        return Ref(n)

    def reserve(self, role=None):
        return self.add(None, role)

    def set(self, ref, value):
        self.objects[ref.num] = value

    def clone(self):
        d = Doc()
        d.objects = copy.deepcopy(self.objects)
        d.roles = dict(self.roles)
        d.root, d.info, d.next, d.ident = self.root, self.info, self.next, list(self.ident)
        return d


def _filtered(rng, data, kind, d=None, parms=None):
    """Stream with `data` encoded by the named filter chain; kind: None|flate|hex|a85|rle|lzw|a85+flate|flate+png|lzw+tiff"""
    d = dict(d or {})
    if kind is None:
        return Stream(d, data)
    if kind == "flate":
        d["Filter"] = N("FlateDecode")
        return Stream(d, zlib.compress(data))
    if kind == "hex":
        d["Filter"] = N("ASCIIHexDecode")
        return Stream(d, C.hex_encode(data))
    if kind == "a85":
        d["Filter"] = [N("ASCII85Decode")]
        return Stream(d, C.a85_encode(data))
    if kind == "rle":
        d["Filter"] = N("RunLengthDecode")
        return Stream(d, C.rle_encode(data))
    if kind == "lzw":
        d["Filter"] = N("LZWDecode")
        if rng.random() < 0.5:
            d["DecodeParms"] = {"EarlyChange": 1}
        return Stream(d, C.lzw_encode(data, 1))
    if kind == "lzw0":
        d["Filter"] = N("LZWDecode")
        d["DecodeParms"] = {"EarlyChange": 0}
        return Stream(d, C.lzw_encode(data, 0))
    if kind == "a85+flate":
        d["Filter"] = [N("ASCII85Decode"), N("FlateDecode")]
        d["DecodeParms"] = [None, {"Predictor": 1}]
        return Stream(d, C.a85_encode(zlib.compress(data)))
    if kind == "flate+png":
        colors, bpc, cols = parms
        rb = C.row_bytes(colors, bpc, cols)
        rows = max(1, len(data) // rb)
        data = (data + bytes(rb))[:rows * rb]
        fts = [rng.randrange(5) for _ in range(rows)]
        enc = C.png_predict(data, colors, bpc, cols, fts)
        d["Filter"] = N("FlateDecode")
        d["DecodeParms"] = {"Predictor": rng.choice([10, 11, 12, 13, 14, 15]), "Colors": colors, "BitsPerComponent": bpc, "Columns": cols}
        return Stream(d, zlib.compress(enc))
    if kind == "flate+tiff":
        colors, bpc, cols = parms
        rb = C.row_bytes(colors, bpc, cols)
        rows = max(1, len(data) // rb)
        data = (data + bytes(rb))[:rows * rb]
        d["Filter"] = N("FlateDecode")
        d["DecodeParms"] = {"Predictor": 2, "Colors": colors, "BitsPerComponent": bpc, "Columns": cols}
        return Stream(d, zlib.compress(C.tiff_predict(data, colors, bpc, cols)))
    raise ValueError(kind)


STREAM_KINDS = [None, "flate", "hex", "a85", "rle", "lzw", "lzw0", "a85+flate"]

CMAP = (b"/CIDInit /ProcSet findresource begin 12 dict begin begincmap /CMapName /Adobe-Identity-UCS def /CMapType 2 def\n"
        b"1 begincodespacerange <0000> <FFFF> endcodespacerange\n"
        b"3 beginbfchar <0001> <0041> <0002> <00420043> <03> <D835DC00> endbfchar\n"
        b"2 beginbfrange <0010> <0015> <0061> <0020> <0022> [<0030> <0031> <00320033>] endbfrange\n"
        b"endcmap CMapName currentdict /CMap defineresource pop end end\n")

PS_PROGRAMS = [
    b"{ dup dup }",
    b"{ dup 0.5 mul exch 1 exch sub 1 index }",
    b"{ dup dup 3 1 roll 2 index pop exch }",
    b"{ 0.3 mul dup 0.2 add exch dup 1 index pop }",
    b"{ dup 2 mul 1 sub abs dup 0 index pop cvr }",
]


def _content(rng, fonts, xobjs, css, gss, pats, props, inline=True):
    """a content stream using a range of operators and the given resource names"""
    o = []
    w = o.append
    fonts, xobjs, css, gss, pats, props = [[x.encode() if isinstance(x, str) else x for x in l] for l in (fonts, xobjs, css, gss, pats, props)]
    w(b"q 1 0 0 1 10 20 cm 2 w 1 J 0 j 4 M [3 2] 1 d /Perceptual ri 1 i")
    for g in gss:
        w(b"/%s gs" % g)
    w(b"10 10 m 100 10 l 100 100 50 150 10 100 c 20 20 30 30 v 40 40 50 50 y h S")
    w(b"0 0 50 50 re f 0 0 10 10 re f* 1 1 5 5 re B 1 1 5 5 re B* 2 2 m 3 3 l b 2 2 m 3 3 l b* 2 2 m 3 3 l s 0 0 1 1 re F")
    w(b"0 0 20 20 re W n 0 0 20 20 re W* n")
    w(b"0.5 g 0.25 G 1 0 0 rg 0 1 0 RG 0 0 0 1 k 1 0 0 0 K")
    for c in css:
        w(b"/%s cs 0.5 sc /%s CS 0.5 SC 0.5 scn 0.25 SCN" % (c, c))
    for p in pats:
        w(b"/Pattern cs /%s scn" % p)
    w(b"/DeviceRGB cs 1 0 0 sc")
    w(b"BT")
    for f in fonts:
        w(b"/%s 12 Tf 1 Tc 2 Tw 90 Tz 14 TL 0 Tr 1 Ts 10 700 Td 5 -5 TD 1 0 0 1 72 720 Tm T* (Hello \\(world\\)) Tj [(a) -120 (b) 3.5 <0001>] TJ (x) ' 1 2 (y) \"" % f)
    w(b"ET")
    for x in xobjs:
        w(b"q /%s Do Q" % x)
    for pr in props:
        w(b"/OC /%s BDC EMC" % pr)
    w(b"/Tag BMC EMC /Tag MP /Tag <</K 1>> DP /Artifact <</Type /Pagination>> BDC EMC")
    if inline:
        w(b"BI /W 2 /H 2 /CS /RGB /BPC 8 ID " + bytes(range(12)) + b" EI")
        w(b"BI /Width 4 /Height 1 /ColorSpace /G /BitsPerComponent 8 /F /AHx ID 00ff00ff> EI")
        if rng.random() < 0.5:
            w(b"BI /W 8 /H 1 /IM true /BPC 1 /D [1 0] ID \xaa EI")
    w(b"BX /unknownop EX")
    w(b"Q")
    rng.shuffle(o) if rng.random() < 0.15 else None
    if inline and rng.random() < 0.35:
        # degenerate inline images at the very end of the stream (whatever they yield — a value or an error — nothing follows them):
        # no data at all, only an end-of-line between ID and EI, EI glued to ID, no EI, EI as the last bytes, ID at the end
        o.append(rng.choice(DEGENERATE_BI))
    return b"\n".join(o) + b"\n"


DEGENERATE_BI = [
    b"BI /W 1 /H 1 /BPC 8 /CS /G ID\nEI", b"BI /W 1 /H 1 /BPC 8 /CS /G ID\r\nEI", b"BI /W 1 /H 1 /BPC 8 /CS /G ID\rEI",
    b"BI /W 1 /H 1 /BPC 8 /CS /G ID EI", b"BI /W 1 /H 1 /BPC 8 /CS /G IDEI", b"BI /W 0 /H 0 /BPC 8 /CS /G ID\n\nEI",
    b"BI ID\nEI", b"BI ID EI", b"BI /W 1 /H 1 /BPC 8 /CS /G ID x", b"BI /W 1 /H 1 /BPC 8 /CS /G ID", b"BI /W 1 /H 1 /BPC 8 /CS /G ID\n",
    b"BI /W 1 /H 1 /BPC 8 /CS /G ID xEI", b"BI /W 1 /H 1 /BPC 8 /CS /G /F /AHx ID >EI", b"BI /W 1 /H 1 /BPC 8 /CS /G /F /AHx ID\nEI",
    b"BI /W 1 /H 1 /BPC 8 /CS /G /F [/AHx /A85] ID\n~>\nEI", b"BI /W 1 /H 1 ID\nEI Q", b"BI", b"BI /W", b"ID\nEI", b"EI",
]


def _font_descriptor(doc, rng, name, file_key, role):
    prog = bytes(rng.randrange(256) for _ in range(rng.choice([0, 16, 200])))
    fd = {"Length1": len(prog)}
    if file_key == "FontFile3":
        fd["Subtype"] = N(rng.choice(["Type1C", "CIDFontType0C", "OpenType"]))
    ff = doc.add(_filtered(rng, prog, rng.choice([None, "flate", "a85"]), fd), role + ".fontfile")
    d = {"Type": N("FontDescriptor"), "FontName": N(name), "Flags": 32, "FontBBox": [-100, -200, 1000, 900], "ItalicAngle": 0,
         "Ascent": 800, "Descent": -200, "CapHeight": 700, "StemV": 80, file_key: ff}
    if rng.random() < 0.5:
        d.update({"FontFamily": b"Fam", "FontStretch": N("Normal"), "FontWeight": 400, "Leading": 10, "XHeight": 500,
                  "StemH": 70, "AvgWidth": 500, "MaxWidth": 1000, "MissingWidth": 250, "CharSet": b"/a/b"})
    return doc.add(d, role + ".descriptor")


def _fonts(doc, rng, which=("t1", "tt", "t0")):
    out = {}
    tu = doc.add(_filtered(rng, CMAP, rng.choice([None, "flate"])), "tounicode")
    if "t1" in which:
        n = rng.choice([1, 3, 95])
        widths = [rng.choice([250, 500, 722.5, 0]) for _ in range(n)]
        enc = {"Type": N("Encoding"), "BaseEncoding": N("WinAnsiEncoding"), "Differences": [39, N("quotesingle"), 96, N("grave"), 128, N("a"), N("b")]}
        d = {"Type": N("Font"), "Subtype": N("Type1"), "BaseFont": N("ABCDEF+Times"), "FirstChar": 32, "LastChar": 32 + n - 1,
             "Widths": doc.add(widths, "font.t1.widths") if rng.random() < 0.4 else widths,
             "FontDescriptor": _font_descriptor(doc, rng, "ABCDEF+Times", rng.choice(["FontFile", "FontFile3"]), "font.t1"),
             "Encoding": doc.add(enc, "font.t1.encoding") if rng.random() < 0.5 else enc, "ToUnicode": tu}
        out["F1"] = doc.add(d, "font.t1")
    if "tt" in which:
        d = {"Type": N("Font"), "Subtype": N("TrueType"), "BaseFont": N("Arial"), "FirstChar": 0, "LastChar": 3, "Widths": [500, 600, 700, 800],
             "FontDescriptor": _font_descriptor(doc, rng, "Arial", "FontFile2", "font.tt"), "Encoding": N(rng.choice(["WinAnsiEncoding", "MacRomanEncoding"]))}
        out["F2"] = doc.add(d, "font.tt")
    if "t0" in which:
        warr = doc.add([600, 610, 620], "font.cid.warray")
        wforms = [1, [500, 600.5], 10, 20, 700, 30, warr]
        rng.random() < 0.3 and wforms.extend([100, [1, 2, 3], 200, 205, 300])
        cid = {"Type": N("Font"), "Subtype": N(rng.choice(["CIDFontType2", "CIDFontType0"])), "BaseFont": N("Noto"),
               "CIDSystemInfo": {"Registry": b"Adobe", "Ordering": b"Identity", "Supplement": 0},
               "FontDescriptor": _font_descriptor(doc, rng, "Noto", "FontFile2", "font.cid"), "DW": rng.choice([1000, 500.5]), "W": wforms}
        if rng.random() < 0.6:
            cid["CIDToGIDMap"] = N("Identity") if rng.random() < 0.5 else doc.add(_filtered(rng, bytes(range(40)), rng.choice([None, "flate"])), "font.cid.gidmap")
        cref = doc.add(cid, "font.cid")
        d = {"Type": N("Font"), "Subtype": N("Type0"), "BaseFont": N("Noto"), "Encoding": N("Identity-H"), "DescendantFonts": [cref], "ToUnicode": tu}
        out["F3"] = doc.add(d, "font.t0")
    return out


def _functions(doc, rng):
    f2 = {"FunctionType": 2, "Domain": [0, 1], "C0": [0, 0, 0, 0], "C1": [0.1, 0.9, 0.5, 1], "N": rng.choice([1, 2.2])}
    if rng.random() < 0.5:
        f2["Range"] = [0, 1, 0, 1, 0, 1, 0, 1]
    r2 = doc.add(f2, "fn2")
    r4 = doc.add(_filtered(rng, rng.choice(PS_PROGRAMS), rng.choice([None, "flate"]),
                           {"FunctionType": 4, "Domain": [0, 1], "Range": [0, 1, 0, 1, 0, 1]}), "fn4")
    samples = bytes(rng.randrange(256) for _ in range(2 * 2 * 4))
    d0 = {"FunctionType": 0, "Domain": [0, 1, 0, 1], "Range": [0, 1, 0, 1, 0, 1, 0, 1], "Size": [2, 2], "BitsPerSample": 8}
    if rng.random() < 0.5:
        d0.update({"Order": 1, "Encode": [0, 1, 0, 1], "Decode": [0, 1, 0, 1, 0, 1, 0, 1]})
    r0 = doc.add(_filtered(rng, samples, rng.choice([None, "flate", "hex"]), d0), "fn0")
    return r2, r4, r0


def _colorspaces(doc, rng):
    r2, r4, r0 = _functions(doc, rng)
    icc = doc.add(_filtered(rng, bytes(128), rng.choice([None, "flate"]), {"N": 3, "Alternate": N("DeviceRGB"), "Range": [0, 1, 0, 1, 0, 1]}), "icc")
    lookup = doc.add(_filtered(rng, bytes(range(6)), rng.choice([None, "hex"])), "cs.lookup")
    cs = {
        "CS0": [N("Indexed"), N("DeviceRGB"), 3, bytes(range(12))],
        "CS1": doc.add([N("Indexed"), [N("ICCBased"), icc], 1, lookup], "cs.indexed"),
        "CS2": doc.add([N("Separation"), N("Spot"), N("DeviceCMYK"), r2], "cs.separation"),
        "CS3": [N("Separation"), N("All"), N("DeviceRGB"), r4],
        "CS4": doc.add([N("DeviceN"), [N("A"), N("B")], N("DeviceCMYK"), r0, {"Subtype": N("DeviceN")}], "cs.devicen"),
        "CS5": [N("ICCBased"), icc],
        "CS6": [N("CalRGB"), {"WhitePoint": [0.95, 1, 1.09], "Gamma": [2.2, 2.2, 2.2]}],
        "CS7": N("DeviceGray"),
    }
    return cs


def _images(doc, rng):
    out = {}
    w, h = 4, 3
    rgb = bytes(rng.randrange(256) for _ in range(w * h * 3))
    gray = bytes(rng.randrange(256) for _ in range(w * h))
    sm = doc.add(_filtered(rng, gray, "flate", {"Type": N("XObject"), "Subtype": N("Image"), "Width": w, "Height": h, "ColorSpace": N("DeviceGray"), "BitsPerComponent": 8}), "image.smask")
    base = {"Type": N("XObject"), "Subtype": N("Image"), "Width": w, "Height": h, "ColorSpace": N("DeviceRGB"), "BitsPerComponent": 8}
    out["Im0"] = doc.add(_filtered(rng, rgb, "flate+png", dict(base, SMask=sm, Intent=N("Perceptual"), Interpolate=True), (3, 8, w)), "image.png")
    out["Im1"] = doc.add(_filtered(rng, rgb, "hex", base), "image.hex")
    out["Im2"] = doc.add(_filtered(rng, rgb, "a85", base), "image.a85")
    out["Im3"] = doc.add(_filtered(rng, rgb, "rle", base), "image.rle")
    out["Im4"] = doc.add(_filtered(rng, rgb, rng.choice(["lzw", "lzw0"]), base), "image.lzw")
    out["Im5"] = doc.add(_filtered(rng, rgb, "flate+tiff", base, (3, 8, w)), "image.tiff")
    out["Im6"] = doc.add(_filtered(rng, bytes([0xaa, 0x55, 0xaa]), None, {"Type": N("XObject"), "Subtype": N("Image"), "Width": 8, "Height": 3,
                                   "ImageMask": True, "BitsPerComponent": 1, "Decode": [1, 0]}), "image.mask")
    return out


def typed_doc(rng, focus=None):
    """focus: None (everything) | "pages" | "fonts" | "images" | "color" | "catalog" — small fragments keep planting exhaustive"""
    doc = Doc()
    full = focus is None
    cat = doc.reserve("catalog")
    doc.root = cat.num
    root = doc.reserve("pages.root")
    fonts = _fonts(doc, rng, ("t1", "tt", "t0") if full or focus == "fonts" else (("t1",) if focus == "pages" else ()))
    images = _images(doc, rng) if full or focus == "images" else {}
    css = _colorspaces(doc, rng) if full or focus == "color" else {}
    res = {"ProcSet": [N("PDF"), N("Text")]}
    if fonts:
        res["Font"] = dict(fonts)
    xobj = dict(images)
    gss, pats, props = {}, {}, {}
    if full or focus in ("images", "pages"):
        fres = doc.reserve("form.resources")
        form = doc.add(_filtered(rng, b"q 0 0 10 10 re f Q\n", rng.choice([None, "flate"]),
                                 {"Type": N("XObject"), "Subtype": N("Form"), "FormType": 1, "BBox": [0, 0, 100, 100], "Matrix": [1, 0, 0, 1, 0, 0], "Resources": fres}), "form")
        doc.set(fres, {"XObject": ({"Im": images["Im1"]} if images else {}), "ProcSet": [N("PDF")]})
        xobj["Fm0"] = form
    if xobj:
        res["XObject"] = xobj
    if css:
        res["ColorSpace"] = css
    if full or focus == "color":
        gs = {"Type": N("ExtGState"), "LW": 2, "LC": 1, "LJ": 0, "ML": 4, "D": [[3, 2], 0], "CA": 0.5, "ca": 0.25, "OPM": 1, "BM": N("Normal"), "SMask": N("None")}
        if fonts:
            gs["Font"] = [fonts["F1"], 12]
        gss["GS0"] = doc.add(gs, "extgstate") if rng.random() < 0.5 else gs
        res["ExtGState"] = gss
        pres = doc.add({"ProcSet": [N("PDF")]}, "pattern.resources")
        pats["P0"] = doc.add(_filtered(rng, b"0 0 5 5 re f\n", None, {"Type": N("Pattern"), "PatternType": 1, "PaintType": 1, "TilingType": 1,
                                       "BBox": [0, 0, 10, 10], "XStep": 10, "YStep": 10, "Resources": pres, "Matrix": [1, 0, 0, 1, 0, 0]}), "pattern")
        res["Pattern"] = pats
        props["MC0"] = {"Type": N("OCG"), "Name": b"layer"}
        res["Properties"] = props
    shared_res = doc.add(res, "resources")
    # ---- page tree
    pages = []

    def make_page(parent, idx):
        body = _content(rng, sorted(fonts), sorted(xobj), [c for c in sorted(css)][:4], sorted(gss), sorted(pats), sorted(props), inline=True)
        style = rng.randrange(3)
        if style == 0:
            contents = doc.add(_filtered(rng, body, rng.choice(STREAM_KINDS)), "page%d.contents" % idx)
        elif style == 1:
            cut = body.rfind(b"\n", 0, len(body) // 2) + 1
            contents = [doc.add(_filtered(rng, body[:cut], rng.choice([None, "flate"]))), doc.add(_filtered(rng, body[cut:], rng.choice([None, "a85"])), "page%d.contents" % idx)]
        else:
            contents = doc.add([doc.add(_filtered(rng, body, "flate"), "page%d.contents" % idx)])
        p = {"Type": N("Page"), "Parent": parent, "Contents": contents}
        if rng.random() < 0.5 or idx == 0:
            p["Resources"] = shared_res if rng.random() < 0.7 else dict(res)
        if rng.random() < 0.4:
            p["MediaBox"] = [0, 0, 595.5, 842]
        if rng.random() < 0.3:
            p["CropBox"] = [10, 10, 500, 800]
        if rng.random() < 0.3:
            p["Rotate"] = rng.choice([0, 90, 180, 270])
        if rng.random() < 0.2:
            p["TrimBox"] = [0, 0, 100, 100]
        return p

    def make_node(ref, parent, depth, is_root=False):
        kids, count = [], 0
        fan = rng.randint(1, 3) if (full or focus == "pages") else 1
        for _ in range(fan):
            if depth > 0 and rng.random() < 0.5:
                k = doc.reserve("pages.node%d" % len(doc.objects))
                count += make_node(k, ref, depth - 1)
                kids.append(k)
            else:
                k = doc.reserve("page%d" % len(pages))
                pages.append(k)
                doc.set(k, make_page(ref, len(pages) - 1))
                kids.append(k)
                count += 1
        d = {"Type": N("Pages"), "Kids": kids, "Count": count}
        if parent is not None:
            d["Parent"] = parent
        if is_root:
            d["MediaBox"] = [0, 0, 612, 792]
            d["Resources"] = shared_res
            if rng.random() < 0.5:
                d["CropBox"] = [0, 0, 612, 792]
        doc.set(ref, d)
        return count

    make_node(root, None, rng.randint(0, 3) if (full or focus == "pages") else 0, is_root=True)
    catalog = {"Type": N("Catalog"), "Pages": root}
    if full or focus in ("catalog", "pages"):
        p0 = pages[0]
        # annotation with an appearance stream on the first page
        ap = doc.add(_filtered(rng, b"0 0 1 rg 0 0 10 10 re f\n", None, {"Type": N("XObject"), "Subtype": N("Form"), "BBox": [0, 0, 10, 10], "Resources": {}}), "annot.ap")
        annot = doc.add({"Type": N("Annot"), "Subtype": N("Square"), "Rect": [10, 10, 50, 50], "P": p0, "F": 4, "Contents": b"note",
                         "AP": {"N": ap}, "M": b"D:20200101120000+01'00'", "C": [1, 0, 0], "Border": [0, 0, 1]}, "annot")
        doc.objects[p0.num]["Annots"] = [annot]
    if full or focus == "catalog":
        p0 = pages[0]
        # names
        leaf = doc.add({"Limits": [b"a", b"z"], "Names": [b"a", [p0, N("XYZ"), 0, 792, None], b"b", {"D": [p0, N("FitH"), 100]}, b"c", doc.add([p0, N("Fit")])]}, "nametree.leaf")
        dests = doc.add({"Kids": [leaf]}, "nametree.root")
        efs = doc.add(_filtered(rng, b"hello world", rng.choice([None, "flate"]), {"Type": N("EmbeddedFile"), "Subtype": N("text/plain"),
                                "Params": {"Size": 11, "CreationDate": b"D:20200101000000Z", "ModDate": b"D:20200102", "CheckSum": b"0123456789abcdef"}}), "embedded.stream")
        fs = doc.add({"Type": N("Filespec"), "F": b"f.txt", "UF": b"f.txt", "EF": {"F": efs, "UF": efs}}, "filespec")
        names = {"Dests": dests, "EmbeddedFiles": {"Names": [b"f.txt", fs]}, "JavaScript": {"Names": [b"js", {"S": N("JavaScript"), "JS": b"app.alert(1)"}]}}
        catalog["Names"] = doc.add(names, "names") if rng.random() < 0.6 else names
        catalog["Dests"] = doc.add({"D1": [p0, N("XYZ"), 0, 0, 0], "D2": {"D": [p0, N("Fit")]}}, "dests")
        # page labels
        lleaf = doc.add({"Limits": [0, 5], "Nums": [0, {"S": N("r")}, 2, {"S": N("D"), "St": 1, "P": b"A-"}]}, "numtree.leaf")
        catalog["PageLabels"] = {"Kids": [lleaf]} if rng.random() < 0.6 else {"Nums": [0, {"S": N("D")}]}
        if isinstance(catalog["PageLabels"], dict) and rng.random() < 0.5:
            catalog["PageLabels"] = doc.add(catalog["PageLabels"], "numtree.root")
        # outlines
        ol = doc.reserve("outlines")
        a, b, c = doc.reserve("outline.a"), doc.reserve("outline.b"), doc.reserve("outline.c")
        doc.set(ol, {"Type": N("Outlines"), "First": a, "Last": b, "Count": 3})
        doc.set(a, {"Title": b"One", "Parent": ol, "Next": b, "First": c, "Last": c, "Count": 1, "Dest": [p0, N("Fit")], "C": [1, 0, 0], "F": 1})
        doc.set(b, {"Title": b"\xfe\xff\x00T\x00w\x00o", "Parent": ol, "Prev": a, "A": {"S": N("GoTo"), "D": b"a"}})
        doc.set(c, {"Title": b"Sub", "Parent": a, "A": {"S": N("URI"), "URI": b"http://x"}, "Dest": b"b"})
        catalog["Outlines"] = ol
        # forms
        fld = doc.reserve("field")
        kid = doc.add({"Parent": fld, "T": b"kid", "FT": N("Btn"), "V": N("Off"), "DV": N("Off"), "Rect": [0, 0, 10, 10], "Ff": 1}, "field.kid")
        doc.set(fld, {"FT": N("Tx"), "T": b"name", "TU": b"alt", "V": b"value", "DV": b"", "Kids": [kid], "Ff": 0, "MaxLen": 10, "Rect": [0, 0, 100, 20]})
        catalog["AcroForm"] = {"Fields": [fld], "NeedAppearances": True, "SigFlags": 0, "DA": b"/Helv 0 Tf 0 g", "Q": 0, "DR": shared_res}
        catalog["Metadata"] = doc.add(_filtered(rng, b"<x:xmpmeta/>", None, {"Type": N("Metadata"), "Subtype": N("XML")}), "metadata")
        if rng.random() < 0.5:
            se = doc.reserve("structelem")
            st = doc.add({"Type": N("StructTreeRoot"), "K": [se]}, "structroot")
            doc.set(se, {"S": N("P"), "P": st, "Pg": p0, "ID": b"e1"})
            catalog["StructTreeRoot"] = st
        catalog["Version"] = N("1.7")
    doc.set(cat, catalog)
    info = doc.add({"Title": b"T", "Author": b"A", "Producer": b"oracle", "CreationDate": b"D:20200101120000+01'00'", "ModDate": b"D:2020", "Trapped": N("False")}, "info")
    doc.info = info.num
    return doc


# ---- encryption (standard security handler, RC4, revisions 2 and 3; ISO 32000-1 §7.6.3)

PAD = bytes([0x28, 0xBF, 0x4E, 0x5E, 0x4E, 0x75, 0x8A, 0x41, 0x64, 0x00, 0x4E, 0x56, 0xFF, 0xFA, 0x01, 0x08,
             0x2E, 0x2E, 0x00, 0xB6, 0xD0, 0x68, 0x3E, 0x80, 0x2F, 0x0C, 0xA9, 0xFE, 0x64, 0x53, 0x69, 0x7A])


def rc4(key, data):
    s = list(range(256))
    j = 0
    for i in range(256):
        j = (j + s[i] + key[i % len(key)]) & 255
        s[i], s[j] = s[j], s[i]
    out = bytearray()
    i = j = 0
    for b in data:
        i = (i + 1) & 255
        j = (j + s[i]) & 255
        s[i], s[j] = s[j], s[i]
        out.append(b ^ s[(s[i] + s[j]) & 255])
    return bytes(out)


def encrypt_doc(doc, rev=3, bits=128, perms=-3904):
    """returns (objects with strings/streams encrypted, encrypt dictionary)"""
    n = 5 if rev == 2 else bits // 8
    pad = lambda pw: (pw + PAD)[:32]
    h = hashlib.md5(pad(b"owner")).digest()
    if rev >= 3:
        for _ in range(50):
            h = hashlib.md5(h[:n]).digest()
    okey = h[:n]
    o = rc4(okey, pad(b""))
    if rev >= 3:
        for i in range(1, 20):
            o = rc4(bytes(k ^ i for k in okey), o)
    h = hashlib.md5(pad(b"") + o + struct.pack("<i", perms) + doc.ident[0]).digest()
    if rev >= 3:
        for _ in range(50):
            h = hashlib.md5(h[:n]).digest()
    key = h[:n]
    if rev == 2:
        u = rc4(key, PAD)
    else:
        x = rc4(key, hashlib.md5(PAD + doc.ident[0]).digest())
        for i in range(1, 20):
            x = rc4(bytes(k ^ i for k in key), x)
        u = x + bytes(16)
    enc = {"Filter": N("Standard"), "V": 1 if rev == 2 else 2, "R": rev, "O": o, "U": u, "P": perms}
    if rev >= 3:
        enc["Length"] = bits

    def okey_for(num, gen):
        return hashlib.md5(key + struct.pack("<I", num)[:3] + struct.pack("<I", gen)[:2]).digest()[:min(n + 5, 16)]

    def walk(v, k):
        if isinstance(v, (bytes, bytearray)):
            return rc4(k, bytes(v))
        if isinstance(v, list):
            return [walk(x, k) for x in v]
        if isinstance(v, dict):
            return {a: walk(b, k) for a, b in v.items()}
        if isinstance(v, Stream):
            return Stream(walk(v.d, k), rc4(k, v.data), v.raw_len)
        return v
    objs = {num: walk(v, okey_for(num, 0)) for num, v in doc.objects.items()}
    return objs, enc


STYLES = ["table", "xstream", "objstm", "objstm-flate", "incr", "incr-xstream", "rc4-40", "rc4-128"]


def _compressible(v):
    return not isinstance(v, Stream) and v is not None


def render(doc, style="table", rng=None, objects=None, trailer_extra=None, size=None):
    """serialise `doc` (or the given replacement `objects`) in one of STYLES"""
    objs = dict(objects if objects is not None else doc.objects)
    objs = {n: v for n, v in objs.items()}
    tr = {"Root": Ref(doc.root), "ID": list(doc.ident)}
    if doc.info:
        tr["Info"] = Ref(doc.info)
    if trailer_extra:
        tr.update(trailer_extra)
    top = max(objs) if objs else 0
    if style in ("rc4-40", "rc4-128"):
        d2 = doc.clone()
        d2.objects = copy.deepcopy(objs)
        eobjs, enc = encrypt_doc(d2, 2 if style == "rc4-40" else 3, 128)
        encnum = top + 1
        eobjs[encnum] = enc
        tr["Encrypt"] = Ref(encnum)
        rev = W.Revision({n: W.Obj(v) for n, v in eobjs.items()}, fmt="table", trailer=tr)
        return W.write_file([rev])[0]
    if style == "table":
        return W.write_file([W.Revision({n: W.Obj(v) for n, v in objs.items()}, fmt="table", trailer=tr, size=size,
                                        eol=(rng.choice([b" \n", b"\r\n", b" \r"]) if rng else b" \n"))])[0]
    if style == "xstream":
        return W.write_file([W.Revision({n: W.Obj(v) for n, v in objs.items()}, fmt="stream", trailer=tr,
                                        xref_filter=(rng.choice([None, "flate"]) if rng else None))])[0]
    if style in ("objstm", "objstm-flate"):
        ents = {}
        for n, v in objs.items():
            if _compressible(v) and n != doc.root and (rng is None or rng.random() < 0.85):
                ents[n] = W.Comp(v, stm=(n % 2 if rng and rng.random() < 0.5 else 0))
            else:
                ents[n] = W.Obj(v)
        return W.write_file([W.Revision(ents, fmt="stream", trailer=tr, objstm_filter=("flate" if style == "objstm-flate" else None),
                                        xref_filter="flate" if style == "objstm-flate" else None)])[0]
    if style in ("incr", "incr-xstream"):
        # first revision: everything, with a stale catalog/info; second revision: the real ones + a freed number
        first = {n: W.Obj(v) for n, v in objs.items()}
        stale = dict(objs[doc.root]) if isinstance(objs.get(doc.root), dict) else {"Type": N("Catalog")}
        stale.pop("Names", None)
        stale.pop("Outlines", None)
        first[doc.root] = W.Obj(stale)
        first[top + 1] = W.Obj({"Gone": True})
        second = {doc.root: W.Obj(objs[doc.root]), top + 1: W.Free(gen=1)}
        if doc.info and doc.info in objs:
            second[doc.info] = W.Obj(objs[doc.info])
        fmt = "table" if style == "incr" else "stream"
        r1 = W.Revision(first, fmt=fmt, trailer=tr)
        r2 = W.Revision(second, fmt=fmt, trailer=tr)
        return W.write_file([r1, r2])[0]
    raise ValueError(style)


def valid_files(rng, n_docs=3):
    """[(name, bytes)] — randomised typed documents, each written in every style"""
    out = []
    for i in range(n_docs):
        doc = typed_doc(rng, None)
        for st in STYLES:
            out.append(("doc%d-%s" % (i, st), render(doc, st, rng)))
    for fo in ("pages", "fonts", "images", "color", "catalog"):
        doc = typed_doc(rng, fo)
        st = rng.choice(STYLES[:6])
        out.append(("frag-%s-%s" % (fo, st), render(doc, st, rng)))
    return out


# =================================================================================================
# mutation (byte / token / structure level)

_TOKEN = re.compile(rb"[+-]?\d+\.?\d*|/[^\s/<>\[\](){}%]*|<<|>>|[\[\]]|\((?:[^()\\]|\\.)*\)|<[0-9A-Fa-f\s]*>|[A-Za-z*'\"]+")
_NUM = re.compile(rb"(?<![\w.#/])[+-]?\d+(?![\w.])")
_REFRE = re.compile(rb"(?<![\w.])(\d+)\s+(\d+)\s+R(?![\w])")
_OBJRE = re.compile(rb"(?<![\w.])(\d+)\s+(\d+)\s+obj\b")
_NAMES = [b"/Type", b"/Kids", b"/Parent", b"/Length", b"/Filter", b"/FlateDecode", b"/Count", b"/Pages", b"/Page", b"/Font", b"/W",
          b"/Widths", b"/DescendantFonts", b"/Root", b"/Prev", b"/Size", b"/Index", b"/First", b"/N", b"/Names", b"/Nums", b"/Next",
          b"/DecodeParms", b"/Predictor", b"/Columns", b"/Colors", b"/ASCIIHexDecode", b"/ASCII85Decode", b"/RunLengthDecode", b"/LZWDecode",
          b"/CCITTFaxDecode", b"/DCTDecode", b"/JBIG2Decode", b"/Crypt", b"/Encrypt", b"/XRef", b"/ObjStm", b"/Extends", b"/Indexed",
          b"/Separation", b"/DeviceN", b"/ICCBased", b"/FunctionType", b"/Domain", b"/Range", b"/Resources", b"/Contents", b"/Subtype", b"/Image"]


def _object_spans(data):
    """[(num, start, end)] of `N G obj … endobj` bodies found textually"""
    out = []
    for m in _OBJRE.finditer(data):
        e = data.find(b"endobj", m.end())
        if e < 0:
            e = len(data)
        else:
            e += 6
        out.append((int(m.group(1)), m.start(), e))
    return out


def mutate(rng, data, others=()):
    """one mutated copy of `data`; `others`: byte strings to splice chunks from"""
    b = bytearray(data)
    if not b:
        return bytes(rng.randrange(256) for _ in range(rng.randint(1, 8)))
    n_ops = rng.choice([1, 1, 1, 2, 3])
    for _ in range(n_ops):
        level = rng.random()
        if level < 0.30:                                   # ---- bytes
            k = rng.randrange(6)
            i = rng.randrange(len(b))
            if k == 0:
                b[i] ^= 1 << rng.randrange(8)
            elif k == 1:
                b[i] = rng.choice([0, 0x0a, 0x0d, 0x20, 0x25, 0x28, 0x29, 0x2f, 0x3c, 0x3e, 0x5b, 0x5d, 0xff, rng.randrange(256)])
            elif k == 2:
                b[i:i] = bytes(rng.randrange(256) for _ in range(rng.randint(1, 4)))
            elif k == 3:
                del b[i:i + rng.randint(1, 16)]
            elif k == 4:
                del b[i:]                                   # truncation
            else:
                j = rng.randrange(len(b))
                i, j = min(i, j), max(i, j)
                j = min(j, i + 256)
                b[i:i] = b[i:j]                             # duplicate a chunk
        elif level < 0.65:                                 # ---- tokens
            k = rng.randrange(5)
            if k == 0:
                ms = list(_NUM.finditer(bytes(b)))
                if ms:
                    m = rng.choice(ms)
                    b[m.start():m.end()] = b"%d" % rng.choice(TOKEN_NUMBERS)
            else:
                ms = list(_TOKEN.finditer(bytes(b[:200000])))
                if len(ms) >= 2:
                    m = rng.choice(ms)
                    if k == 1:
                        m2 = rng.choice(ms)
                        (m, m2) = (m, m2) if m.start() <= m2.start() else (m2, m)
                        if m.end() <= m2.start():
                            t1, t2 = bytes(b[m.start():m.end()]), bytes(b[m2.start():m2.end()])
                            b[m2.start():m2.end()] = t1
                            b[m.start():m.end()] = t2
                    elif k == 2:
                        b[m.end():m.end()] = b" " + bytes(b[m.start():m.end()])
                    elif k == 3:
                        del b[m.start():m.end()]
                    else:
                        names = [x for x in ms if bytes(b[x.start():x.start() + 1]) == b"/"]
                        if names:
                            m = rng.choice(names)
                            b[m.start():m.end()] = rng.choice(_NAMES)
        else:                                              # ---- structure
            k = rng.randrange(8)
            cur = bytes(b)
            spans = _object_spans(cur)
            nums = sorted({s[0] for s in spans}) or [1]
            if k == 0:
                ms = list(_REFRE.finditer(cur))
                if ms:
                    m = rng.choice(ms)
                    b[m.start():m.end()] = b"%d 0 R" % rng.choice(nums + [0, max(nums) + 1])
            elif k == 1 and spans:
                _, s, e = rng.choice(spans)
                del b[s:e]
            elif k == 2 and spans:
                num, s, e = rng.choice(spans)
                body = cur[s:e]
                hm = _OBJRE.match(body)
                b[e:e] = b"\n%d 0 obj" % rng.choice(nums + [max(nums) + 1]) + body[hm.end():]
            elif k == 3:
                ms = list(re.finditer(rb"/Length\s+(\d+)", cur))
                if ms:
                    m = rng.choice(ms)
                    b[m.start(1):m.end(1)] = b"%d" % rng.choice([0, 1, int(m.group(1)) + 1, max(0, int(m.group(1)) - 1), 2 ** 31 - 1, 2 ** 32, len(cur), len(cur) * 2])
            elif k == 4:
                ms = list(re.finditer(rb"startxref\s+(\d+)", cur))
                if ms:
                    m = rng.choice(ms)
                    b[m.start(1):m.end(1)] = b"%d" % rng.choice([0, 1, int(m.group(1)) + rng.randint(-20, 20), len(cur), len(cur) + 1, 2 ** 31 - 1, 2 ** 64 - 1] + [s for _, s, _ in spans[:8]])
            elif k == 5 and others:
                o = rng.choice(others)
                if o:
                    i = rng.randrange(len(o))
                    chunk = o[i:i + rng.randint(1, 2048)]
                    j = rng.randrange(len(b) + 1)
                    if rng.random() < 0.5:
                        b[j:j] = chunk
                    else:
                        b[j:j + len(chunk)] = chunk
            elif k == 6:
                # corrupt one row of a classic xref table
                ms = list(re.finditer(rb"\d{10} \d{5} [nf]", cur))
                if ms:
                    m = rng.choice(ms)
                    b[m.start():m.start() + 10] = b"%010d" % rng.choice([0, len(cur), len(cur) - 1, 9999999999, rng.randrange(max(1, len(cur)))])
            else:
                ms = list(re.finditer(rb"/(?:Size|Prev|N|First|Count|Index|W)\s*\[?\s*(\d+)", cur))
                if ms:
                    m = rng.choice(ms)
                    b[m.start(1):m.end(1)] = b"%d" % rng.choice(TOKEN_NUMBERS)
        if not b:
            break
    return bytes(b)


def fix_xref(data):
    """rebuild a classic cross-reference table (and startxref) for a file whose object offsets moved after a text edit;
    the last `trailer` dictionary is kept.  Files without a classic trailer are returned unchanged."""
    t = data.rfind(b"trailer")
    x = data.rfind(b"xref", 0, t if t >= 0 else len(data))
    if t < 0 or x < 0:
        return data
    te = data.find(b"startxref", t)
    tr = data[t + 7:te if te >= 0 else len(data)].strip()
    tr = re.sub(rb"/Prev\s+\d+", b"", tr)
    body = data[:x]
    offs = {}
    for m in _OBJRE.finditer(body):
        offs[int(m.group(1))] = (m.start(), int(m.group(2)))
    hdr = body.find(b"%PDF-")
    base = hdr if hdr >= 0 else 0
    top = max(offs) if offs else 0
    out = bytearray(body)
    xoff = len(out) - base
    out += b"xref\n0 %d\n" % (top + 1)
    for n in range(top + 1):
        if n in offs:
            out += b"%010d %05d n \n" % (offs[n][0] - base, offs[n][1])
        else:
            out += b"%010d %05d f \n" % (0, 65535 if n == 0 else 0)
    out += b"trailer\n" + tr + b"\nstartxref\n%d\n%%%%EOF\n" % xoff
    return bytes(out)


# =================================================================================================
# malformed streams

def malformed(rng):
    base = render(typed_doc(rng, "pages"), "table", rng)
    yield "malformed:empty", b""
    yield "malformed:header-only", b"%PDF-1.7\n"
    yield "malformed:header-eof", b"%PDF-1.7\n%%EOF\n"
    yield "malformed:startxref-only", b"%PDF-1.7\nstartxref\n0\n%%EOF\n"
    yield "malformed:startxref-self", b"%PDF-1.7\nstartxref\n9\n%%EOF\n"
    yield "malformed:no-header", base[base.find(b"\n") + 1:]
    for k in range(1, 16):
        yield "malformed:trunc-%d/16" % k, base[:len(base) * k // 16]
        yield "malformed:tail-%d/16" % k, base[len(base) * k // 16:]
    xs = render(typed_doc(rng, "fonts"), "objstm-flate", rng)
    for k in range(1, 16):
        yield "malformed:xs-trunc-%d/16" % k, xs[:len(xs) * k // 16]
    giant = [b"9" * 20, b"9" * 400, b"-" + b"9" * 40, b"1" + b"0" * 19, b"0." + b"0" * 400 + b"1", b"1e400", b"18446744073709551616", b"4294967296", b"-2147483649"]
    for g in giant:
        ms = list(_NUM.finditer(base))
        m = ms[rng.randrange(len(ms))]
        yield "malformed:giant-number", base[:m.start()] + g + base[m.end():]
        yield "malformed:giant-objnum", b"%PDF-1.7\n" + g + b" 0 obj\n<< /Type /Catalog >>\nendobj\ntrailer\n<< /Root " + g + b" 0 R /Size " + g + b" >>\nstartxref\n9\n%%EOF\n"
        yield "malformed:giant-xref", b"%PDF-1.7\n1 0 obj\n<<>>\nendobj\nxref\n0 " + g + b"\n0000000000 65535 f \ntrailer\n<< /Root 1 0 R /Size " + g + b" >>\nstartxref\n27\n%%EOF\n"
        yield "malformed:giant-startxref", base[:base.rfind(b"startxref")] + b"startxref\n" + g + b"\n%%EOF\n"
    for opener, closer in ((b"[", b"]"), (b"<<", b">>"), (b"(", b")"), (b"<", b">"), (b"{", b"}")):
        for depth in (1, 19, 20, 21, 100, 5000):
            yield "malformed:unbalanced-open", b"%PDF-1.7\n1 0 obj\n" + opener * depth + b"\nendobj\ntrailer\n<< /Root 1 0 R /Size 2 >>\nstartxref\n0\n%%EOF\n"
            yield "malformed:unbalanced-close", b"%PDF-1.7\n1 0 obj\n" + closer * depth + b"\nendobj\ntrailer\n<< /Root 1 0 R /Size 2 >>\nstartxref\n0\n%%EOF\n"
            yield "malformed:unbalanced-trailer", b"%PDF-1.7\nxref\n0 1\n0000000000 65535 f \ntrailer\n" + opener * depth + b"/Root 1 0 R\nstartxref\n9\n%%EOF\n"
    for junk in (b"obj", b"endobj", b"stream\n", b"endstream", b"xref", b"trailer", b"startxref", b"R", b"%", b"\x00" * 64, b"\xff" * 64, b"\r" * 64):
        i = rng.randrange(len(base))
        yield "malformed:keyword-insert", base[:i] + b" " + junk + b" " + base[i:]
    yield "malformed:stream-no-end", b"%PDF-1.7\n1 0 obj\n<< /Length 100 >>\nstream\nabc"
    yield "malformed:stream-eof-after-keyword", b"%PDF-1.7\n1 0 obj\n<< /Length 0 >>\nstream"
    yield "malformed:only-ws", b" \n\r\t\x0c\x00" * 50
    yield "malformed:only-percent", b"%" * 2000
    yield "malformed:binary", bytes(rng.randrange(256) for _ in range(4096))


# =================================================================================================
# planting: cycles, depth, boundary numbers — field by field from the extracted schema

def raw_xstream(objs, root, comp=(), stm_patch=None, xref_patch=None, stm_in_itself=False, info=None, row_patch=None):
    """single-revision file with an (uncompressed) xref stream and ONE object stream, written by hand so that the
    dictionaries of both and the rows of the table can be planted.  Returns bytes."""
    out = bytearray(b"%PDF-1.7\n%\xe2\xe3\xcf\xd3\n")
    offs = {}
    comp = [n for n in sorted(comp) if n in objs and not isinstance(objs[n], Stream) and objs[n] is not None]
    S = max(objs) + 1
    X = S + 1
    for n in sorted(objs):
        if n in comp:
            continue
        offs[n] = len(out)
        out += b"%d 0 obj\n" % n + W.ser(objs[n]) + b"\nendobj\n"
    if comp:
        body, pairs = bytearray(), []
        for n in comp:
            pairs.append((n, len(body)))
            body += W.ser(objs[n]) + b" "
        head = b" ".join(b"%d %d" % p for p in pairs) + b"\n"
        sd = {"Type": N("ObjStm"), "N": len(comp), "First": len(head)}
        if stm_patch:
            sd.update(stm_patch(S))
        offs[S] = len(out)
        out += b"%d 0 obj\n" % S + W.ser(Stream(sd, bytes(head + body))) + b"\nendobj\n"
    xoff = len(out)
    rows = bytearray()
    for n in range(X + 1):
        if n == 0:
            r = (0, 0, 65535)
        elif n in comp:
            r = (2, S, comp.index(n))
        elif n == X:
            r = (1, xoff, 0)
        elif n in offs:
            r = (1, offs[n], 0)
        else:
            r = (0, 0, 0)
        if stm_in_itself and n == S:
            r = (2, S, 0)
        if row_patch and n in row_patch:
            r = row_patch[n]
        rows += bytes([r[0] & 255]) + (r[1] & 0xffffffff).to_bytes(4, "big") + (r[2] & 0xffff).to_bytes(2, "big")
    xd = {"Type": N("XRef"), "Size": X + 1, "W": [1, 4, 2], "Index": [0, X + 1], "Root": Ref(root)}
    if info:
        xd["Info"] = Ref(info)
    if xref_patch:
        xd.update(xref_patch(X))
    out += b"%d 0 obj\n" % X + W.ser(Stream(xd, bytes(rows))) + b"\nendobj\nstartxref\n%d\n%%%%EOF\n" % xoff
    return bytes(out)


def _get_at(objects, num, path):
    v = objects[num]
    for p in path:
        v = v.d if p == "@d" else v[p]
    return v


def _set_at(objects, num, path, newv):
    """returns a deep copy of `objects` with the value at (num, path) replaced (or the key deleted when newv is _DELETE)"""
    o = copy.deepcopy(objects)
    if not path:
        o[num] = newv
        return o
    v = o[num]
    for p in path[:-1]:
        v = v.d if p == "@d" else v[p]
    last = path[-1]
    if last == "@d":
        v.d = newv
    else:
        v[last] = newv
    return o


def occurrences(objects, repo=None):
    """every dictionary entry of the file: (num, path, struct, key, value, (struct', rust_type, kind) | None)"""
    out = []

    def rec(num, v, path):
        if isinstance(v, Stream):
            rec(num, v.d, path + ("@d",))
        elif isinstance(v, dict):
            st = guess_struct(v, repo)
            if isinstance(_container(objects, num, path), Stream):
                pass
            for k, x in v.items():
                fi = field_info(st, k, repo) if st else None
                if fi is None:
                    lst = schema_index(repo).get(k)
                    fi = lst[0] if lst else None
                out.append((num, path + (k,), st or "?", k, x, fi))
                rec(num, x, path + (k,))
        elif isinstance(v, list):
            for i, x in enumerate(v):
                rec(num, x, path + (i,))
    for num, v in sorted(objects.items()):
        rec(num, v, ())
    return out


def _container(objects, num, path):
    try:
        return _get_at(objects, num, path[:-1]) if path else None
    except Exception:
        return None


def _refs_in(v, acc):
    if isinstance(v, Ref):
        acc.add(v.num)
    elif isinstance(v, Stream):
        _refs_in(v.d, acc)
    elif isinstance(v, dict):
        for x in v.values():
            _refs_in(x, acc)
    elif isinstance(v, list):
        for x in v:
            _refs_in(x, acc)


def _ancestors(objects, num):
    """objects from which `num` is reachable (reverse closure)"""
    rev = {}
    for n, v in objects.items():
        acc = set()
        _refs_in(v, acc)
        for t in acc:
            rev.setdefault(t, set()).add(n)
    seen, todo = set(), [num]
    while todo:
        x = todo.pop()
        for p in rev.get(x, ()):
            if p not in seen:
                seen.add(p)
                todo.append(p)
    return seen


def _shape(v):
    if isinstance(v, Stream):
        t = v.d.get("Subtype") or v.d.get("Type")
        return "stream:%r" % (t,)
    if isinstance(v, dict):
        return "dict:%r/%r" % (v.get("Type"), v.get("Subtype"))
    if isinstance(v, list):
        return "array"
    return type(v).__name__


def _is_num(x):
    return isinstance(x, (int, float)) and not isinstance(x, bool)


def plant_refs(rng, doc, tier, focus, styles=("table",)):
    objs = doc.objects
    top = max(objs)
    allnums = sorted(objs)
    k = 0
    for num, path, st, key, val, fi in occurrences(objs):
        if not fi or fi[2] != "ref":
            continue
        # positions to re-point: the value itself, or each element of an array of references / objects
        slots = []
        if isinstance(val, list) and val and all(isinstance(x, (Ref, dict)) for x in val) and key not in ("ColorSpace",):
            slots = [path + (i,) for i in range(len(val))][: (2 if tier == "quick" else 8)]
            slots.append(path)          # and the whole array replaced by a reference
        elif isinstance(val, dict) and "HashMap" in fi[1]:
            slots = [path + (kk,) for kk in list(val)[: (2 if tier == "quick" else 8)]] + [path]     # every value of a name -> object map
        else:
            slots = [path]
        anc = _ancestors(objs, num)
        for slot in slots:
            if tier == "quick":
                reps, seen_shapes = [num] + sorted(anc)[:3], set()
                for n in allnums:
                    sh = _shape(objs[n])
                    if sh not in seen_shapes:
                        seen_shapes.add(sh)
                        reps.append(n)
                targets = list(dict.fromkeys(reps + [0, top + 7]))
            else:
                targets = allnums + [0, top + 7]
            for t in targets:
                cur = _get_at(objs, num, slot)
                if isinstance(cur, Ref) and cur.num == t:
                    continue
                if t == num:
                    tag = "cycle:%s.%s:self" % (fi[0], key)
                elif t in anc:
                    tag = "cycle:%s.%s:ancestor" % (fi[0], key)
                else:
                    tag = "ref:%s.%s" % (fi[0], key)
                o2 = _set_at(objs, num, slot, Ref(t))
                k += 1
                yield tag, render(doc, styles[k % len(styles)], None, objects=o2)


def plant_nums(rng, doc, tier, focus, styles=("table",)):
    objs = doc.objects
    vals = BOUNDARY + (BOUNDARY_MORE if tier != "quick" else [])
    k = 0
    for num, path, st, key, val, fi in occurrences(objs):
        if not fi or fi[2] != "num":
            continue
        cands = []          # (suffix, path, new value)
        if _is_num(val) or isinstance(val, Ref) and _is_num(objs.get(val.num)):
            p2, n2 = (path, num) if _is_num(val) else ((), val.num)
            for v in vals:
                cands.append(("=%d" % v, n2, p2, v))
            if tier != "quick":
                cands.append(("=-0.5", n2, p2, -0.5))
                cands.append(("=1e38", n2, p2, 1e38))
        elif isinstance(val, list):
            flat = [(i, x) for i, x in enumerate(val) if _is_num(x)]
            pick = flat if tier != "quick" else (flat[:1] + flat[-1:] if len(flat) > 1 else flat)
            for i, _ in pick:
                for v in (vals if tier != "quick" else [-1, 0, 2 ** 31 - 1, 2 ** 64 - 1]):
                    cands.append(("[%d]=%d" % (i, v), num, path + (i,), v))
            cands.append(("=[]", num, path, []))
            cands.append(("=[0]", num, path, [0]))
            cands.append(("=[-1 -1]", num, path, [-1, -1]))
            # nested arrays (/W [c [w …]], /D [[…] phase])
            for i, x in enumerate(val):
                if isinstance(x, list):
                    cands.append(("[%d]=[]" % i, num, path + (i,), []))
                    for j, y in list(enumerate(x))[:2]:
                        if _is_num(y):
                            for v in [-1, 2 ** 32 - 1, 2 ** 64 - 1]:
                                cands.append(("[%d][%d]=%d" % (i, j, v), num, path + (i, j), v))
        for suffix, n2, p2, v in cands:
            o2 = _set_at(objs, n2, p2, v)
            k += 1
            yield "num:%s.%s%s" % (fi[0], key, suffix), render(doc, styles[k % len(styles)], None, objects=o2)


def _mini(objs_extra, page_extra=None, res=None, cat_extra=None, pages_extra=None):
    """catalog 1, pages 2, page 3 (+ extras from number 4); returns Doc"""
    d = Doc()
    d.objects = W.minimal_catalog()
    d.root = 1
    d.next = 4
    if res is not None:
        d.objects[3]["Resources"] = res
    d.objects[3].update(page_extra or {})
    d.objects[1].update(cat_extra or {})
    d.objects[2].update(pages_extra or {})
    for n, v in objs_extra.items():
        d.objects[n] = v
        d.next = max(d.next, n + 1)
    d.info = None
    return d


def _r(doc, style="table", **kw):
    return render(doc, style, None, **kw)


def cycles(rng):
    """hand-made reference cycles through every link that is followed; (tag, bytes)"""
    S = lambda d, data=b"": Stream(d, data)
    # ---- page tree
    yield "cycle:pages-kids-self", _r(_mini({}, pages_extra={"Kids": [Ref(2)]}))
    yield "cycle:pages-kids-self+page", _r(_mini({}, pages_extra={"Kids": [Ref(2), Ref(3)], "Count": 2}))
    yield "cycle:pages-kids-ancestor", _r(_mini({4: {"Type": N("Pages"), "Parent": Ref(2), "Kids": [Ref(2)], "Count": 1}}, pages_extra={"Kids": [Ref(4), Ref(3)], "Count": 2}))
    yield "cycle:pages-parent-child", _r(_mini({}, pages_extra={"Parent": Ref(3)}))
    yield "cycle:pages-parent-self", _r(_mini({}, pages_extra={"Parent": Ref(2)}))
    yield "cycle:page-parent-self", _r(_mini({}, page_extra={"Parent": Ref(3)}))
    yield "cycle:pages-two-roots", _r(_mini({4: {"Type": N("Pages"), "Parent": Ref(2), "Kids": [Ref(3)], "Count": 1}}, pages_extra={"Parent": Ref(4), "Kids": [Ref(4)]}))
    yield "cycle:catalog-pages-catalog", _r(_mini({}, cat_extra={"Pages": Ref(1)}))
    yield "cycle:pages-kid-is-catalog", _r(_mini({}, pages_extra={"Kids": [Ref(1)]}))
    # ---- name / number trees
    for how in ("self", "ancestor", "two"):
        leaf = {"Names": [b"a", [Ref(3), N("Fit")]]}
        if how == "self":
            o = {4: {"Kids": [Ref(4)]}}
        elif how == "ancestor":
            o = {4: {"Kids": [Ref(5)]}, 5: {"Limits": [b"a", b"z"], "Kids": [Ref(6), Ref(4)]}, 6: leaf}
        else:
            o = {4: {"Kids": [Ref(5)]}, 5: {"Kids": [Ref(4)]}}
        for where in ("Dests", "EmbeddedFiles", "JavaScript", "AP"):
            yield "cycle:nametree", _r(_mini(dict(o), cat_extra={"Names": {where: Ref(4)}}))
        yield "cycle:nametree", _r(_mini({**o, 7: {"Dests": Ref(4)}}, cat_extra={"Names": Ref(7)}))
        if how == "self":
            on = {4: {"Kids": [Ref(4)]}}
        elif how == "ancestor":
            on = {4: {"Kids": [Ref(5)]}, 5: {"Limits": [0, 9], "Kids": [Ref(6), Ref(4)]}, 6: {"Nums": [0, {"S": N("D")}]}}
        else:
            on = {4: {"Kids": [Ref(5)]}, 5: {"Kids": [Ref(4)]}}
        yield "cycle:numtree", _r(_mini(dict(on), cat_extra={"PageLabels": Ref(4)}))
        yield "cycle:numtree", _r(_mini({k: v for k, v in on.items() if k != 4}, cat_extra={"PageLabels": on[4] if how != "self" else {"Kids": [Ref(4)]}}))
    # ---- outlines
    yield "cycle:outline-next-self", _r(_mini({4: {"Type": N("Outlines"), "First": Ref(5), "Last": Ref(5)}, 5: {"Title": b"a", "Parent": Ref(4), "Next": Ref(5)}}, cat_extra={"Outlines": Ref(4)}))
    yield "cycle:outline-first-parent", _r(_mini({4: {"Type": N("Outlines"), "First": Ref(5), "Last": Ref(5)}, 5: {"Title": b"a", "Parent": Ref(4), "First": Ref(4), "Last": Ref(4)}}, cat_extra={"Outlines": Ref(4)}))
    yield "cycle:outline-first-self", _r(_mini({4: {"Type": N("Outlines"), "First": Ref(4), "Last": Ref(4)}}, cat_extra={"Outlines": Ref(4)}))
    yield "cycle:outline-prev-next", _r(_mini({4: {"Type": N("Outlines"), "First": Ref(5), "Last": Ref(6)}, 5: {"Title": b"a", "Next": Ref(6), "Prev": Ref(6)}, 6: {"Title": b"b", "Next": Ref(5), "Prev": Ref(5)}}, cat_extra={"Outlines": Ref(4)}))
    yield "cycle:outline-dest-self", _r(_mini({4: {"Type": N("Outlines"), "First": Ref(5), "Last": Ref(5)}, 5: {"Title": b"a", "Dest": Ref(5), "A": Ref(5)}}, cat_extra={"Outlines": Ref(4)}))
    # ---- fonts
    fd = {"Type": N("FontDescriptor"), "FontName": N("X"), "Flags": 4, "FontBBox": [0, 0, 1, 1], "ItalicAngle": 0}
    t0 = {"Type": N("Font"), "Subtype": N("Type0"), "BaseFont": N("X"), "Encoding": N("Identity-H"), "DescendantFonts": [Ref(4)]}
    yield "cycle:descendant-self", _r(_mini({4: t0}, res={"Font": {"F": Ref(4)}}))
    yield "cycle:descendant-self-direct-array", _r(_mini({4: dict(t0, DescendantFonts=Ref(5)), 5: [Ref(4)]}, res={"Font": {"F": Ref(4)}}))
    cid = {"Type": N("Font"), "Subtype": N("CIDFontType2"), "BaseFont": N("X"), "CIDSystemInfo": {}, "FontDescriptor": fd, "W": []}
    yield "cycle:descendant-two", _r(_mini({4: dict(t0, DescendantFonts=[Ref(5)]), 5: dict(t0, DescendantFonts=[Ref(4)])}, res={"Font": {"F": Ref(4)}}))
    yield "cycle:font-tounicode-self", _r(_mini({4: dict(t0, DescendantFonts=[Ref(5)], ToUnicode=Ref(4)), 5: cid}, res={"Font": {"F": Ref(4)}}))
    yield "cycle:font-descriptor-self", _r(_mini({4: {"Type": N("Font"), "Subtype": N("Type1"), "BaseFont": N("X"), "FontDescriptor": Ref(4)}}, res={"Font": {"F": Ref(4)}}))
    yield "cycle:font-encoding-self", _r(_mini({4: {"Type": N("Font"), "Subtype": N("Type1"), "BaseFont": N("X"), "Encoding": Ref(4)}}, res={"Font": {"F": Ref(4)}}))
    yield "cycle:font-encoding-ref-loop", _r(_mini({4: {"Type": N("Font"), "Subtype": N("Type1"), "BaseFont": N("X"), "Encoding": Ref(5)}, 5: Ref(5)}, res={"Font": {"F": Ref(4)}}))
    yield "cycle:font-cidtogid-self", _r(_mini({4: dict(t0, DescendantFonts=[Ref(5)]), 5: dict(cid, CIDToGIDMap=Ref(5))}, res={"Font": {"F": Ref(4)}}))
    yield "cycle:font-w-ref-self", _r(_mini({4: dict(t0, DescendantFonts=[Ref(5)]), 5: dict(cid, W=[1, Ref(6)]), 6: [Ref(6)]}, res={"Font": {"F": Ref(4)}}))
    yield "cycle:font-is-resources", _r(_mini({4: {"Font": {"F": Ref(4)}}}, res=Ref(4)))
    # ---- colour spaces
    f2 = {"FunctionType": 2, "Domain": [0, 1], "N": 1}
    for tag, arr in (("cs-indexed-self", [N("Indexed"), Ref(4), 1, b"ab"]), ("cs-separation-self", [N("Separation"), N("X"), Ref(4), f2]),
                     ("cs-devicen-self", [N("DeviceN"), [N("X")], Ref(4), f2]), ("cs-icc-self", [N("ICCBased"), Ref(4)]),
                     ("cs-indexed-lookup-self", [N("Indexed"), N("DeviceGray"), 1, Ref(4)]), ("cs-sep-function-self", [N("Separation"), N("X"), N("DeviceGray"), Ref(4)]),
                     ("cs-name-self", [Ref(4)]), ("cs-pattern-self", [N("Pattern"), Ref(4)])):
        yield "cycle:" + tag, _r(_mini({4: arr}, res={"ColorSpace": {"C": Ref(4)}}))
        yield "cycle:" + tag + ":image", _r(_mini({4: arr, 5: S({"Type": N("XObject"), "Subtype": N("Image"), "Width": 1, "Height": 1, "BitsPerComponent": 8, "ColorSpace": Ref(4)}, b"\0")}, res={"XObject": {"I": Ref(5)}}))
    yield "cycle:cs-indexed-two", _r(_mini({4: [N("Indexed"), Ref(5), 1, b"ab"], 5: [N("Indexed"), Ref(4), 1, b"ab"]}, res={"ColorSpace": {"C": Ref(4)}}))
    yield "cycle:cs-icc-alternate", _r(_mini({4: [N("ICCBased"), Ref(5)], 5: S({"N": 3, "Alternate": Ref(4)}, bytes(8))}, res={"ColorSpace": {"C": Ref(4)}}))
    yield "cycle:cs-icc-metadata-self", _r(_mini({4: [N("ICCBased"), Ref(5)], 5: S({"N": 3, "Metadata": Ref(5)}, bytes(8))}, res={"ColorSpace": {"C": Ref(4)}}))
    # ---- streams
    yield "cycle:length-self", _r(_mini({4: Stream({}, b"q Q", raw_len=Ref(4))}, page_extra={"Contents": Ref(4)}))
    yield "cycle:length-other-stream", _r(_mini({4: Stream({}, b"q Q", raw_len=Ref(5)), 5: Stream({}, b"3")}, page_extra={"Contents": Ref(4)}))
    yield "cycle:length-two", _r(_mini({4: Stream({}, b"q Q", raw_len=Ref(5)), 5: Stream({}, b"3", raw_len=Ref(4))}, page_extra={"Contents": Ref(4)}))
    yield "cycle:length-ref-loop", _r(_mini({4: Stream({}, b"q Q", raw_len=Ref(5)), 5: Ref(6), 6: Ref(5)}, page_extra={"Contents": Ref(4)}))
    yield "cycle:filter-self", _r(_mini({4: S({"Filter": Ref(4)}, b"q Q")}, page_extra={"Contents": Ref(4)}))
    yield "cycle:decodeparms-self", _r(_mini({4: S({"Filter": N("FlateDecode"), "DecodeParms": Ref(4)}, zlib.compress(b"q Q"))}, page_extra={"Contents": Ref(4)}))
    yield "cycle:decodeparms-predictor-self", _r(_mini({4: S({"Filter": N("FlateDecode"), "DecodeParms": {"Predictor": Ref(4)}}, zlib.compress(b"q Q"))}, page_extra={"Contents": Ref(4)}))
    yield "cycle:jbig2globals-self", _r(_mini({4: S({"Type": N("XObject"), "Subtype": N("Image"), "Width": 1, "Height": 1, "Filter": N("JBIG2Decode"), "DecodeParms": {"JBIG2Globals": Ref(4)}}, b"x")}, res={"XObject": {"I": Ref(4)}}))
    yield "cycle:contents-self-array", _r(_mini({4: [Ref(4)]}, page_extra={"Contents": Ref(4)}))
    yield "cycle:contents-ref-loop", _r(_mini({4: Ref(5), 5: Ref(4)}, page_extra={"Contents": Ref(4)}))
    yield "cycle:smask-self", _r(_mini({4: S({"Type": N("XObject"), "Subtype": N("Image"), "Width": 1, "Height": 1, "BitsPerComponent": 8, "ColorSpace": N("DeviceGray"), "SMask": Ref(4)}, b"\0")}, res={"XObject": {"I": Ref(4)}}))
    yield "cycle:form-resources-self", _r(_mini({4: S({"Type": N("XObject"), "Subtype": N("Form"), "BBox": [0, 0, 1, 1], "Resources": {"XObject": {"F": Ref(4)}}}, b"/F Do")}, res={"XObject": {"F": Ref(4)}}))
    yield "cycle:form-resources-is-page-resources", _r(_mini({4: S({"Type": N("XObject"), "Subtype": N("Form"), "BBox": [0, 0, 1, 1], "Resources": Ref(5)}, b"/F Do"), 5: {"XObject": {"F": Ref(4)}}}, res=Ref(5)))
    yield "cycle:form-resources-is-form", _r(_mini({4: S({"Type": N("XObject"), "Subtype": N("Form"), "BBox": [0, 0, 1, 1], "Resources": Ref(4)}, b"q Q")}, res={"XObject": {"F": Ref(4)}}))
    yield "cycle:pattern-resources-self", _r(_mini({4: S({"Type": N("Pattern"), "PatternType": 1, "BBox": [0, 0, 1, 1], "XStep": 1, "YStep": 1, "Resources": Ref(5)}, b"q Q"), 5: {"Pattern": {"P": Ref(4)}}}, res=Ref(5)))
    yield "cycle:extgstate-font-self", _r(_mini({4: {"Type": N("ExtGState"), "Font": [Ref(4), 1]}}, res={"ExtGState": {"G": Ref(4)}}))
    yield "cycle:annot-ap-self", _r(_mini({4: {"Type": N("Annot"), "Subtype": N("Square"), "Rect": [0, 0, 1, 1], "P": Ref(3), "AP": {"N": Ref(4)}}}, page_extra={"Annots": [Ref(4)]}))
    yield "cycle:annot-ap-dict-self", _r(_mini({4: {"Type": N("Annot"), "Subtype": N("Square"), "Rect": [0, 0, 1, 1], "AP": Ref(5)}, 5: {"N": Ref(6)}, 6: {"On": Ref(6)}}, page_extra={"Annots": [Ref(4)]}))
    yield "cycle:annots-self", _r(_mini({4: [Ref(4)]}, page_extra={"Annots": Ref(4)}))
    yield "cycle:field-kids-self", _r(_mini({4: {"FT": N("Tx"), "T": b"a", "Kids": [Ref(4)], "Parent": Ref(4)}}, cat_extra={"AcroForm": {"Fields": [Ref(4)]}}))
    yield "cycle:struct-parent-self", _r(_mini({4: {"Type": N("StructTreeRoot"), "K": [Ref(5)]}, 5: {"S": N("P"), "P": Ref(5), "K": [Ref(5)]}}, cat_extra={"StructTreeRoot": Ref(4)}))
    yield "cycle:function-self", _r(_mini({4: [N("Separation"), N("X"), N("DeviceGray"), Ref(5)], 5: {"FunctionType": 3, "Domain": [0, 1], "Functions": [Ref(5)], "Bounds": [], "Encode": [0, 1]}}, res={"ColorSpace": {"C": Ref(4)}}))
    # ---- an object that is a reference to itself, used in every typed position
    for tag, kw in (("mediabox", dict(page_extra={"MediaBox": Ref(4)})), ("resources", dict(res=Ref(4))), ("contents", dict(page_extra={"Contents": Ref(4)})),
                    ("kids", dict(pages_extra={"Kids": Ref(4)})), ("count", dict(pages_extra={"Count": Ref(4)})), ("names", dict(cat_extra={"Names": Ref(4)})),
                    ("dests", dict(cat_extra={"Dests": Ref(4)})), ("pagelabels", dict(cat_extra={"PageLabels": Ref(4)})), ("outlines", dict(cat_extra={"Outlines": Ref(4)})),
                    ("acroform", dict(cat_extra={"AcroForm": Ref(4)})), ("rotate", dict(page_extra={"Rotate": Ref(4)})), ("annots", dict(page_extra={"Annots": Ref(4)})),
                    ("font", dict(res={"Font": {"F": Ref(4)}})), ("fontdict", dict(res={"Font": Ref(4)})), ("xobject", dict(res={"XObject": {"X": Ref(4)}})),
                    ("colorspace", dict(res={"ColorSpace": {"C": Ref(4)}})), ("extgstate", dict(res={"ExtGState": {"G": Ref(4)}})), ("properties", dict(res={"Properties": {"P": Ref(4)}})),
                    ("pages", dict(cat_extra={"Pages": Ref(4)})), ("version", dict(cat_extra={"Version": Ref(4)})), ("metadata", dict(cat_extra={"Metadata": Ref(4)}))):
        yield "cycle:selfref-object:" + tag, _r(_mini({4: Ref(4)}, **kw))
        yield "cycle:selfref-two:" + tag, _r(_mini({4: Ref(5), 5: Ref(4)}, **kw))
    d = _mini({})
    yield "cycle:selfref-root", render(d, "table", None, objects={**d.objects, 1: Ref(1)})
    yield "cycle:selfref-info", render(d, "table", None, trailer_extra={"Info": Ref(4)}, objects={**d.objects, 4: Ref(4)})
    yield "cycle:selfref-encrypt", render(d, "table", None, trailer_extra={"Encrypt": Ref(4)}, objects={**d.objects, 4: Ref(4)})
    yield "cycle:selfref-trailer-size", render(d, "table", None, trailer_extra={"Size": Ref(4)}, objects={**d.objects, 4: Ref(4)})
    # ---- object streams and cross-reference sections
    base = _mini({4: {"A": 1}, 5: [1, 2]})
    yield "cycle:objstm-self", raw_xstream(base.objects, 1, comp=[4, 5], stm_in_itself=True)
    yield "cycle:objstm-extends-self", raw_xstream(base.objects, 1, comp=[4, 5], stm_patch=lambda s: {"Extends": Ref(s)})
    yield "cycle:objstm-length-in-itself", raw_xstream(base.objects, 1, comp=[4, 5], stm_patch=lambda s: {"Length": Ref(4)})
    yield "cycle:objstm-n-in-itself", raw_xstream({**base.objects, 4: 2}, 1, comp=[4, 5], stm_patch=lambda s: {"N": Ref(4)})
    yield "cycle:objstm-container-is-member", raw_xstream(base.objects, 1, comp=[4, 5], row_patch={4: (2, 4, 0)})
    yield "cycle:objstm-container-not-a-stream", raw_xstream(base.objects, 1, comp=[4, 5], row_patch={4: (2, 3, 0)})
    yield "cycle:objstm-root-compressed-loop", raw_xstream(base.objects, 1, comp=[4, 5], row_patch={1: (2, 1, 0)})
    yield "cycle:xref-length-ref-self", raw_xstream(base.objects, 1, comp=[4, 5], xref_patch=lambda x: {"Length": Ref(x)})
    yield "cycle:xref-w-ref", raw_xstream(base.objects, 1, comp=[4, 5], xref_patch=lambda x: {"W": Ref(5)})
    for fmt in ("table", "stream"):
        m = _mini({})
        ents = {n: W.Obj(v) for n, v in m.objects.items()}
        guess = 0
        for _ in range(4):
            data, info = W.write_file([W.Revision(ents, fmt=fmt, trailer={"Root": Ref(1), "Prev": guess})])
            if info["startxrefs"][0] == guess:
                break
            guess = info["startxrefs"][0]
        yield "cycle:prev-self:" + fmt, data
        g1 = 0
        for _ in range(5):
            data, info = W.write_file([W.Revision(ents, fmt=fmt, trailer={"Root": Ref(1), "Prev": g1}),
                                       W.Revision({3: W.Obj(m.objects[3])}, fmt=fmt, trailer={"Root": Ref(1)})])
            if info["startxrefs"][1] == g1:
                break
            g1 = info["startxrefs"][1]
        yield "cycle:prev-two:" + fmt, data
    m = _mini({})
    data, info = W.write_file([W.Revision({n: W.Obj(v) for n, v in m.objects.items()}, fmt="table", trailer={"Root": Ref(1), "XRefStm": 0})])
    yield "cycle:xrefstm-zero", data


def deep(rng):
    """nesting beyond the supported depth; (tag, bytes)"""
    def nest_arr(n, inner=0):
        v = inner
        for _ in range(n):
            v = [v]
        return v

    def nest_dict(n):
        v = {"A": 1}
        for _ in range(n):
            v = {"A": v}
        return v
    for n in (19, 20, 21, 25, 1000):
        if n <= 25:
            yield "deep:array-%d" % n, _r(_mini({4: nest_arr(n)}, page_extra={"MediaBox": Ref(4)}))
            yield "deep:dict-%d" % n, _r(_mini({4: nest_dict(n)}, res=Ref(4)))
            yield "deep:array-direct-%d" % n, _r(_mini({}, page_extra={"LGIDict": nest_arr(n)}))
        else:
            # written textually: python recursion in the serialiser is the limit otherwise
            arr = b"[" * n + b"0" + b"]" * n
            dic = b"<</A " * n + b"1" + b">>" * n
            for tag, body in (("deep:array-%d" % n, arr), ("deep:dict-%d" % n, dic)):
                raw = (b"%PDF-1.7\n1 0 obj\n<</Type/Catalog/Pages 2 0 R>>\nendobj\n2 0 obj\n<</Type/Pages/Kids[3 0 R]/Count 1>>\nendobj\n"
                       b"3 0 obj\n<</Type/Page/Parent 2 0 R/MediaBox[0 0 1 1]/Resources 4 0 R/VP 4 0 R>>\nendobj\n4 0 obj\n" + body + b"\nendobj\n"
                       b"xref\n0 1\n0000000000 65535 f \ntrailer\n<</Root 1 0 R/Size 5>>\nstartxref\n0\n%%EOF\n")
                yield tag, fix_xref(raw)
        yield "deep:content-array-%d" % n, _r(_mini({4: Stream({}, b"[" * n + b"(a)" + b"]" * n + b" TJ\n")}, page_extra={"Contents": Ref(4)}))
        yield "deep:content-dict-%d" % n, _r(_mini({4: Stream({}, b"/T " + b"<</A " * n + b"1" + b">>" * n + b" DP\n")}, page_extra={"Contents": Ref(4)}))
    # page tree depth
    for depth in (15, 16, 17, 20, 200):
        o = {}
        first = 4
        for i in range(depth):
            n = first + i
            o[n] = {"Type": N("Pages"), "Parent": Ref(2 if i == 0 else n - 1), "Kids": [Ref(n + 1 if i + 1 < depth else 3)], "Count": 1}
        d = _mini(o, pages_extra={"Kids": [Ref(first)]}, page_extra={"Parent": Ref(first + depth - 1)})
        yield "deep:pagetree-%d" % depth, _r(d)
    # colour spaces
    for depth in (4, 5, 6, 8, 40):
        cs = N("DeviceGray")
        for _ in range(depth):
            cs = [N("Indexed"), cs, 1, b"ab"]
        yield "deep:indexed-direct-%d" % depth, _r(_mini({}, res={"ColorSpace": {"C": cs}}))
        o = {}
        for i in range(depth):
            o[4 + i] = [N("Indexed"), Ref(5 + i) if i + 1 < depth else N("DeviceGray"), 1, b"ab"]
        yield "deep:indexed-refs-%d" % depth, _r(_mini(o, res={"ColorSpace": {"C": Ref(4)}}))
        alt = N("DeviceGray")
        for _ in range(depth):
            alt = [N("Separation"), N("X"), alt, {"FunctionType": 2, "Domain": [0, 1], "N": 1}]
        yield "deep:separation-%d" % depth, _r(_mini({}, res={"ColorSpace": {"C": alt}}))
    # long acyclic chains through links that recurse
    for depth in (50, 3000):
        o = {}
        for i in range(depth):
            o[4 + i] = {"Kids": [Ref(5 + i)]} if i + 1 < depth else {"Names": [b"a", [Ref(3), N("Fit")]]}
        yield "deep:nametree-%d" % depth, _r(_mini(o, cat_extra={"Names": {"Dests": Ref(4)}}))
        o = {}
        for i in range(depth):
            o[4 + i] = {"Kids": [Ref(5 + i)]} if i + 1 < depth else {"Nums": [0, {"S": N("D")}]}
        yield "deep:numtree-%d" % depth, _r(_mini(o, cat_extra={"PageLabels": Ref(4)}))
        o = {}
        for i in range(depth):
            o[4 + i] = Ref(5 + i) if i + 1 < depth else [0, 0, 1, 1]
        yield "deep:refchain-mediabox-%d" % depth, _r(_mini(o, page_extra={"MediaBox": Ref(4)}))
        o = {}
        for i in range(depth):
            o[4 + i] = Ref(5 + i) if i + 1 < depth else Stream({}, b"q Q")
        yield "deep:refchain-contents-%d" % depth, _r(_mini(o, page_extra={"Contents": Ref(4)}))
        o = {}
        for i in range(depth):
            o[4 + i] = Ref(5 + i) if i + 1 < depth else {}
        yield "deep:refchain-resources-%d" % depth, _r(_mini(o, res=Ref(4)))
        o = {4: {"Type": N("Outlines"), "First": Ref(5), "Last": Ref(4 + depth)}}
        for i in range(depth):
            o[5 + i] = {"Title": b"t", "Parent": Ref(4)}
            if i + 1 < depth:
                o[5 + i]["Next"] = Ref(6 + i)
        yield "deep:outline-chain-%d" % depth, _r(_mini(o, cat_extra={"Outlines": Ref(4)}))
    # forms nested through their resources
    for depth in (3, 5, 12):
        o = {}
        for i in range(depth):
            res = {"XObject": {"F": Ref(5 + i)}} if i + 1 < depth else {}
            o[4 + i] = Stream({"Type": N("XObject"), "Subtype": N("Form"), "BBox": [0, 0, 1, 1], "Resources": res}, b"/F Do")
        yield "deep:forms-%d" % depth, _r(_mini(o, res={"XObject": {"F": Ref(4)}}))
    yield "deep:content-q-100000", _r(_mini({4: Stream({}, b"q " * 100000)}, page_extra={"Contents": Ref(4)}))
    yield "deep:filters-64", _r(_mini({4: Stream({"Filter": [N("ASCIIHexDecode")] * 64}, b"71205e>")}, page_extra={"Contents": Ref(4)}))
    yield "deep:prev-chain-40", W.write_file([W.Revision({n: W.Obj(v) for n, v in _mini({}).objects.items()}, trailer={"Root": Ref(1)})] +
                                             [W.Revision({3: W.Obj(_mini({}).objects[3])}, trailer={"Root": Ref(1)}) for _ in range(40)])[0]


PS_HOSTILE = [b"{ 1 2 3 4 100 1 roll }", b"{ 3 -1 roll }", b"{ 0 0 roll }", b"{ 1 -9223372036854775808 roll }", b"{ 1 2 2 -2147483648 roll }",
              b"{ 4294967296 2147483648 roll }", b"{ 2147483647 index }", b"{ -1 index }", b"{ 0 index }", b"{ 1e38 index }", b"{ pop pop pop }",
              b"{ 1e38 1e38 mul dup mul dup dup }", b"{ -1 -1 roll }", b"{ 1 0 index -1 roll }", b"{ 2 1e30 roll }", b"{ 1 2 3 3 1e30 roll }",
              b"}{", b"{", b"}", b"", b"{ { } }", b"{ foo }", b"{ \xff\xfe }", b"{ 99999999999999999999 }", b"{ nan inf -inf }", b"{ dup dup dup " + b"dup " * 20000 + b"}",
              b"{ 1 2 3 -1 3 roll }", b"{ 3 4294967295 roll }", b"{ 18446744073709551615 18446744073709551615 roll }", b"{ 0 -1 roll }", b"{ exch }", b"{ cvr add }"]

EMPTY_ARRAY_KEYS = ["DescendantFonts", "Domain", "W", "Kids", "Widths", "Range", "Size", "Encode", "Decode", "C0", "C1", "Index", "Filter", "DecodeParms",
                    "Contents", "Differences", "Limits", "Names", "Nums", "ID", "Fields", "D", "BBox", "MediaBox", "FontBBox", "Annots", "Matrix", "K"]


def specials(rng):
    """PostScript calculator programs with extreme operands; empty arrays where arrays are indexed; odd filter parameters"""
    for prog in PS_HOSTILE:
        for dom, rg in (([0, 1], [0, 1, 0, 1, 0, 1]), ([], []), ([0, 1], [0, 1])):
            fn = Stream({"FunctionType": 4, "Domain": dom, "Range": rg}, prog)
            yield "num:PostScript:%s" % prog[:24].decode("latin-1"), _r(_mini({4: [N("Separation"), N("X"), N("DeviceRGB"), Ref(5)], 5: fn}, res={"ColorSpace": {"C": Ref(4)}}))
    yield "num:PostScript:no-range", _r(_mini({4: [N("Separation"), N("X"), N("DeviceRGB"), Ref(5)], 5: Stream({"FunctionType": 4, "Domain": [0, 1]}, b"{ dup }")}, res={"ColorSpace": {"C": Ref(4)}}))
    for focus in ("fonts", "color", "catalog", "images", "pages"):
        doc = typed_doc(rng, focus)
        for num, path, st, key, val, fi in occurrences(doc.objects):
            if key in EMPTY_ARRAY_KEYS and isinstance(val, (list, Ref, dict, Name)):
                yield "num:%s.%s=[]" % ((fi[0] if fi else st), key), render(doc, "table", None, objects=_set_at(doc.objects, num, path, []))
                if key == "W":
                    yield "num:%s.W=[0 []]" % (fi[0] if fi else st), render(doc, "table", None, objects=_set_at(doc.objects, num, path, [0, []]))
                    yield "num:%s.W=[0 -1 1]" % (fi[0] if fi else st), render(doc, "table", None, objects=_set_at(doc.objects, num, path, [0, -1, 1]))
                    yield "num:%s.W=[0 4294967295 1]" % (fi[0] if fi else st), render(doc, "table", None, objects=_set_at(doc.objects, num, path, [0, 4294967295, 1]))
                    yield "num:%s.W=[4294967295 [1 2]]" % (fi[0] if fi else st), render(doc, "table", None, objects=_set_at(doc.objects, num, path, [4294967295, [1, 2]]))
                    yield "num:%s.W=[1]" % (fi[0] if fi else st), render(doc, "table", None, objects=_set_at(doc.objects, num, path, [1]))
                    yield "num:%s.W=[1 2]" % (fi[0] if fi else st), render(doc, "table", None, objects=_set_at(doc.objects, num, path, [1, 2]))
                    top = max(doc.objects) + 1
                    yield "num:%s.W=[0 ref-to-[]]" % (fi[0] if fi else st), render(doc, "table", None, objects={**_set_at(doc.objects, num, path, [0, Ref(top)]), top: []})
                    yield "num:%s.W=[0 ref-to-int]" % (fi[0] if fi else st), render(doc, "table", None, objects={**_set_at(doc.objects, num, path, [0, Ref(top)]), top: 5})
    # /Length of a stream (written by the serialiser, so planted through raw_len)
    for v in BOUNDARY + BOUNDARY_MORE + [2, 4, 1000]:
        yield "num:StreamInfo.Length=%d" % v, _r(_mini({4: Stream({}, b"q Q", raw_len=v)}, page_extra={"Contents": Ref(4)}))
        yield "num:StreamInfo.Length=%d" % v, _r(_mini({4: Stream({"Type": N("XObject"), "Subtype": N("Image"), "Width": 1, "Height": 1, "BitsPerComponent": 8, "ColorSpace": N("DeviceGray"),
                                                                  "Filter": N("ASCIIHexDecode")}, b"00>", raw_len=v)}, res={"XObject": {"I": Ref(4)}}))
    # sampled functions: geometry
    for size, bps, dom, rg, tag in (([0], 8, [0, 1], [0, 1], "size0"), ([2 ** 32 - 1], 8, [0, 1], [0, 1], "sizemax"), ([2, 2], 8, [0, 1], [0, 1], "size-vs-domain"),
                                    ([2], 0, [0, 1], [0, 1], "bps0"), ([2], 2 ** 32 - 1, [0, 1], [0, 1], "bpsmax"), ([2], 8, [0, 1], [], "norange"), ([2], 8, [1, 0], [1, 0], "inverted"),
                                    ([65536, 65536], 8, [0, 1, 0, 1], [0, 1], "size-overflow"), ([2], 8, [0], [0], "odd")):
        for order in (1, 3, 0):
            fn = Stream({"FunctionType": 0, "Domain": dom, "Range": rg, "Size": size, "BitsPerSample": bps, "Order": order}, bytes(8))
            yield "num:Sampled:%s" % tag, _r(_mini({4: [N("Separation"), N("X"), N("DeviceGray"), Ref(5)], 5: fn}, res={"ColorSpace": {"C": Ref(4)}}))
    # xref stream / object stream dictionaries (hand-written container so that their keys can be planted)
    base = _mini({4: {"A": 1}, 5: [1, 2], 6: 7})
    for v in BOUNDARY + BOUNDARY_MORE:
        yield "num:ObjStmInfo.N=%d" % v, raw_xstream(base.objects, 1, comp=[4, 5, 6], stm_patch=lambda s, v=v: {"N": v})
        yield "num:ObjStmInfo.First=%d" % v, raw_xstream(base.objects, 1, comp=[4, 5, 6], stm_patch=lambda s, v=v: {"First": v})
        yield "num:XRefInfo.Size=%d" % v, raw_xstream(base.objects, 1, comp=[4, 5, 6], xref_patch=lambda x, v=v: {"Size": v})
        yield "num:XRefInfo.Prev=%d" % v, raw_xstream(base.objects, 1, comp=[4, 5, 6], xref_patch=lambda x, v=v: {"Prev": v})
        yield "num:XRefInfo.Index[1]=%d" % v, raw_xstream(base.objects, 1, comp=[4, 5, 6], xref_patch=lambda x, v=v: {"Index": [0, v]})
        yield "num:XRefInfo.Index[0]=%d" % v, raw_xstream(base.objects, 1, comp=[4, 5, 6], xref_patch=lambda x, v=v: {"Index": [v, 9]})
        for i in range(3):
            w = [1, 4, 2]
            w[i] = v
            yield "num:XRefInfo.W[%d]=%d" % (i, v), raw_xstream(base.objects, 1, comp=[4, 5, 6], xref_patch=lambda x, w=w: {"W": list(w)})
        yield "num:XRefInfo.W=[0 0 0]+Index=%d" % v, raw_xstream(base.objects, 1, comp=[4, 5, 6], xref_patch=lambda x, v=v: {"W": [0, 0, 0], "Index": [0, v]})
        yield "num:objstm-member-index=%d" % v, raw_xstream(base.objects, 1, comp=[4, 5, 6], row_patch={4: (2, 7, v)})
        yield "num:objstm-header-offset=%d" % v, raw_xstream(dict(base.objects), 1, comp=[4, 5, 6], stm_patch=lambda s: {}).replace(b"4 0 5", b"4 %d 5" % v, 1)
        yield "num:Trailer.Size=%d" % v, render(base, "table", None, size=v)
        yield "num:Trailer.Prev=%d" % v, render(base, "table", None, trailer_extra={"Prev": v})
    for w in ([], [1], [1, 4], [1, 4, 2, 1], [8, 8, 8], [9, 9, 9], [0, 0, 0], [255, 255, 255]):
        yield "num:XRefInfo.W=%s" % (w,), raw_xstream(base.objects, 1, comp=[4, 5, 6], xref_patch=lambda x, w=w: {"W": list(w)})
    for idx in ([], [0], [0, 1, 2], [5, 5, 0, 5]):
        yield "num:XRefInfo.Index=%s" % (idx,), raw_xstream(base.objects, 1, comp=[4, 5, 6], xref_patch=lambda x, idx=idx: {"Index": list(idx)})
    # crypt dictionaries
    cdoc = _mini({4: Stream({}, b"BT (text) Tj ET")}, page_extra={"Contents": Ref(4)})
    eobjs, enc = encrypt_doc(cdoc, 3, 128)
    top = max(eobjs) + 1
    for key, vals in (("V", BOUNDARY + [2, 3, 4, 5, 6]), ("R", BOUNDARY + [2, 3, 4, 5, 6, 7]), ("P", BOUNDARY + BOUNDARY_MORE), ("Length", BOUNDARY + BOUNDARY_MORE + [7, 8, 39, 40, 41, 128, 129, 256, 2048])):
        for v in vals:
            e2 = dict(enc)
            e2[key] = v
            yield "num:CryptDict.%s=%d" % (key, v), render(cdoc, "table", None, objects={**eobjs, top: e2}, trailer_extra={"Encrypt": Ref(top)})
    for v in BOUNDARY + [5, 16, 17, 32, 256]:
        for cfm, vv, rr in (("V2", 4, 4), ("AESV2", 4, 4), ("AESV3", 5, 6), ("None", 4, 4)):
            e2 = dict(enc, V=vv, R=rr, CF={"StdCF": {"Type": N("CryptFilter"), "CFM": N(cfm), "AuthEvent": N("DocOpen"), "Length": v}}, StmF=N("StdCF"), StrF=N("StdCF"))
            yield "num:CryptFilter.Length=%d" % v, render(cdoc, "table", None, objects={**eobjs, top: e2}, trailer_extra={"Encrypt": Ref(top)})
    for o_len, u_len in ((0, 0), (1, 1), (31, 31), (32, 0), (48, 48), (47, 47), (127, 127)):
        for vv, rr in ((2, 3), (5, 5), (5, 6), (4, 4)):
            e2 = dict(enc, V=vv, R=rr, O=bytes(o_len), U=bytes(u_len), OE=bytes(o_len), UE=bytes(u_len))
            yield "num:CryptDict.O/U-length", render(cdoc, "table", None, objects={**eobjs, top: e2}, trailer_extra={"Encrypt": Ref(top)})
    yield "num:Trailer.ID=[]", render(cdoc, "table", None, objects={**eobjs, top: enc}, trailer_extra={"Encrypt": Ref(top), "ID": []})
    yield "num:Trailer.ID=[()]", render(cdoc, "table", None, objects={**eobjs, top: enc}, trailer_extra={"Encrypt": Ref(top), "ID": [b""]})
    # filter parameters beyond LZWFlateParams on a valid image
    img = bytes(12)
    eofb = b"\x00\x10\x01"          # the end-of-facsimile-block code alone: every declared row is padded white by the decoder
    for parms, tag, data in (({"K": -1, "Columns": 0}, "fax-columns0", img), ({"K": 0, "Columns": 2 ** 32 - 1}, "fax-columnsmax", img),
                             ({"K": -1, "Columns": 8, "Rows": 2 ** 32 - 1}, "fax-rowsmax", img), ({"K": 2 ** 31 - 1, "Columns": 8}, "fax-kmax", img),
                             ({"K": -1, "Columns": 1}, "fax-columns1", img), ({"K": 0, "Columns": 8}, "fax-k0", img), ({"K": 4, "Columns": 8, "Rows": 1}, "fax-k4", eofb),
                             ({"K": -1, "Columns": 65535}, "fax-columns65535", img), ({"K": -1, "Columns": 65536}, "fax-columns65536", img),
                             ({"K": -1, "Columns": 65544}, "fax-columns65544", eofb), ({"K": -1, "Columns": 8, "Rows": 65536}, "fax-rows65536", eofb),
                             ({"K": -1, "Columns": 8, "Rows": 65535}, "fax-rows65535", eofb), ({"K": -1, "Columns": 8, "Rows": 3}, "fax-eofb-padded", eofb),
                             ({"K": -1, "Columns": 8, "Rows": 0}, "fax-eofb-norows", eofb), ({"K": -1, "Columns": 65535, "Rows": 65535}, "fax-padding", eofb)):
        for width in ((0, 1, 8, 2 ** 32 - 1) if tag != "fax-padding" else (8,)):
            d = {"Type": N("XObject"), "Subtype": N("Image"), "Width": parms["Columns"] if width == 8 else width, "Height": 1, "BitsPerComponent": 1, "ImageMask": True,
                 "Filter": N("CCITTFaxDecode"), "DecodeParms": parms}
            yield "num:CCITTFaxDecodeParams:" + tag, _r(_mini({4: Stream(d, data)}, res={"XObject": {"I": Ref(4)}}))
    for filt in ("DCTDecode", "JPXDecode", "JBIG2Decode", "Crypt", "LZWDecode", "FlateDecode", "RunLengthDecode", "ASCII85Decode", "ASCIIHexDecode"):
        for data in (b"", b"\x00", b"\xff\xd8\xff", b"\x80", b"\x7f", b"\xfe", b"~>", b">", b"z~", b"zzzzz", b"\xff" * 64, bytes(range(256))):
            d = {"Type": N("XObject"), "Subtype": N("Image"), "Width": 1, "Height": 1, "BitsPerComponent": 8, "ColorSpace": N("DeviceGray"), "Filter": N(filt)}
            yield "num:filter-data:" + filt, _r(_mini({4: Stream(d, data)}, res={"XObject": {"I": Ref(4)}}, page_extra={"Contents": Ref(4)}))


def page_count_cases():
    """page trees whose sibling /Count values are untrue and SUM beyond u32 (one planted number per file cannot do that):
    the walk asks for pages n-2 … n+1, 2^31-1, 2^32-2 and 2^32-1, so `pos + tree.count` / `page_nr - pos` in PageTree::page_limited
    and the count additions of the pages iterator meet every carry (the former C14-e; theorem C07_no_panic, imported)."""
    I = 2 ** 31 - 1
    for counts, root_count in (((I, I, I), 3), ((I, I, I), I), ((I, I, 2), I), ((I, 1, I, I), 4), ((0, I, I, I), 0), ((I, I), I), ((1, I, I, 1), -1),
                               ((I, I, I, I, I), I)):
        objs = {1: {"Type": N("Catalog"), "Pages": Ref(2)}}
        kids = []
        nxt = 3
        for c in counts:
            node, leaf = nxt, nxt + 1
            nxt += 2
            kids.append(Ref(node))
            objs[node] = {"Type": N("Pages"), "Parent": Ref(2), "Kids": [Ref(leaf)], "Count": c}
            objs[leaf] = {"Type": N("Page"), "Parent": Ref(node), "MediaBox": [0, 0, 9, 9], "Resources": {}}
        objs[2] = {"Type": N("Pages"), "Kids": kids, "Count": root_count}
        yield "num:PageTree.Count-sum=%s/root=%d" % ("+".join(map(str, counts)), root_count), W.simple_file(objs, 1)[0]
        # the same with a leaf between the lying subtrees
        leaf = nxt
        o2 = dict(objs)
        o2[leaf] = {"Type": N("Page"), "Parent": Ref(2), "MediaBox": [0, 0, 9, 9], "Resources": {}}
        o2[2] = {"Type": N("Pages"), "Kids": kids[:2] + [Ref(leaf)] + kids[2:], "Count": root_count}
        yield "num:PageTree.Count-sum-leaf=%s/root=%d" % ("+".join(map(str, counts)), root_count), W.simple_file(o2, 1)[0]


def xref_shapes():
    """hostile shapes of the cross-reference chain itself; (tag, bytes).  /Prev cycles of length 1, 2 and 3 in classic and in
    xref-stream form, /Prev into the middle of an object, at the `startxref` keyword, at the header, at 0 and beyond the end,
    /XRefStm at the table itself, startxref at its own keyword.  All offsets are relative to the header (see `prefixed`)."""
    m = _mini({})
    ents = {n: W.Obj(v) for n, v in m.objects.items()}

    def fixpoint(build, pick):
        g = 0
        data = b""
        for _ in range(6):
            data, info = build(g)
            if pick(info) == g:
                break
            g = pick(info)
        return data

    for fmt in ("table", "stream"):
        yield "cycle:prev-self:" + fmt, fixpoint(lambda g: W.write_file([W.Revision(ents, fmt=fmt, trailer={"Root": Ref(1), "Prev": g})]), lambda i: i["startxrefs"][0])
        yield "cycle:prev-two:" + fmt, fixpoint(lambda g: W.write_file([W.Revision(ents, fmt=fmt, trailer={"Root": Ref(1), "Prev": g}),
                                                                         W.Revision({3: W.Obj(m.objects[3])}, fmt=fmt, trailer={"Root": Ref(1)})]), lambda i: i["startxrefs"][1])
        yield "cycle:prev-three:" + fmt, fixpoint(lambda g: W.write_file([W.Revision(ents, fmt=fmt, trailer={"Root": Ref(1), "Prev": g}),
                                                                           W.Revision({3: W.Obj(m.objects[3])}, fmt=fmt, trailer={"Root": Ref(1)}),
                                                                           W.Revision({2: W.Obj(m.objects[2])}, fmt=fmt, trailer={"Root": Ref(1)})]), lambda i: i["startxrefs"][2])
        # the NEWEST section of a two-revision file names itself (the older one is never reached)
        data, info = W.write_file([W.Revision(ents, fmt=fmt, trailer={"Root": Ref(1)}), W.Revision({3: W.Obj(m.objects[3])}, fmt=fmt, trailer={"Root": Ref(1)})])
        sx = info["startxrefs"]
        if fmt == "table":
            yield "cycle:prev-newest-self:table", data.replace(b"/Prev %d" % sx[0], b"/Prev %d" % sx[1], 1) if len(b"%d" % sx[0]) == len(b"%d" % sx[1]) else data
        base, info = W.write_file([W.Revision(ents, fmt=fmt, trailer={"Root": Ref(1), "Prev": 7777777})])
        off = info["offsets"]
        sxkw = base.rfind(b"startxref")
        for name, v in (("mid-object", off[(2, 0)] + 9), ("object-start", off[(1, 0)]), ("startxref-keyword", sxkw), ("header", 0), ("eof", len(base) - 6),
                        ("beyond-end", len(base) + 1000), ("huge", 2 ** 31 - 1), ("minus-one", -1)):
            txt = b"%d" % v
            yield "cycle:prev-%s:%s" % (name, fmt), base.replace(b"7777777", txt.ljust(7) if len(txt) <= 7 else txt, 1) if fmt == "table" or len(txt) <= 7 else base
    # hybrid file whose /XRefStm is the table itself, and one whose startxref names its own keyword
    data, info = W.write_file([W.Revision(ents, fmt="table", trailer={"Root": Ref(1), "XRefStm": 7777777})])
    yield "cycle:xrefstm-self", data.replace(b"7777777", (b"%d" % info["startxrefs"][0]).ljust(7), 1)
    data, info = W.write_file([W.Revision(ents, fmt="table", trailer={"Root": Ref(1)})])
    kw = data.rfind(b"startxref")
    tail = data[kw:]
    yield "cycle:startxref-self", data[:kw] + re.sub(rb"startxref\s+\d+", b"startxref\n%d" % kw, tail, 1)
    yield "cycle:startxref-header", data[:kw] + re.sub(rb"startxref\s+\d+", b"startxref\n0", tail, 1)


PREFIXES = [("1byte", b"\n"), ("percent", b"%\n"), ("fragments", b"%PDF\n%PD F-1.4\r%pdf-1.7 PDF- %%PDF 1 0 obj\nxref\n0 1\ntrailer <<>>\nstartxref\n0\n%%EOF\n"),
            ("700bytes", bytes((i * 37 + 11) % 251 for i in range(700)).replace(b"%", b"#")),
            ("3KB", bytes((i * 73 + 5) % 251 for i in range(3000)).replace(b"%", b"#"))]


def prefixed(rng):
    """every structural hostile shape (reference cycles, cross-reference chain shapes, over-deep nesting, object-stream indices)
    with bytes BEFORE the `%PDF-` header: offsets in such a file are relative to the header, so every place that mixes absolute
    and header-relative positions (the /Prev loop guard, scan, object offsets, stream ranges) sees two different numbers.
    A prefix of 1 byte, `%`, text with `%PDF` fragments (but no `%PDF-`), 700 bytes, 3 KB (beyond the header search window)."""
    shapes = list(xref_shapes()) + [c for c in cycles(rng) if not c[0].startswith("cycle:prev-")] + list(deep(rng)) + list(objstm_index_cases())
    for tag, data in shapes:
        for name, pre in PREFIXES:
            if name in ("700bytes", "3KB") and not tag.startswith(("cycle:prev", "cycle:xref", "cycle:startxref", "cycle:objstm", "cycle:length", "cycle:pages", "num:objstm")):
                continue
            yield "%s+prefix:%s" % (tag, name), pre + data


def objstm_index_cases():
    """xref-stream rows of type 2 whose member index is the last valid one (N-1), exactly N (the first invalid one: an
    off-by-one in ObjectStream::get_object_slice indexes `offsets[N]`), N+1 and far beyond; object streams of 1, 2 and 3
    members; the row of a member, of a page-tree node (reached by typed loading) and of an object that is only resolved.
    Every object number is read by the walk (obj[n].resolve / obj[n].as.*)."""
    for comp, extra in (([4], {4: {"A": 1}}), ([4, 5], {4: {"A": 1}, 5: [1, 2]}), ([4, 5, 6], {4: {"A": 1}, 5: [1, 2], 6: 7})):
        base = _mini(extra)
        n = len(comp)
        S = max(base.objects) + 1
        for idx in (n - 1, n, n + 1, 255, 65535):
            # a member's own row points past the header
            yield "num:objstm-index=%d/N=%d" % (idx, n), raw_xstream(base.objects, 1, comp=comp, row_patch={comp[-1]: (2, S, idx)})
            # the page (object 3, not a member) is said to be member idx: reached through /Kids by typed loading
            yield "num:objstm-index-page=%d/N=%d" % (idx, n), raw_xstream(base.objects, 1, comp=comp, row_patch={3: (2, S, idx)})
        # /N understates / overstates the header: the index is tested against the offsets that were READ
        yield "num:objstm-index=N-lies-low/N=%d" % n, raw_xstream(base.objects, 1, comp=comp, stm_patch=lambda s, n=n: {"N": max(0, n - 1)})
        yield "num:objstm-index=N-zero/N=%d" % n, raw_xstream(base.objects, 1, comp=comp, stm_patch=lambda s: {"N": 0})


FOCI = ("pages", "fonts", "images", "color", "catalog")


def content_edge_cases():
    """one small document per degenerate content-stream ending (inline images without data, with only an end-of-line between ID
    and EI, without EI, cut inside the dictionary; operators cut inside a string / array / dictionary operand): `Content::operations`
    and `OpBuilder::parse` must answer with a value or an error"""
    tails = list(DEGENERATE_BI) + [b"(unterminated", b"[1 2 (a", b"<< /K [", b"<41", b"/N", b"1 0 0 1", b"BT (a) Tj", b"BX", b"q " * 40,
                                   b"1 2 3 4 5 6 7 8 9 10 11 12 13 14 15 16 17 18 19 20 21 22 23 24 25 26 27 28 29 30 31 32 33 cm", b"% comment without end"]
    for k, t in enumerate(tails):
        for pre in (b"", b"q 1 0 0 1 0 0 cm Q\n"):
            data = pre + t
            objs = {1: {"Type": N("Catalog"), "Pages": Ref(2)},
                    2: {"Type": N("Pages"), "Kids": [Ref(3)], "Count": 1},
                    3: {"Type": N("Page"), "Parent": Ref(2), "MediaBox": [0, 0, 9, 9], "Resources": {}, "Contents": Ref(4)},
                    4: Stream({}, data)}
            yield "content-edge:%d%s" % (k, "+pre" if pre else ""), W.simple_file(objs, 1)[0]


def annot_page_cases():
    """a page with /Annots [A] (object 4) whose /P points at every object of the fragment: its own page (the one legal value
    besides absence, Table 164), another page, the /Pages root, an inner /Pages node, the catalog, the annotation itself, an
    integer, an array, a stream, null, a chain of references, a loop of references, an undefined object; /P absent; /P direct.
    Objects: 1 catalog, 2 pages root (kids 3, 6), 3 page, 4 annotation, 5 integer, 6 inner pages node, 7 its page, 8 array,
    9 stream, 10 null, 11 -> 12 -> 3 (references), 13 <-> 14 (loop).  (tag, bytes)"""
    def doc(p, annots=None):
        a = {"Type": N("Annot"), "Subtype": N("Text"), "Rect": [0, 0, 10, 10], "Contents": b"n"}
        if p is not None:
            a["P"] = p
        extra = {4: a, 5: 42, 6: {"Type": N("Pages"), "Parent": Ref(2), "Kids": [Ref(7)], "Count": 1},
                 7: {"Type": N("Page"), "Parent": Ref(6), "MediaBox": [0, 0, 100, 100], "Resources": {}, "Annots": [Ref(4)]},
                 8: [Ref(3)], 9: Stream({"Type": N("Page")}, b"q Q"), 10: None, 11: Ref(12), 12: Ref(3), 13: Ref(14), 14: Ref(13)}
        return _r(_mini(extra, page_extra={"Annots": annots if annots is not None else [Ref(4)]}, pages_extra={"Kids": [Ref(3), Ref(6)], "Count": 2}))
    targets = [("own-page", Ref(3)), ("other-page", Ref(7)), ("pages-root", Ref(2)), ("pages-inner", Ref(6)), ("catalog", Ref(1)),
               ("annot-itself", Ref(4)), ("integer", Ref(5)), ("array", Ref(8)), ("stream", Ref(9)), ("null-object", Ref(10)),
               ("ref-chain-to-page", Ref(11)), ("ref-loop", Ref(13)), ("undefined", Ref(99)), ("absent", None),
               ("direct-integer", 7), ("direct-dict", {"Type": N("Pages"), "Kids": [], "Count": 0}), ("direct-null", None)]
    for name, p in targets:
        if name == "direct-null":
            continue
        yield "annot-p:" + name, doc(p)
    # the annotation dictionary written directly inside /Annots, /P at its own page and at the tree
    for name, p in (("inline-own-page", Ref(3)), ("inline-pages-root", Ref(2))):
        yield "annot-p:" + name, doc(None, annots=[{"Type": N("Annot"), "Subtype": N("Text"), "Rect": [0, 0, 10, 10], "P": p}])


def big_instances():
    """well-formed one-page files in which ONE typed object is big (hundreds of entries): the heap-size estimates of the typed
    values (DataSize impls: the weights of the object cache) run only when such a value enters a cache, and their arithmetic only
    shows with sizes beyond a handful.  Colour spaces with large tint transforms / colorant lists / attributes / palettes — as a
    page resource (indirect /Resources) and as an image's /ColorSpace — and one big instance of the other kinds the walker loads.
    (tag, bytes)"""
    S = lambda d, data=b"": Stream(d, data)
    k = 400
    f2 = {"FunctionType": 2, "Domain": [0, 1], "C0": [0] * k, "C1": [1] * k, "N": 1}
    f2r = dict(f2, Range=[0, 1] * k)
    f2one = {"FunctionType": 2, "Domain": [0, 1], "C0": [0] * 4, "C1": [1] * 4, "N": 1}
    prog = b"{ " + b"dup 0.5 mul exch pop " * 300 + b"dup dup dup }"
    f4 = S({"FunctionType": 4, "Domain": [0, 1], "Range": [0, 1] * 4}, prog)
    f0 = S({"FunctionType": 0, "Domain": [0, 1], "Range": [0, 1] * 4, "Size": [4096], "BitsPerSample": 8}, bytes((7 * i) % 256 for i in range(4096 * 4)))
    f0m = S({"FunctionType": 0, "Domain": [0, 1] * 3, "Range": [0, 1] * 4, "Size": [16, 16, 16], "BitsPerSample": 8}, bytes((5 * i) % 256 for i in range(16 ** 3 * 4)))
    f3 = {"FunctionType": 3, "Domain": [0, 1], "Functions": [dict(f2one) for _ in range(200)], "Bounds": [(i + 1) / 200 for i in range(199)], "Encode": [0, 1] * 200}
    names = [N("Ink%d" % i) for i in range(300)]
    attrs = {"Subtype": N("NChannel"), "Colorants": {"Ink%d" % i: [N("Separation"), N("Ink%d" % i), N("DeviceGray"), {"FunctionType": 2, "Domain": [0, 1], "N": 1}] for i in range(120)},
             "Process": {"ColorSpace": N("DeviceCMYK"), "Components": [N("Cyan"), N("Magenta"), N("Yellow"), N("Black")]}}
    spaces = []
    for tag, fn in (("fn2-400", f2), ("fn2-400-range", f2r), ("fn4-long", f4), ("fn0-4096", f0), ("fn0-16x16x16", f0m), ("fn3-200", f3)):
        m = 3 if tag == "fn0-16x16x16" else 1
        spaces.append(("devicen-" + tag, [N("DeviceN"), [N("A"), N("B"), N("C")][:m], N("DeviceCMYK"), Ref(5)], fn))
        if m == 1:
            spaces.append(("separation-" + tag, [N("Separation"), N("Spot"), N("DeviceCMYK"), Ref(5)], fn))
    spaces.append(("devicen-names-300", [N("DeviceN"), names, N("DeviceCMYK"), Ref(5)], f2one))
    spaces.append(("devicen-attrs-120", [N("DeviceN"), [N("A")], N("DeviceCMYK"), Ref(5), attrs], f2one))
    spaces.append(("devicen-all-big", [N("DeviceN"), names, N("DeviceCMYK"), Ref(5), attrs], f2r))
    spaces.append(("indexed-string-768", [N("Indexed"), N("DeviceRGB"), 255, bytes(i % 256 for i in range(768))], None))
    spaces.append(("indexed-stream-768", [N("Indexed"), N("DeviceRGB"), 255, Ref(5)], S({}, bytes(i % 251 for i in range(768)))))
    spaces.append(("indexed-on-devicen", [N("Indexed"), [N("DeviceN"), [N("A")], N("DeviceGray"), Ref(5)], 255, bytes(256)], f2))
    spaces.append(("calrgb-big-dict", [N("CalRGB"), dict({"WhitePoint": [0.95, 1, 1.09]}, **{"K%d" % i: [i] * 8 for i in range(150)})], None))
    spaces.append(("other-big-array", [N("Lab")] + [{"WhitePoint": [0.95, 1, 1.09], "Range": [-100, 100] * 100}], None))
    for tag, cs, fn in spaces:
        objs = {4: cs}
        if fn is not None:
            objs[5] = fn
        # as a resource of the page, the resource dictionary indirect (weighed by the cache on its own) …
        o1 = dict(objs)
        o1[6] = {"ColorSpace": {"CS0": Ref(4)}}
        o1[7] = S({}, b"/CS0 cs 0.5 scn 0 0 5 5 re f")
        yield "big:cs-resource:" + tag, _r(_mini(o1, res=Ref(6), page_extra={"Contents": Ref(7)}))
        # … and as the colour space of an image XObject
        o2 = dict(objs)
        o2[6] = S({"Type": N("XObject"), "Subtype": N("Image"), "Width": 2, "Height": 2, "BitsPerComponent": 8, "ColorSpace": Ref(4)}, bytes(16))
        o2[7] = S({}, b"q /Im0 Do Q")
        yield "big:cs-image:" + tag, _r(_mini(o2, res={"XObject": {"Im0": Ref(6)}}, page_extra={"Contents": Ref(7)}))
    # ---- one big instance of the other typed kinds
    w256 = [500 + i for i in range(256)]
    diffs = [0] + [N("g%d" % i) for i in range(256)]
    font = {"Type": N("Font"), "Subtype": N("TrueType"), "BaseFont": N("Big"), "FirstChar": 0, "LastChar": 255, "Widths": w256,
            "Encoding": {"Type": N("Encoding"), "Differences": diffs},
            "FontDescriptor": {"Type": N("FontDescriptor"), "FontName": N("Big"), "Flags": 32, "FontBBox": [0, 0, 1000, 1000], "ItalicAngle": 0, "Ascent": 800,
                               "Descent": -200, "CapHeight": 700, "StemV": 80}}
    yield "big:font-widths-differences", _r(_mini({4: font, 5: S({}, b"BT /F0 9 Tf (x) Tj ET")}, res={"Font": {"F0": Ref(4)}}, page_extra={"Contents": Ref(5)}))
    wcid = []
    for i in range(200):
        wcid += [i * 3, [500, 600, 700]]
    t0 = {"Type": N("Font"), "Subtype": N("Type0"), "BaseFont": N("BigCID"), "Encoding": N("Identity-H"), "DescendantFonts": [Ref(5)],
          "ToUnicode": Ref(6)}
    cid = {"Type": N("Font"), "Subtype": N("CIDFontType2"), "BaseFont": N("BigCID"), "CIDSystemInfo": {"Registry": b"Adobe", "Ordering": b"Identity", "Supplement": 0},
           "DW": 1000, "W": wcid, "FontDescriptor": {"Type": N("FontDescriptor"), "FontName": N("BigCID"), "Flags": 4, "FontBBox": [0, 0, 1000, 1000],
                                                     "ItalicAngle": 0, "Ascent": 800, "Descent": -200, "CapHeight": 700, "StemV": 80}}
    tou = b"/CIDInit /ProcSet findresource begin 12 dict begin begincmap 1 begincodespacerange <0000> <FFFF> endcodespacerange\n" + \
          b"".join(b"100 beginbfchar\n" + b"".join(b"<%04X> <%04X>\n" % (j * 100 + i, 0x4E00 + i) for i in range(100)) + b"endbfchar\n" for j in range(4)) + b"endcmap end end"
    yield "big:font-type0-w-tounicode", _r(_mini({4: t0, 5: cid, 6: S({}, tou), 7: S({}, b"BT /F0 9 Tf <0001> Tj ET")}, res={"Font": {"F0": Ref(4)}}, page_extra={"Contents": Ref(7)}))
    gs = {"Type": N("ExtGState"), "LW": 1, "D": [[1, 2] * 200, 0], "Font": [Ref(5), 9], "BM": [N("Multiply")] * 50,
          "SMask": {"Type": N("Mask"), "S": N("Luminosity"), "G": Ref(6), "BC": [0] * 200}}
    yield "big:extgstate", _r(_mini({4: gs, 5: dict(font), 6: S({"Type": N("XObject"), "Subtype": N("Form"), "BBox": [0, 0, 1, 1]}, b"q Q"), 7: S({}, b"/G0 gs")},
                                   res={"ExtGState": {"G0": Ref(4)}}, page_extra={"Contents": Ref(7)}))
    annots = {10 + i: {"Type": N("Annot"), "Subtype": N("Text"), "Rect": [0, 0, 10, 10], "P": Ref(3), "Contents": b"note " * 60,
                       "Border": [0, 0, 1, [3] * 40], "C": [0.5] * 3} for i in range(150)}
    yield "big:annots-150", _r(_mini(annots, page_extra={"Annots": [Ref(10 + i) for i in range(150)]}))
    content = b"q " + b"1 0 0 1 1 1 cm 0 0 m 5 5 l S [1 2 3] 0 d (text) pop " * 0 + b"0 0 m 5 5 l S /Span << /MCID 1 /A [1 2 3 4 5 6 7 8] >> BDC EMC " * 400 + b"Q"
    yield "big:content-ops", _r(_mini({4: S({}, content)}, page_extra={"Contents": Ref(4)}))
    leaf = {"Names": sum(([b"name%04d" % i, [Ref(3), N("Fit")]] for i in range(300)), [])}
    labels = {"Nums": sum(([i, {"S": N("D"), "St": i, "P": b"prefix-%d-" % i}] for i in range(300)), [])}
    yield "big:nametree-pagelabels", _r(_mini({4: leaf, 5: labels}, cat_extra={"Names": {"Dests": Ref(4)}, "PageLabels": Ref(5)}))
    outl = {4: {"Type": N("Outlines"), "First": Ref(10), "Last": Ref(10 + 119), "Count": 120}}
    for i in range(120):
        it = {"Title": b"Item %d " % i * 10, "Parent": Ref(4), "Dest": [Ref(3), N("XYZ"), 0, 0, 0], "C": [0, 0, 1], "F": 1}
        if i > 0:
            it["Prev"] = Ref(10 + i - 1)
        if i < 119:
            it["Next"] = Ref(10 + i + 1)
        outl[10 + i] = it
    yield "big:outlines-120", _r(_mini(outl, cat_extra={"Outlines": Ref(4)}))
    form = S({"Type": N("XObject"), "Subtype": N("Form"), "BBox": [0, 0, 10, 10], "Matrix": [1, 0, 0, 1, 0, 0],
              "Resources": {"ExtGState": {"G%d" % i: {"Type": N("ExtGState"), "LW": i} for i in range(150)}, "ColorSpace": {"C%d" % i: [N("Indexed"), N("DeviceRGB"), 1, bytes(6)] for i in range(100)}},
              "PieceInfo": {"App%d" % i: {"LastModified": b"D:20200101", "Private": [i] * 20} for i in range(60)}}, b"q Q " * 500)
    yield "big:form-resources", _r(_mini({4: form, 5: S({}, b"q /X0 Do Q")}, res={"XObject": {"X0": Ref(4)}}, page_extra={"Contents": Ref(5)}))
    pat = S({"Type": N("Pattern"), "PatternType": 1, "PaintType": 1, "TilingType": 1, "BBox": [0, 0, 5, 5], "XStep": 5, "YStep": 5, "Resources": Ref(5)}, b"0 0 m 1 1 l S " * 400)
    yield "big:pattern-ops", _r(_mini({4: pat, 5: {}, 6: S({}, b"/Pattern cs /P0 scn 0 0 5 5 re f")}, res={"Pattern": {"P0": Ref(4)}}, page_extra={"Contents": Ref(6)}))
    shading = {"ShadingType": 2, "ColorSpace": [N("DeviceN"), names[:50], N("DeviceCMYK"), Ref(5)], "Coords": [0, 0, 1, 1], "Function": Ref(5), "Extend": [True, True]}
    yield "big:shading-devicen", _r(_mini({4: shading, 5: dict(f2r), 6: S({}, b"/Sh0 sh")}, res={"Shading": {"Sh0": Ref(4)}}, page_extra={"Contents": Ref(6)}))


def planted(rng, tier="quick"):
    """iterator of (tag, file bytes): syntactically valid files with a correct cross-reference section whose object graph is hostile"""
    styles = ("table",) if tier == "quick" else ("table", "xstream", "objstm", "incr")
    for fo in FOCI:
        doc = typed_doc(rng, fo)
        yield "valid:" + fo, render(doc, "table", rng)
    yield from cycles(rng)
    yield from deep(rng)
    yield from objstm_index_cases()
    yield from page_count_cases()
    yield from content_edge_cases()
    yield from xref_shapes()
    yield from prefixed(rng)
    yield from specials(rng)
    for fo in FOCI:
        doc = typed_doc(rng, fo)
        yield from plant_nums(rng, doc, tier, fo, styles)
    for fo in FOCI:
        doc = typed_doc(rng, fo)
        yield from plant_refs(rng, doc, tier, fo, styles)
    if tier != "quick":
        doc = typed_doc(rng, None)
        yield from plant_nums(rng, doc, "quick", "full", styles)
        yield from plant_refs(rng, doc, "quick", "full", styles)
