"""tools/oracle/spell.py — specification-side printer: every way ISO 32000-1 §7.2–7.3 lets a value be written.

`Speller(rng)` renders a value (pdfwriter's value model; reals are `Real(text)` carrying the exact decimal) into bytes
under random conforming choices: white-space and comments between tokens, numbers with signs / leading zeros /
fraction-only forms, literal strings with every escape form, octal codes, line continuations, balanced parentheses and
raw end-of-lines, hexadecimal strings with white-space and an odd digit count, names with #xx, adjacency without
separators where two tokens cannot merge.  Written from the standard, not from pdf-rs."""
from .pdfwriter import Name, Ref, Stream
from . import f32
from .canon import canon as _canon

WS = [0, 9, 10, 12, 13, 32]
EOLS = [b"\r", b"\n", b"\r\n"]
DELIMS = b"()<>[]{}/%"
ESC = {10: b"n", 13: b"r", 9: b"t", 8: b"b", 12: b"f", 40: b"(", 41: b")", 92: b"\\"}


class Real:
    """a real number given by its exact decimal text (sign? digits* ('.' digits*)?)"""
    __slots__ = ("txt",)

    def __init__(self, txt):
        self.txt = txt

    def bits(self):
        return f32.dec_to_bits(self.txt)

    def __repr__(self):
        return "Real(%s)" % self.txt


def canon(v):
    """expected canonical form: reals as binary32 bit patterns"""
    if isinstance(v, Real):
        return b"r%08x" % v.bits()
    if isinstance(v, (list, tuple)):
        return b"[" + b" ".join(canon(x) for x in v) + b"]"
    if isinstance(v, dict):
        return b"{" + b" ".join((k.s if isinstance(k, Name) else k.encode()).hex().encode() + b":" + canon(x) for k, x in v.items()) + b"}"
    return _canon(v)


def is_regular(c):
    return c not in WS and c not in DELIMS


class Speller:
    def __init__(self, rng, ws_bytes=None, comments=True, stats=None):
        self.rng = rng
        self.ws_bytes = ws_bytes or WS
        self.comments = comments
        self.stats = stats if stats is not None else {}

    def note(self, k):
        self.stats[k] = self.stats.get(k, 0) + 1

    # ---- separators
    def ws(self, must=False):
        r = self.rng
        if not must and r.random() < 0.5:
            return b""
        out = bytearray()
        n = 1 if r.random() < 0.7 else r.randint(2, 3)
        for _ in range(n):
            if self.comments and r.random() < 0.12:
                body = bytes(r.choice(b"abc %()<>[]/\\0129 \t") for _ in range(r.randint(0, 6)))
                eol = r.choice(EOLS)
                out += b"%" + body + eol
                self.note("comment-" + {b"\r": "CR", b"\n": "LF", b"\r\n": "CRLF"}[eol])
            else:
                c = r.choice(self.ws_bytes)
                out.append(c)
                self.note("ws-%d" % c)
        return bytes(out)

    def join(self, toks):
        """tokens -> bytes; a separator is required between two tokens whose adjacent characters are both regular"""
        out = bytearray()
        prev = b""
        for t in toks:
            must = bool(out) and bool(t) and (is_regular(out[-1]) or prev == b"/") and is_regular(t[0])
            if out and not must and out[-1:] == b"<" and t[:1] == b"<":
                must = True            # "<" "<" would read as "<<"
            if out and not must and out[-1:] == b">" and t[:1] == b">":
                must = True
            sep = self.ws(must)
            if not sep and must:
                sep = b" "
            out += sep + t
            prev = t
        return bytes(out)

    # ---- tokens
    def integer(self, n):
        r = self.rng
        s = str(abs(n))
        if r.random() < 0.2:
            s = "0" * r.randint(1, 3) + s
            self.note("int-leading-zero")
        if n < 0:
            s = "-" + s
        elif r.random() < 0.15:
            s = "+" + s
            self.note("int-plus")
        return s.encode()

    def real(self, v):
        """a spelling of the same decimal: leading/trailing zeros, '4.' and '.5' forms, '+'"""
        r = self.rng
        txt = v.txt
        neg = txt.startswith("-")
        body = txt.lstrip("+-")
        ip, _, fp = body.partition(".")
        ip = ip.lstrip("0")
        fp = fp.rstrip("0")
        if r.random() < 0.3:
            fp += "0" * r.randint(1, 3)
            self.note("real-trailing-zero")
        if r.random() < 0.2:
            ip = "0" * r.randint(1, 2) + ip
            self.note("real-leading-zero")
        if not ip and (not fp or r.random() < 0.5):
            ip = "0"
        if not ip:
            self.note("real-fraction-only")
        if not fp:
            self.note("real-trailing-dot")
        s = ip + "." + fp
        if neg:
            s = "-" + s
        elif r.random() < 0.15:
            s = "+" + s
            self.note("real-plus")
        return s.encode()

    def name(self, n):
        r = self.rng
        out = bytearray(b"/")
        for c in n.s:
            if is_regular(c) and 33 <= c <= 126 and c != 35 and r.random() < 0.85:
                out.append(c)
            else:
                out += (b"#%02X" if r.random() < 0.5 else b"#%02x") % c
                self.note("name-hash")
        return bytes(out)

    def lit_string(self, b):
        r = self.rng
        out = bytearray(b"(")
        i = 0
        n = len(b)
        while i < n:
            c = b[i]
            if r.random() < 0.05:
                out += b"\\" + r.choice(EOLS)
                # a continuation written as backslash CR followed by a raw LF would read as backslash CRLF: avoid
                if out.endswith(b"\r") and i < n and b[i] == 10:
                    out += b"\\n"
                    i += 1
                    self.note("str-continuation")
                    continue
                self.note("str-continuation")
            # balanced parenthesised run written raw
            if c == 40 and r.random() < 0.6:
                depth, j = 0, i
                ok = False
                while j < n:
                    if b[j] == 40:
                        depth += 1
                    elif b[j] == 41:
                        depth -= 1
                        if depth == 0:
                            ok = True
                            break
                    elif b[j] in (92, 13):
                        break
                    j += 1
                if ok:
                    out += b[i:j + 1]
                    i = j + 1
                    self.note("str-balanced-parens")
                    continue
            choice = r.random()
            nxt = b[i + 1] if i + 1 < n else None
            if c in ESC and (c in (40, 41, 92, 13) or choice < 0.5):
                out += b"\\" + ESC[c]
                self.note("str-esc-" + ESC[c].decode())
            elif c == 10 and choice < 0.8:
                eol = r.choice(EOLS)
                # raw CR must not be followed by a raw LF that belongs to the data
                out += eol
                if eol == b"\r" and nxt == 10:
                    out[-1:] = b"\n"
                self.note("str-raw-eol")
            elif c in (40, 41, 92, 13) or choice < 0.25 or c == 10:
                nd = r.choice([1, 2, 3])
                o = ("%o" % c)
                if len(o) > nd or (nd < 3 and nxt is not None and 48 <= nxt <= 57 and len(o) < 3):
                    nd = 3
                o = o.rjust(nd, "0")
                if nd < 3 and nxt is not None and 48 <= nxt <= 55:
                    o = o.rjust(3, "0")
                out += b"\\" + o.encode()
                self.note("str-octal-%d" % len(o))
            elif choice < 0.3 and c not in b"nrtbf()\\01234567\r\n" and True:
                out += b"\\" + bytes([c])
                self.note("str-ignored-backslash")
            else:
                out.append(c)
            i += 1
        out += b")"
        return bytes(out)

    def hex_string(self, b):
        r = self.rng
        digs = "".join("%02x" % c for c in b)
        if digs.endswith("0") and r.random() < 0.4:
            digs = digs[:-1]
            self.note("hex-odd")
        out = bytearray(b"<")
        for d in digs:
            if r.random() < 0.1:
                out.append(r.choice(WS))
                self.note("hex-ws")
            out.append(ord(d.upper() if r.random() < 0.5 else d))
        if r.random() < 0.2:
            out.append(r.choice(WS))
        out += b">"
        return bytes(out)

    # ---- values -> token lists
    def tokens(self, v):
        r = self.rng
        if v is None:
            return [b"null"]
        if v is True:
            return [b"true"]
        if v is False:
            return [b"false"]
        if isinstance(v, int):
            return [self.integer(v)]
        if isinstance(v, Real):
            return [self.real(v)]
        if isinstance(v, Name):
            return [self.name(v)]
        if isinstance(v, Ref):
            return [self.integer_plain(v.num), self.integer_plain(v.gen), b"R"]
        if isinstance(v, (bytes, bytearray)):
            return [self.hex_string(bytes(v)) if r.random() < 0.35 else self.lit_string(bytes(v))]
        if isinstance(v, (list, tuple)):
            out = [b"["]
            for x in v:
                out += self.tokens(x)
            return out + [b"]"]
        if isinstance(v, dict):
            out = [b"<<"]
            for k, x in v.items():
                out += [self.name(k if isinstance(k, Name) else Name(k))] + self.tokens(x)
            return out + [b">>"]
        raise TypeError(repr(v))

    def integer_plain(self, n):
        return (("0" * self.rng.randint(1, 2) if self.rng.random() < 0.1 else "") + str(n)).encode()

    def spell(self, v, lead=True):
        """(bytes) a conforming spelling of v, possibly preceded by white-space/comments"""
        body = self.join(self.tokens(v))
        return (self.ws() if lead else b"") + body

    def stream_obj(self, d, data, num, gen, crlf=None, length=None):
        """`n g obj << … /Length n >> stream EOL data EOL? endstream endobj`"""
        r = self.rng
        dd = dict(d)
        dd["Length"] = len(data) if length is None else length
        eol = (b"\r\n" if r.random() < 0.5 else b"\n") if crlf is None else (b"\r\n" if crlf else b"\n")
        self.note("stream-" + ("CRLF" if eol == b"\r\n" else "LF"))
        toks = [self.integer_plain(num), self.integer_plain(gen), b"obj"] + self.tokens(dd)
        head = self.join(toks) + self.ws() + b"stream" + eol
        tail = r.choice([b"", b"\n", b"\r\n", b"\r"]) + b"endstream" + self.ws(True) + b"endobj"
        return self.ws() + head, data, tail

    def indirect(self, v, num, gen):
        toks = [self.integer_plain(num), self.integer_plain(gen), b"obj"] + self.tokens(v) + [b"endobj"]
        return self.ws() + self.join(toks)


# ---------------------------------------------------------------- random values
def rand_value(rng, depth=3, names_utf8=True, kinds=None):
    kinds = kinds or ["null", "bool", "int", "real", "name", "str", "ref", "arr", "dict"]
    k = rng.choice(kinds if depth > 0 else [x for x in kinds if x not in ("arr", "dict")] or ["null"])
    if k == "null":
        return None
    if k == "bool":
        return rng.random() < 0.5
    if k == "int":
        return rng.choice([0, 1, -1, 7, 42, 2147483647, -2147483648, rng.randint(-10 ** 9, 10 ** 9), rng.randint(-300, 300)])
    if k == "real":
        return rand_real(rng)
    if k == "name":
        return rand_name(rng)
    if k == "str":
        return rand_bytes(rng)
    if k == "ref":
        return Ref(rng.choice([0, 1, 5, 77, 65535, 10 ** 6, rng.randint(0, 10 ** 9)]), rng.choice([0, 0, 0, 1, 65535]))
    if k == "arr":
        return [rand_value(rng, depth - 1, names_utf8, kinds) for _ in range(rng.choice([0, 1, 2, 3, 5]))]
    d = {}
    for _ in range(rng.choice([0, 1, 2, 3, 4])):
        d[rand_name(rng)] = rand_value(rng, depth - 1, names_utf8, kinds)
    return d


def rand_real(rng):
    k = rng.random()
    if k < 0.2:
        txt = rng.choice(["0.5", "-0.5", "1.5", "3.14159", "0.1", "100.25", "0.000001", "16777217.0", "2147483648.0",
                          "-2147483649.0", "4294967296.5", "0.0", "-0.0", "340282346638528859811704183484516925440.0",
                          "0.00000000000000000000000000000000000001", "123456789.123456789", "8388608.5", "8388609.5"])
    else:
        ip = str(rng.randint(0, 10 ** rng.randint(0, 9))) if rng.random() < 0.85 else "0"
        fp = "".join(rng.choice("0123456789") for _ in range(rng.randint(1, 8)))
        txt = ("-" if rng.random() < 0.4 else "") + ip + "." + fp
    return Real(txt)


def rand_name(rng):
    n = rng.choice([0, 1, 2, 3, 5, 8])
    k = rng.random()
    if k < 0.5:
        s = "".join(rng.choice("ABCabcxyz019_-.+*") for _ in range(n))
    elif k < 0.8:
        s = "".join(rng.choice("Aa1 #()<>[]{}/%\t~!\x7f\x01") for _ in range(n))
    else:
        s = "".join(rng.choice(["é", "ß", "€", "漢", "𝄞", "a", "Z", " "]) for _ in range(n))
    return Name(s)


def rand_bytes(rng):
    n = rng.choice([0, 1, 2, 3, 5, 9, 17, 40])
    k = rng.random()
    if k < 0.3:
        return bytes(rng.randrange(256) for _ in range(n))
    if k < 0.6:
        return bytes(rng.choice(b"abc ()\\\r\n\t\x08\x0c012789") for _ in range(n))
    if k < 0.8:
        return bytes(rng.choice(b"()()(ab") for _ in range(n))
    return bytes(rng.choice(b"Hello, World 123") for _ in range(n))
