"""tools/oracle/xrefspec.py — specification side of the cross-reference properties C02 / C17
(ISO 32000-1 §7.5.4 cross-reference table, §7.5.6 incremental updates, §7.5.8 cross-reference streams),
written from the standard, independent of pdf-rs.

  * update histories: a list of updates, each a partial map  number -> Direct | Compressed | Freed,
    `latest`, generators that respect the generation rules of §7.5.4;
  * the two section formats as *printers*: classic rows (20 bytes, three end-of-line forms, any
    subsection split) and cross-reference stream rows (any /W, default type 1 when w0 = 0);
  * the text form of entries / sections / tables used on the harness protocol.
"""
from .pdfwriter import Name, Ref, Stream, Obj, Free, Comp, Revision, write_file, subsections
from .canon import canon

EOLS = [b" \n", b"\r\n", b" \r"]
MAXGEN = 65535


# ---------------------------------------------------------------------------------------------
# entries: ("n", pos, gen) | ("f", next, gen) | ("c", stream, index)

def entry_text(e):
    if e is None:
        return "I"
    return "%s%d,%d" % (e[0], e[1], e[2])


def section_text(first, ents):
    return (" ".join([str(first)] + [entry_text(e) for e in ents])).encode()


def table_text(ents):
    return (" ".join(entry_text(e) for e in ents)).encode()


def latest(tables, n):
    """tables: list (oldest first) of dict number -> entry; the entry of the last table that mentions n"""
    for t in reversed(tables):
        if n in t:
            return t[n]
    return None


def expected_table(tables, size):
    """what a conforming reader knows after reading all sections: for every number below /Size the newest
    entry (None = not defined); pdf-rs appends one more free entry at index /Size (XRefTable::new)."""
    return [latest(tables, n) for n in range(size)]


def sections_of(table, split=None):
    """[(first, [entry…])…] — contiguous runs, optionally cut at the numbers in `split`"""
    return [(run[0], [table[n] for n in run]) for run in subsections(sorted(table), split)]


# ---------------------------------------------------------------------------------------------
# printers of the two formats (§7.5.4, §7.5.8)

def print_table_rows(secs, eol=b" \n", hdr_eol=b"\n", eols=None):
    """the text between the `xref` keyword and the `trailer` keyword"""
    out = bytearray()
    k = 0
    for first, ents in secs:
        out += b"%d %d" % (first, len(ents)) + hdr_eol
        for e in ents:
            if e[0] == "c":
                raise ValueError("a classic table cannot describe a compressed object")
            out += b"%010d %05d %s" % (e[1], e[2], e[0].encode()) + (eols[k % len(eols)] if eols else eol)
            k += 1
    return bytes(out)


ISO_WHITE = b"\x00\t\n\x0c\r "       # ISO 32000-1 Table 1


def gap(rng, nonempty):
    n = rng.choice([1, 1, 1, 2, 3, 6]) if nonempty else rng.choice([0, 0, 0, 1, 2, 5])
    return bytes(rng.choice(ISO_WHITE) for _ in range(n))


def print_table_layout(rng, secs):
    """counterpart of XRef/Spec.v print_table_spec without the two keywords: white-space after `xref`, the
    subsections (white-space before the header, between its numbers, after it; a 2-byte end-of-line form per
    row), white-space before `trailer`"""
    out = bytearray(gap(rng, True))
    for first, ents in secs:
        out += gap(rng, False) + b"%d" % first + gap(rng, True) + b"%d" % len(ents) + gap(rng, True)
        for e in ents:
            if e[0] == "c":
                raise ValueError("a classic table cannot describe a compressed object")
            out += b"%010d %05d %s" % (e[1], e[2], e[0].encode()) + rng.choice(EOLS)
    out += gap(rng, False)
    return bytes(out)


TYPE = {"f": 0, "n": 1, "c": 2}


def fits(e, w):
    ok = (e[0] == "n") if w[0] == 0 else TYPE[e[0]] < 256 ** w[0]
    return ok and e[1] < 256 ** w[1] and e[2] < 256 ** w[2]


def print_stream_rows(secs, w):
    """the decoded data of a cross-reference stream with /W = w and /Index from secs"""
    out = bytearray()
    index = []
    for first, ents in secs:
        index += [first, len(ents)]
        for e in ents:
            if not fits(e, w):
                raise ValueError("entry %r does not fit /W %r" % (e, w))
            if w[0]:
                out += TYPE[e[0]].to_bytes(w[0], "big")
            out += e[1].to_bytes(w[1], "big") + e[2].to_bytes(w[2], "big")
    return bytes(out), index


def min_widths(secs):
    m1 = max([e[1] for _, es in secs for e in es] + [0])
    m2 = max([e[2] for _, es in secs for e in es] + [0])
    bl = lambda v: (v.bit_length() + 7) // 8
    return bl(m1), bl(m2)


# ---------------------------------------------------------------------------------------------
# update histories (abstract): state of a number = None | ("d", gen) | ("c",) | ("f", gen)

FORMS = ["absent", "direct", "compressed", "free"]


def form_of(st):
    return "absent" if st is None else {"d": "direct", "c": "compressed", "f": "free"}[st[0]]


def choices(st, fmt):
    """the mentions §7.5.4/§7.5.8 allow for a number in state `st` in an update of format `fmt`"""
    out = []
    if st is None:
        out = [("d", 0), ("f", 0), ("f", 1)]
        if fmt == "stream":
            out.append(("c",))
    elif st[0] == "d":
        out = [("d", st[1])]
        if st[1] < MAXGEN:
            out.append(("f", st[1] + 1))
        if fmt == "stream" and st[1] == 0:
            out.append(("c",))
    elif st[0] == "c":
        out = [("d", 0), ("f", 1)]
        if fmt == "stream":
            out.append(("c",))
    else:
        out = [("d", st[1]), ("f", st[1])]
        if fmt == "stream" and st[1] == 0:
            out.append(("c",))
    return out


def gen_value(rng, n, k, allow_stream=True, compressed=False):
    """a value that identifies (number, update) and is of a randomly chosen type"""
    tag = "V%dU%d" % (n, k)
    kind = rng.randrange(6 if (allow_stream and not compressed) else 5)
    if kind == 0:
        return {"N": n, "U": k, "T": Name(tag)}
    if kind == 1:
        return [Name(tag), n, k, tag.encode()]
    if kind == 2:
        return Name(tag + "".join(rng.choice("abcXYZ") for _ in range(rng.randrange(4))))
    if kind == 3:
        return tag.encode() + bytes(rng.randrange(32, 127) for _ in range(rng.randrange(6)))
    if kind == 4:
        return {"K": [n, k], "R": Ref(max(1, n - 1), 0), "B": rng.random() < 0.5, "Z": None}
    data = bytes(rng.randrange(256) for _ in range(rng.randrange(0, 40)))
    return Stream({"N": n, "U": k}, data)


class History:
    """a generated history: revisions for pdfwriter + the abstract states"""

    def __init__(self):
        self.revisions = []
        self.pairs = []        # (prev form, new form, prev fmt, new fmt) for coverage
        self.fmts = []


def gen_history(rng, n_updates=None, max_num=None, force=None, stream_values=True):
    """force: optional list of (prev_form, new_form, prev_fmt, new_fmt) pairs to realise on number 1…"""
    H = History()
    n_updates = n_updates or rng.randint(1, 6)
    max_num = max_num or rng.randint(1, 40)
    state = {}
    last_fmt = {}
    size = 0
    for k in range(n_updates):
        fmt = rng.choice(["table", "stream"])
        if force and k < len(force) and force[k] is not None:
            fmt = force[k]
        H.fmts.append(fmt)
        if k == 0:
            nums = [n for n in range(1, max_num + 1) if rng.random() < 0.8]
        else:
            nums = [n for n in range(1, max_num + 1) if rng.random() < rng.choice([0.15, 0.4, 0.7])]
        if not nums:
            nums = [rng.randint(1, max_num)]
        entries = {}
        for n in nums:
            st = state.get(n)
            ch = rng.choice(choices(st, fmt))
            H.pairs.append((form_of(st), form_of(ch), last_fmt.get(n), fmt))
            if ch[0] == "d":
                entries[n] = Obj(gen_value(rng, n, k, allow_stream=stream_values), gen=ch[1])
            elif ch[0] == "c":
                entries[n] = Comp(gen_value(rng, n, k, compressed=True), stm=rng.randrange(2) if rng.random() < 0.3 else None)
            else:
                entries[n] = Free(gen=ch[1], nxt=0)
            state[n] = ch
            last_fmt[n] = fmt
        for n in range(1, max_num + 1):
            if n not in nums and n in state:
                H.pairs.append((form_of(state[n]), "absent", last_fmt.get(n), fmt))
        kw = dict(fmt=fmt, trailer={"VpRev": k, "Root": Ref(1, 0)})
        kw["eol"] = rng.choice(EOLS)
        if rng.random() < 0.5:
            cut = sorted(entries)
            kw["split"] = [n for n in cut if rng.random() < 0.3]
        # auxiliary objects (object streams, the xref stream) get numbers no update ever mentions
        aux = max_num + 1 + 4 * k
        kw["objstm_nums"] = {None: aux, 0: aux + 1, 1: aux + 2}
        kw["xref_num"] = aux + 3
        if fmt == "stream":
            if rng.random() < 0.5:
                kw["w"] = (rng.choice([1, 1, 2, 3]), rng.choice([2, 3, 4, 5, 8]), rng.choice([2, 2, 3, 4]))
            kw["objstm_filter"] = rng.choice([None, None, "flate", "hex"])
            kw["xref_filter"] = rng.choice([None, "flate"])
        H.revisions.append(Revision(entries, **kw))
    return H


def render(H, prefix=b"", grow=None):
    """bytes + info; /Size = highest number + 1 (+ optional growth per revision, cumulative so that it never shrinks)"""
    return write_file(H.revisions, prefix=prefix)


def expected_values(H, info):
    """for every number below the final /Size: canon bytes of the value a conforming reader returns,
    b"!FreeObject", b"!NullRef", or None when the object is an auxiliary one (xref / object stream) whose
    dictionary this oracle does not predict"""
    tables = [r["table"] for r in info["revisions"]]
    size = info["revisions"][-1]["size"]
    out = []
    for n in range(size):
        where = None
        for k in range(len(tables) - 1, -1, -1):
            if n in tables[k]:
                where = k
                break
        if where is None:
            out.append(b"!NullRef")
            continue
        e = tables[where][n]
        if e[0] == "f":
            out.append(b"!FreeObject")
        elif n in H.revisions[where].entries:
            out.append(canon(H.revisions[where].entries[n].value))
        else:
            out.append(None)
    return out, size


def expected_scan(H, info):
    """the objects a recovery scan meets before the newest cross-reference section, in file order:
    [(num, gen, canon | None)], with ("T",) for the trailer of every earlier classic section"""
    items = []
    last = len(H.revisions) - 1
    for k, rev in enumerate(H.revisions):
        table = info["revisions"][k]["table"]
        objs = sorted((e[1], n, e[2]) for n, e in table.items() if e[0] == "n")
        xoff = info["startxrefs"][k]
        for off, n, g in objs:
            if rev.fmt == "stream" and off == xoff:
                if k != last:
                    items.append((n, g, None))
                continue
            v = rev.entries[n].value if n in rev.entries and isinstance(rev.entries[n], Obj) else None
            items.append((n, g, canon(v) if v is not None else None))
        if rev.fmt == "table" and k != last:
            items.append(("T",))
    return items


def abstract_file(H, info, start=0, file_len=0):
    """the fields of the model side of mode xr_walk"""
    fields = [b"%d %d %d" % (start, file_len, info["startxrefs"][-1])]
    prev = None
    for k, rev in enumerate(H.revisions):
        r = info["revisions"][k]
        hdr = b"%d %d %s %d" % (start + info["startxrefs"][k], r["size"], (b"%d" % prev) if prev is not None else b"-", k)
        secs = sections_of(r["table"], rev.split)
        fields.append(hdr)
        fields.append(b";".join(section_text(f, es) for f, es in secs))
        prev = info["startxrefs"][k]
    return fields


def observation_check(H, info):
    """judge one observation (fields of harness mode xr_all: one per object number below /Size, the trailer,
    b"scan", the scan items) against what the history wrote; returns (check(fields) -> reason | None, size)"""
    vals, size = expected_values(H, info)
    last = len(H.revisions) - 1
    scan = expected_scan(H, info)

    def chk(out):
        if len(out) < size + 2:
            return "the file must load (got %r)" % (out[:1],)
        for n in range(size):
            if vals[n] is None:
                if out[n].startswith(b"!"):
                    return "object %d (auxiliary stream) does not resolve: %s" % (n, out[n][:40])
            elif vals[n] in (b"!FreeObject", b"!NullRef"):
                if out[n] not in (b"!FreeObject", b"!NullRef", b"!UnspecifiedXRefEntry"):
                    return "object %d must be reported free/missing, got %s" % (n, out[n][:60])
            elif out[n] != vals[n]:
                return "object %d: expected %s got %s" % (n, vals[n][:80], out[n][:80])
        tr = out[size]
        if (b"VpRev".hex().encode() + b":i%d" % last) not in tr:
            return "the trailer is not that of the newest section: %s" % tr[:200]
        if out[size + 1] != b"scan":
            return "protocol"
        items = out[size + 2:]
        if len(items) != len(scan):
            return "scan lists %d items, the file has %d before the newest xref section" % (len(items), len(scan))
        for it, ex in zip(items, scan):
            if ex == ("T",):
                if not it.startswith(b"T "):
                    return "scan: expected a trailer item, got %s" % it[:40]
            else:
                head = b"O%d,%d " % (ex[0], ex[1])
                if not it.startswith(head):
                    return "scan: expected object %d %d, got %s" % (ex[0], ex[1], it[:40])
                if ex[2] is not None and it[len(head):] != ex[2]:
                    return "scan: object %d has value %s, expected %s" % (ex[0], it[len(head):][:60], ex[2][:60])
        return None
    return chk, size
