"""tools/oracle/safety_num.py — spec-side builders and oracles for the numeric-parameter sites and tree walks (C14).
Pure stdlib.  Files are written with tools/oracle/pdfwriter.py (valid syntax, correct xref)."""
import struct
from .pdfwriter import Name, Ref, Stream, simple_file, minimal_catalog

N = Name


def f32(x):
    """round a python number to binary32 (returns float; inf if out of range)"""
    try:
        return struct.unpack("<f", struct.pack("<f", float(x)))[0]
    except OverflowError:
        return float("inf") if x > 0 else float("-inf")


# ------------------------------------------------------------------ name / number trees
def tree_file(nodes, root_kind="names", entry=b"Pages"):
    """nodes: {objnum: ("kids", [objnum…]) | ("leaf", n_items)}; object 10 is the tree root.
    root_kind "names": catalog /Names << /<entry> 10 0 R >>; "labels": catalog /PageLabels 10 0 R"""
    objs = minimal_catalog()
    if root_kind == "names":
        objs[1]["Names"] = {entry.decode(): Ref(10)}
    else:
        objs[1]["PageLabels"] = Ref(10)
    for num, (kind, v) in nodes.items():
        if kind == "kids":
            objs[num] = {"Kids": [Ref(k) for k in v]}
        elif root_kind == "names":
            items = []
            for i in range(v):
                items += [b"k%d_%d" % (num, i), i]
            objs[num] = {"Names": items}
        else:
            items = []
            for i in range(v):
                items += [num * 100 + i, {"S": N("D")}]
            objs[num] = {"Nums": items}
    return simple_file(objs)[0]


# ------------------------------------------------------------------ page trees
def page_tree_file(tree):
    """tree: list of nodes, node = "L" | ("T", count, [nodes]); the root /Count is the honest number of leaves"""
    objs = {1: {"Type": N("Catalog"), "Pages": Ref(2)}}
    nxt = [3]

    def leaves(ns):
        return sum(1 if n == "L" else leaves(n[2]) for n in ns)

    def build(num, parent, count, kids):
        refs = []
        d = {"Type": N("Pages"), "Count": count, "Kids": refs}
        if parent is not None:
            d["Parent"] = Ref(parent)
        objs[num] = d
        for k in kids:
            me = nxt[0]
            nxt[0] += 1
            refs.append(Ref(me))
            if k == "L":
                objs[me] = {"Type": N("Page"), "Parent": Ref(num), "MediaBox": [0, 0, 10, 10], "Resources": {}}
            else:
                build(me, num, k[1], k[2])
    build(2, None, leaves(tree), tree)
    return simple_file(objs)[0]


def page_tree_tokens(tree):
    """the same tree for the model: L | T,count,nkids,<kids>"""
    out = []

    def go(n):
        if n == "L":
            out.append("L")
        else:
            out.extend(["T", str(n[1]), str(len(n[2]))])
            for k in n[2]:
                go(k)
    out.append(str(len(tree)))
    for n in tree:
        go(n)
    return ",".join(out).encode()


# ------------------------------------------------------------------ PostScript calculator: exact reference
class PsError(Exception):
    pass


def ps_reference(tokens, inputs, n_out):
    """PostScript Language Reference semantics of the operators pdf-rs implements, on binary32 values.
    Returns a list of floats, raises PsError for stack underflow / range errors / wrong result count.
    Returns None when the run leaves the domain on which the comparison is exact (non-integral or non-finite values)."""
    st = [f32(x) for x in inputs]

    def pop():
        if not st:
            raise PsError("stackunderflow")
        return st.pop()

    def okv(v):
        return v == v and abs(v) != float("inf") and v == int(v)
    for t in tokens:
        if t in ("add", "sub", "mul"):
            b, a = pop(), pop()
            v = f32(a + b if t == "add" else a - b if t == "sub" else a * b)
            if not okv(v):
                return None
            st.append(v)
        elif t == "abs":
            st.append(abs(pop()))
        elif t == "dup":
            v = pop()
            st += [v, v]
        elif t == "exch":
            b, a = pop(), pop()
            st += [b, a]
        elif t == "pop":
            pop()
        elif t == "cvr":
            pass
        elif t == "index":
            n = pop()
            n = 0 if n < 0 else int(n)          # `as usize` saturates; a negative operand is a rangecheck in PostScript,
            if n >= len(st):                    # pdf-rs reads it as 0 (accepted: still an answer, not a crash)
                raise PsError("stackunderflow")
            st.append(st[len(st) - 1 - n])
        elif t == "roll":
            j, n = pop(), pop()
            n = 0 if n < 0 else int(n)
            if n > len(st):
                raise PsError("stackunderflow")
            if n > 0:
                j = int(max(-2 ** 63, min(2 ** 63 - 1, j)))
                k = j % n
                part = st[len(st) - n:]
                st[len(st) - n:] = part[n - k:] + part[:n - k]
        else:
            try:
                v = f32(int(t))
            except ValueError:
                raise PsError("unknown operator " + t)
            if not okv(v):
                return None
            st.append(v)
    if n_out is not None and len(st) != n_out:
        raise PsError("result count")
    return st
