"""tools/oracle/cachedocs.py — specification side of the cache area (C12, C13).

Test documents and what every read call must return *when it runs alone on a document without caches*:
  * Node documents: objects  << /V v /F flags /E0 mask /E1 mask /D [ty ref ty ref …] >>  read by the harness types
    Node<0..2>; the value of a load is a digest of (type, V, outcomes of the nested loads) — `alone_get`.
  * stream / image objects with filter chains: the bytes after the first k filters are known because this
    module encoded them — `StreamObj.stages`.
Digest functions are the ones of harness/src/modes/cache.rs and coq/theories/Cache/Node.v.
"""
import zlib
from . import codecs
from .pdfwriter import Name, Ref, Stream, Obj, Free, Revision, write_file

DMOD = (1 << 61) - 1
E_OTHER, E_NULLREF, E_FREE, E_MISSING = 1, 2, 3, 4

FILTER_CODE = {"ASCIIHexDecode": 1, "ASCII85Decode": 2, "LZWDecode": 3, "RunLengthDecode": 4, "FlateDecode": 5,
               "DCTDecode": 6, "CCITTFaxDecode": 7, "JPXDecode": 8, "JBIG2Decode": 9, "Crypt": 10}
# ISO 32000-1 §7.4: the filters that only change the representation (ASCII / general compression that an
# image consumer wants undone) versus the image codecs whose output is the image itself.
REPRESENTATION_FILTERS = {"ASCIIHexDecode", "ASCII85Decode", "LZWDecode", "RunLengthDecode"}
IMAGE_CODECS = {"DCTDecode", "CCITTFaxDecode", "JPXDecode", "JBIG2Decode", "FlateDecode"}


def dstep(h, x):
    t = (h * 1000003 + x + 1) % DMOD
    return (t * t + t + 7) % DMOD


def digest_bytes(b):
    h = 7
    for x in b:
        h = dstep(h, x)
    return h


def node_digest(ty, v, kids):
    h = dstep(dstep(7, ty), v)
    for k in kids:
        h = dstep(dstep(h, 0 if k[0] == "o" else 1), k[1])
    return h


E_WRONGTYPE, E_PARSE, E_UNLISTED, E_EOF, E_MAXDEPTH = 10, 11, 6, 5, 8
# objects that are no Node dictionaries: what they are in the file, and the error kind of loading them as any Node type
BROKEN = {"array": ([1, 2], E_WRONGTYPE), "int": (42, E_WRONGTYPE), "parse": (Name("BROKENBROKEN"), E_PARSE)}
BROKEN_PLACEHOLDER, BROKEN_BYTES = b"/BROKENBROKEN", b"<< /V ] 12 >>"     # same length: offsets stay valid


class NodeDoc:
    """nodes: {id: dict(v, swallow, e0, e1, deps=[(ty, ref)], lazy=mask (types that do not follow deps), kind=error
    kind of the e0/e1 masks (0 = Other))}; free: ids that are free xref entries; broken: {id: "array"|"int"|"parse"}
    objects that are not Node dictionaries; unlisted: ids beyond the cross-reference table"""

    def __init__(self, nodes, free=(), broken=None, unlisted=(), holder=None, cells=()):
        self.nodes, self.free = nodes, set(free)
        self.broken, self.unlisted = dict(broken or {}), set(unlisted)
        # holder: number of the object  << /L [ty ref ty ref …] >>  whose entries are lazily loaded references
        # (harness type Holder: cell i = Lazy<Node<ty_i>>, as the fonts / annotations of a page); cells = [(ty, ref)]
        self.holder, self.cells = holder, list(cells)

    LAZY = 9          # program item (LAZY, i): load lazy cell i of the holder

    def cells_row(self):
        return " ".join("%d %d" % c for c in self.cells).encode()

    def alone_item(self, ty, r):
        """a program item alone: a typed get, or the load of a lazy cell (= the typed get of what it refers to)"""
        if ty == self.LAZY:
            return self.alone_get(*self.cells[r])
        return self.alone_get(ty, r)

    @staticmethod
    def flags(n):
        return (1 if n["swallow"] else 0) | ((n.get("lazy", 0) & 7) << 1) | (n.get("kind", 0) << 4)

    def rows(self):
        out = []
        for i, n in sorted(self.nodes.items()):
            out.append(" ".join(str(x) for x in [i, n["v"], self.flags(n), n["e0"], n["e1"]] +
                                [y for d in n["deps"] for y in d]))
        # an object that fails as every Node type with kind k: a node whose E0 mask has all three bits
        for i, what in sorted(self.broken.items()):
            out.append("%d 0 %d 7 0" % (i, BROKEN[what][1] << 4))
        for i in sorted(self.unlisted):
            out.append("%d 0 %d 7 0" % (i, E_UNLISTED << 4))
        return "\n".join(out).encode()

    def objects(self):
        objs = {}
        for i, n in self.nodes.items():
            objs[i] = {"V": n["v"], "F": self.flags(n), "E0": n["e0"], "E1": n["e1"],
                       "D": [y for (ty, r) in n["deps"] for y in (ty, Ref(r))]}
        for i, what in self.broken.items():
            objs[i] = BROKEN[what][0]
        if self.holder:
            objs[self.holder] = {"L": [y for (ty, r) in self.cells for y in (ty, Ref(r))]}
        return objs

    def build(self):
        assert len(BROKEN_PLACEHOLDER) == len(BROKEN_BYTES)
        top = max(list(self.nodes) + list(self.free) + list(self.broken) + [3, self.holder or 0])
        assert all(u > top for u in self.unlisted)
        data = build_file(self.objects(), free=self.free)
        return data.replace(BROKEN_PLACEHOLDER, BROKEN_BYTES)

    def all_ids(self):
        return sorted(set(self.nodes) | self.free | set(self.broken) | self.unlisted)

    def alone_get(self, ty, r, chain=()):
        """the answer of get::<Node<ty>>(r) on a cache-free document with the guard stack `chain`"""
        if r in chain:
            return ("e", E_OTHER)              # "Recursive reference"
        if r in self.broken:
            return ("e", BROKEN[self.broken[r]][1])
        if r in self.unlisted:
            return ("e", E_UNLISTED)
        n = self.nodes.get(r)
        if n is None:
            return ("e", E_FREE)
        kind = n.get("kind", 0) or E_OTHER
        if (n["e0"] >> ty) & 1:
            return ("e", kind)
        kids = []
        if not (n.get("lazy", 0) >> ty) & 1:
            for (t2, r2) in n["deps"]:
                a = self.alone_get(t2, r2, chain + (r,))
                if a[0] == "e" and not n["swallow"]:
                    return a
                kids.append(a)
        if (n["e1"] >> ty) & 1:
            return ("e", kind)
        return ("o", node_digest(ty, n["v"], kids))

    def type_dependent(self, r):
        """some type fails and another succeeds (the loads the cache, keyed by the reference only, may confuse)"""
        a = [self.alone_get(ty, r)[0] for ty in range(3)]
        return "e" in a and "o" in a

    def acyclic(self):
        color = {}

        def visit(r):
            if color.get(r) == 1:
                return False
            if color.get(r) == 2:
                return True
            color[r] = 1
            for (_, r2) in self.nodes.get(r, {"deps": []})["deps"]:
                if not visit(r2):
                    return False
            color[r] = 2
            return True
        return all(visit(r) for r in self.nodes)


MASK_KINDS = [E_OTHER, E_NULLREF, E_FREE, E_MISSING, E_EOF, E_UNLISTED, E_MAXDEPTH, E_WRONGTYPE, E_PARSE]


def split_doc(rng, selfloop=False):
    """A document in which, for every error kind, some reference fails with that kind when it is loaded as one type
    and loads when it is loaded as another:
      * through a nested load that only the eager types follow: to a free object, to an object beyond the
        cross-reference table, to an object of the wrong type (an array, an integer), to an object that does
        not parse, [selfloop: to the object itself -> "Recursive reference"];
      * through the type's own check (E0 before / E1 after the nested loads) raising each kind;
    plus parents that load such a reference as two types within one load (swallowing the error, or not)."""
    nodes, broken = {}, {}
    nid = [4]

    def new():
        nid[0] += 1
        return nid[0] - 1
    t_array, t_int, t_parse, t_free = new(), new(), new(), new()
    broken[t_array], broken[t_int], broken[t_parse] = "array", "int", "parse"
    leaf = new()
    nodes[leaf] = dict(v=rng.randrange(1000), swallow=False, e0=0, e1=0, deps=[])
    targets = [("free", t_free), ("array", t_array), ("int", t_int), ("parse", t_parse), ("unlisted", None)]
    parents = []
    lazies = [6, 2, 4, 5, 3, 1]          # which types do not follow the reference
    rng.shuffle(lazies)
    for k, (what, tgt) in enumerate(targets):
        pid = new()
        parents.append((pid, what))
        nodes[pid] = dict(v=rng.randrange(1000), swallow=False, e0=0, e1=0, lazy=lazies[k % len(lazies)],
                          deps=[(rng.randrange(3), leaf), (rng.randrange(3), tgt)])
    if selfloop:
        pid = new()
        nodes[pid] = dict(v=rng.randrange(1000), swallow=False, e0=0, e1=0, lazy=rng.choice([6, 2, 4]),
                          deps=[(0, pid)])
    for kind in MASK_KINDS:
        pid = new()
        early = rng.random() < 0.5
        mask = rng.choice([1, 2, 4, 3, 5, 6])
        nodes[pid] = dict(v=rng.randrange(1000), swallow=False, e0=mask if early else 0, e1=0 if early else mask,
                          kind=kind, deps=[(rng.randrange(3), leaf)] if rng.random() < 0.5 else [])
    # parents that load a type-dependent reference as two or three types within one load
    singles = [i for i in nodes if i != leaf]
    for _ in range(4):
        pid = new()
        tgt = rng.choice(singles)
        tys = rng.sample([0, 1, 2], rng.choice([2, 3]))
        nodes[pid] = dict(v=rng.randrange(1000), swallow=rng.random() < 0.6, e0=0, e1=0, deps=[(ty, tgt) for ty in tys])
    top = nid[0]
    for i, (pid, what) in enumerate(parents):
        if what == "unlisted":
            nodes[pid]["deps"][1] = (nodes[pid]["deps"][1][0], top + 1)
    # a holder whose lazily loaded entries refer to: a leaf, objects with nested loads, references that fail (the
    # cell stays empty and the next load tries again), each as several types
    holder = top
    cand = [leaf] + [pid for (pid, _) in parents] + [i for i in nodes if i not in (leaf,)][-6:] + [t_free, t_array]
    cells = [(rng.randrange(3), r) for r in cand]
    cells += [(ty, parents[0][0]) for ty in range(3)]
    # (a number two beyond the last object: the number right after the table is answered as a free object)
    for i, (pid, what) in enumerate(parents):
        if what == "unlisted":
            nodes[pid]["deps"][1] = (nodes[pid]["deps"][1][0], top + 2)
    return NodeDoc(nodes, free=[t_free], broken=broken, unlisted=[top + 2], holder=holder, cells=cells)


def show(a):
    return ("%s%d" % a).encode()


# ---- streams -----------------------------------------------------------------------------------------------

def encode_with(name, data, rng=None):
    if name == "ASCIIHexDecode":
        return codecs.hex_encode(data)
    if name == "ASCII85Decode":
        return codecs.a85_encode(data)
    if name == "FlateDecode":
        return zlib.compress(data)
    if name == "RunLengthDecode":
        return codecs.rle_encode(data)
    if name == "LZWDecode":
        return codecs.lzw_encode(data, 1)
    # image codecs: the "encoded" form is the payload itself (not a valid image: decoding it is an error)
    return data


class StreamObj:
    """payload encoded through `chain` (names, outermost first as in /Filter); stages[k] = bytes after k filters"""

    def __init__(self, payload, chain, extra=None):
        self.chain = list(chain)
        stages = [payload]
        for name in reversed(self.chain):
            stages.append(encode_with(name, stages[-1]))
        self.stages = list(reversed(stages))        # stages[0] = raw file bytes, stages[n] = payload
        self.extra = dict(extra or {})

    def value(self):
        d = dict(self.extra)
        if len(self.chain) == 1:
            d["Filter"] = Name(self.chain[0])
        elif self.chain:
            d["Filter"] = [Name(c) for c in self.chain]
        return Stream(d, self.stages[0])

    def codes(self):
        return [FILTER_CODE[c] for c in self.chain]

    def decoded(self, k):
        """outcome of applying the first k filters: the real decoders cannot decode the fake image payloads"""
        for i in range(k):
            if self.chain[i] in ("DCTDecode", "JPXDecode", "CCITTFaxDecode", "JBIG2Decode", "Crypt"):
                return ("e", E_OTHER)
        return ("o", digest_bytes(self.stages[k]))

    def split(self):
        """ISO 32000-1 §8.9.5 / §7.4: where an image consumer that wants the codec's input stops"""
        end = len(self.chain)
        for i in range(len(self.chain) - 1, -1, -1):
            if self.chain[i] not in REPRESENTATION_FILTERS:
                end = i
                break
        else:
            end = len(self.chain)
        return end

    def alone_data(self):
        return self.decoded(len(self.chain))

    def alone_raw(self):
        e = self.split()
        rest = self.chain[e:]
        d = self.decoded(e)
        if d[0] == "e":
            return d
        if not rest:
            return ("o", d[1] * 16)
        if len(rest) == 1 and rest[0] in IMAGE_CODECS:
            return ("o", d[1] * 16 + FILTER_CODE[rest[0]])
        return ("e", E_OTHER)

    def alone_image(self):
        e = self.split()
        rest = self.chain[e:]
        d = self.decoded(e)
        if d[0] == "e":
            return d
        if not rest:
            return d
        if len(rest) == 1 and rest[0] == "FlateDecode":
            return ("o", digest_bytes(self.stages[e + 1]))
        if len(rest) == 1 and rest[0] in IMAGE_CODECS:
            return ("e", E_OTHER)          # fake payload / decoder not installed
        return ("e", E_OTHER)

    def model_rows(self, r):
        """rows of the model's tables: stream row, appf rows, imgc rows"""
        srow = "%d 0 %d %s" % (r, digest_bytes(self.stages[0]), " ".join(str(c) for c in self.codes()))
        arows, irows = [], []
        for k, name in enumerate(self.chain):
            din = digest_bytes(self.stages[k])
            out = self.decoded_step(k)
            arows.append("%d %d %d %d" % (FILTER_CODE[name], din, 0 if out[0] == "o" else 1, out[1]))
            irows.append("%d %d %d %d %d" % (r, FILTER_CODE[name], din, 0 if out[0] == "o" else 1, out[1]))
        return srow, arows, irows

    def decoded_step(self, k):
        if self.chain[k] in ("DCTDecode", "JPXDecode", "CCITTFaxDecode", "JBIG2Decode", "Crypt"):
            return ("e", E_OTHER)
        return ("o", digest_bytes(self.stages[k + 1]))


def build_file(objects, free=(), first_extra=None):
    """objects: {num: value}; a minimal catalog occupies 1..3 unless the caller supplies object 1"""
    objs = dict(objects)
    if 1 not in objs:
        objs[1] = {"Type": Name("Catalog"), "Pages": Ref(2)}
        objs[2] = {"Type": Name("Pages"), "Kids": [Ref(3)], "Count": 1}
        objs[3] = {"Type": Name("Page"), "Parent": Ref(2), "MediaBox": [0, 0, 612, 792], "Resources": {}}
    entries = {n: Obj(v) for n, v in objs.items()}
    for n in free:
        entries[n] = Free(gen=1, nxt=0)
    rev = Revision(entries, fmt="table", trailer={"Root": Ref(1)})
    data, _ = write_file([rev])
    return data
