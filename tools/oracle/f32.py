"""tools/oracle/f32.py — exact binary32 rounding of decimal texts and shortest round-trip printing
(what Rust's str::parse::<f32> and `{}` on f32 are documented to do), on Fractions; no floats involved."""
from fractions import Fraction
import re

EMIN, P = -126, 24


def round_f32(q):
    """bits of the binary32 nearest to the non-negative Fraction q (ties to even); overflow -> inf"""
    if q == 0:
        return 0
    # find e with 2^e <= q < 2^(e+1)
    e = q.numerator.bit_length() - q.denominator.bit_length()
    if Fraction(2) ** e > q:
        e -= 1
    if Fraction(2) ** (e + 1) <= q:
        e += 1
    if e < EMIN:
        e = EMIN
    ulp = Fraction(2) ** (e - (P - 1))
    m = q / ulp
    n = m.numerator // m.denominator
    r = m - n
    if r > Fraction(1, 2) or (r == Fraction(1, 2) and n % 2 == 1):
        n += 1
    if n == 1 << P:
        n >>= 1
        e += 1
    if e > 127:
        return 0x7f800000
    if n < (1 << (P - 1)):          # subnormal (e == EMIN)
        return n
    return ((e + 127) << 23) | (n - (1 << (P - 1)))


def dec_to_fraction(txt):
    m = re.fullmatch(r"([+-]?)(\d*)(?:\.(\d*))?", txt)
    if not m or not (m.group(2) or m.group(3)):
        raise ValueError("not a decimal: %r" % txt)
    ip, fp = m.group(2) or "0", m.group(3) or ""
    q = Fraction(int(ip + fp), 10 ** len(fp))
    return m.group(1) == "-", q


def dec_to_bits(txt):
    neg, q = dec_to_fraction(txt)
    return round_f32(q) | (0x80000000 if neg else 0)


def bits_to_fraction(b):
    s, e, m = b >> 31, (b >> 23) & 255, b & 0x7fffff
    if e == 255:
        raise ValueError("not finite")
    v = Fraction(m, 1 << 23) * Fraction(2) ** EMIN if e == 0 else (1 + Fraction(m, 1 << 23)) * Fraction(2) ** (e - 127)
    return bool(s), v


def shortest(bits):
    """Rust's `{}` for a finite f32: the shortest decimal that reads back to the same bits, positional notation"""
    neg, v = bits_to_fraction(bits)
    if v == 0:
        return "-0" if neg else "0"
    mag = bits & 0x7fffffff
    # decimal exponent k with 10^k <= v < 10^(k+1)
    k = len(str(v.numerator)) - len(str(v.denominator))
    while Fraction(10) ** k > v:
        k -= 1
    while Fraction(10) ** (k + 1) <= v:
        k += 1
    for n in range(1, 18):
        scale = Fraction(10) ** (k - n + 1)
        x = v / scale
        lo = x.numerator // x.denominator
        cands = []
        for d in (lo, lo + 1):
            if d == 0:
                continue
            if round_f32(d * scale) == mag:
                cands.append((abs(d * scale - v), -d, d))      # exact ties: Rust's Grisu/Dragon shortest rounds the last digit up
        if cands:
            cands.sort()
            d = cands[0][2]
            digits = str(d)
            exp10 = k - n + 1 + (len(digits) - n)      # d may have n+1 digits (10^n)
            digits = digits.rstrip("0") or "0"
            exp10 += len(str(d)) - len(digits) - (len(str(d)) - n) + (len(str(d)) - n)
            # value = int(digits) * 10^(exp)
            exp = (k - n + 1) + (len(str(d)) - len(digits))
            if exp >= 0:
                s = digits + "0" * exp
            elif -exp < len(digits):
                s = digits[:exp] + "." + digits[exp:]
            else:
                s = "0." + "0" * (-exp - len(digits)) + digits
            return ("-" if neg else "") + s
    raise AssertionError("no shortest representation")
