"""tools/oracle/pdfwriter.py — specification-side PDF file writer (ISO 32000-1 §7.3, §7.5), independent of pdf-rs.

Values:  None, bool, int, float, bytes (string), Name, Ref, list, dict (keys: str), Stream.
A file is a list of revisions; each revision lists entries  num -> Obj | Free | Comp  and is written with a
classic table or a cross-reference stream.  Everything the generators need to vary (EOL style of table
rows, subsection splitting, /W widths, object-stream filters, junk before the header) is a parameter.
"""
import zlib


class Name:
    __slots__ = ("s",)

    def __init__(self, s):
        self.s = s if isinstance(s, bytes) else s.encode("utf-8")

    def __eq__(self, o):
        return isinstance(o, Name) and o.s == self.s

    def __hash__(self):
        return hash(self.s)

    def __repr__(self):
        return "/" + self.s.decode("latin-1")


class Ref:
    __slots__ = ("num", "gen")

    def __init__(self, num, gen=0):
        self.num, self.gen = num, gen

    def __eq__(self, o):
        return isinstance(o, Ref) and (o.num, o.gen) == (self.num, self.gen)

    def __hash__(self):
        return hash((self.num, self.gen))

    def __repr__(self):
        return "%d %d R" % (self.num, self.gen)


class Stream:
    __slots__ = ("d", "data", "raw_len")

    def __init__(self, d, data, raw_len=None):
        self.d, self.data, self.raw_len = dict(d), bytes(data), raw_len   # raw_len: value for /Length (int or Ref); default len(data)

    def __repr__(self):
        return "Stream(%r, %d bytes)" % (self.d, len(self.data))


REGULAR_OK = set(range(33, 127)) - set(b"()<>[]{}/%#")


def ser_name(n):
    out = bytearray(b"/")
    for c in (n.s if isinstance(n, Name) else n.encode("utf-8")):
        if c in REGULAR_OK:
            out.append(c)
        else:
            out += b"#%02X" % c
    return bytes(out)


def ser_string(b):
    out = bytearray(b"(")
    for c in b:
        if c in b"()\\":
            out += b"\\" + bytes([c])
        elif c == 13:
            out += b"\\r"
        elif c == 10:
            out += b"\\n"
        else:
            out.append(c)
    out += b")"
    return bytes(out)


def ser_real(x):
    s = repr(float(x))
    if "e" in s or "E" in s or "inf" in s or "nan" in s:
        s = "%.10f" % x
        s = s.rstrip("0")
        if s.endswith("."):
            s += "0"
    return s.encode()


def ser(v):
    if v is None:
        return b"null"
    if v is True:
        return b"true"
    if v is False:
        return b"false"
    if isinstance(v, int):
        return b"%d" % v
    if isinstance(v, float):
        return ser_real(v)
    if isinstance(v, Name):
        return ser_name(v)
    if isinstance(v, Ref):
        return b"%d %d R" % (v.num, v.gen)
    if isinstance(v, (bytes, bytearray)):
        return ser_string(bytes(v))
    if isinstance(v, (list, tuple)):
        return b"[" + b" ".join(ser(x) for x in v) + b"]"
    if isinstance(v, dict):
        return b"<<" + b" ".join(ser_name(Name(k) if not isinstance(k, Name) else k) + b" " + ser(x) for k, x in v.items()) + b">>"
    if isinstance(v, Stream):
        d = dict(v.d)
        d["Length"] = v.raw_len if v.raw_len is not None else len(v.data)
        return ser(d) + b"\nstream\n" + v.data + b"\nendstream"
    raise TypeError("cannot serialise %r" % (v,))


class Obj:
    def __init__(self, value, gen=0):
        self.value, self.gen = value, gen


class Free:
    def __init__(self, gen=1, nxt=0):
        self.gen, self.nxt = gen, nxt


class Comp:
    """object stored in an object stream of this revision (generation 0 by definition)"""
    def __init__(self, value, stm=None):
        self.value, self.stm = value, stm     # stm: key of the object stream within the revision (default: one per revision)


class Revision:
    def __init__(self, entries, fmt="table", trailer=None, size=None, xref_num=None, objstm_nums=None,
                 eol=b" \n", split=None, w=None, objstm_filter=None, xref_filter=None, objstm_ws=b" ", member_sep=b" ",
                 omit_from_xref=(), objstm_transform=None):
        self.entries = dict(entries)          # num -> Obj | Free | Comp
        self.fmt = fmt                        # "table" | "stream"
        self.trailer = dict(trailer or {})    # extra trailer entries (Root, Info, ID, Encrypt …)
        self.size = size                      # /Size (default: highest number of the whole file so far + 1)
        self.xref_num = xref_num              # object number of the xref stream (fmt == "stream")
        self.objstm_nums = objstm_nums or {}  # stm key -> object number of that object stream
        self.eol = eol                        # two-byte end of a table row: b" \n", b"\r\n", b" \r"
        self.split = split                    # list of numbers at which a new subsection is started although contiguous
        self.w = w                            # (w0, w1, w2) for xref streams
        self.objstm_filter = objstm_filter    # None | "flate" | "hex" | "a85"
        self.xref_filter = xref_filter        # None | "flate"
        self.objstm_ws = objstm_ws            # white-space between the header pairs
        self.member_sep = member_sep          # bytes between members in the object stream body (may be b"")
        self.omit_from_xref = set(omit_from_xref)
        self.objstm_transform = objstm_transform   # optional callable(num, Stream) -> Stream (e.g. encryption of the object stream)


def encode_filter(name, data):
    from . import codecs
    if name is None:
        return data, None
    if name == "flate":
        return zlib.compress(data), Name("FlateDecode")
    if name == "hex":
        return codecs.hex_encode(data), Name("ASCIIHexDecode")
    if name == "a85":
        return codecs.a85_encode(data), Name("ASCII85Decode")
    raise ValueError(name)


def subsections(nums, split):
    """contiguous runs of sorted numbers, additionally cut before any number in `split`"""
    runs = []
    for n in nums:
        if runs and runs[-1][-1] + 1 == n and not (split and n in split):
            runs[-1].append(n)
        else:
            runs.append([n])
    return runs


def write_file(revisions, header=b"%PDF-1.7\n", prefix=b"", binary_comment=True, final_eol=b"\n"):
    """returns (bytes, info) where info = {"offsets": {(num, gen): offset relative to header}, "startxrefs": [...]}
    Offsets written into the file are relative to the header (i.e. `prefix` is ignored), as the PDF
    specification (implementation note on junk before the header) and the property C17 require."""
    out = bytearray(prefix)
    base = len(prefix)
    out += header
    if binary_comment:
        out += b"%\xe2\xe3\xcf\xd3\n"
    info = {"offsets": {}, "startxrefs": [], "objstm": {}, "revisions": []}
    prev = None
    max_num = 0
    for rev in revisions:
        # ---- object streams of this revision
        groups = {}
        for num, e in sorted(rev.entries.items()):
            if isinstance(e, Comp):
                groups.setdefault(e.stm, []).append((num, e.value))
        comp_loc = {}
        extra = {}
        next_free_num = max([max_num] + list(rev.entries) + [v for v in rev.objstm_nums.values()] + ([rev.xref_num] if rev.xref_num else [])) + 1
        for key, members in groups.items():
            snum = rev.objstm_nums.get(key)
            if snum is None:
                snum = next_free_num
                next_free_num += 1
            body = bytearray()
            pairs = []
            for i, (num, val) in enumerate(members):
                pairs.append((num, len(body)))
                body += ser(val)
                if i + 1 < len(members) or rev.member_sep in (b"\n", b" \n"):
                    body += rev.member_sep
                comp_loc[num] = (snum, i)
            head = rev.objstm_ws.join(b"%d%s%d" % (n, rev.objstm_ws, o) for n, o in pairs) + b"\n"
            data, fname = encode_filter(rev.objstm_filter, bytes(head) + bytes(body))
            d = {"Type": Name("ObjStm"), "N": len(members), "First": len(head)}
            if fname:
                d["Filter"] = fname
            st = Stream(d, data)
            if rev.objstm_transform is not None:
                st = rev.objstm_transform(snum, st)
            extra[snum] = Obj(st)
            info["objstm"][snum] = [n for n, _ in members]
        # ---- bodies
        table = {}       # num -> ("n", off, gen) | ("f", nxt, gen) | ("c", stm, idx)
        allobjs = dict(rev.entries)
        allobjs.update(extra)
        for num in sorted(allobjs):
            e = allobjs[num]
            if isinstance(e, Obj):
                off = len(out) - base
                info["offsets"][(num, e.gen)] = off
                out += b"%d %d obj\n" % (num, e.gen) + ser(e.value) + b"\nendobj\n"
                table[num] = ("n", off, e.gen)
            elif isinstance(e, Free):
                table[num] = ("f", e.nxt, e.gen)
            else:
                table[num] = ("c",) + comp_loc[num]
        for n in rev.omit_from_xref:
            table.pop(n, None)
        max_num = max([max_num] + list(allobjs))
        if prev is None and 0 not in table:
            table[0] = ("f", 0, 65535)
        tr = dict(rev.trailer)
        if prev is not None:
            tr["Prev"] = prev
        if rev.fmt == "table":
            if any(t[0] == "c" for t in table.values()):
                raise ValueError("compressed objects need an xref stream")
            size = rev.size if rev.size is not None else max_num + 1
            tr["Size"] = size
            xoff = len(out) - base
            out += b"xref\n"
            for run in subsections(sorted(table), rev.split):
                out += b"%d %d\n" % (run[0], len(run))
                for n in run:
                    t = table[n]
                    out += b"%010d %05d %s" % (t[1], t[2], t[0].encode()) + rev.eol
            out += b"trailer\n" + ser(tr) + b"\nstartxref\n%d\n%%%%EOF" % xoff + final_eol
        else:
            xnum = rev.xref_num if rev.xref_num is not None else next_free_num
            max_num = max(max_num, xnum)
            size = rev.size if rev.size is not None else max_num + 1
            xoff = len(out) - base
            table[xnum] = ("n", xoff, 0)
            info["offsets"][(xnum, 0)] = xoff
            w = rev.w or (1, max(1, (max(t[1] for t in table.values()).bit_length() + 7) // 8), 2)
            rows = bytearray()
            index = []
            for run in subsections(sorted(table), rev.split):
                index += [run[0], len(run)]
                for n in run:
                    t = table[n]
                    ty = {"f": 0, "n": 1, "c": 2}[t[0]]
                    f2, f3 = (t[1], t[2])
                    if w[0]:
                        rows += ty.to_bytes(w[0], "big")
                    elif ty != 1:
                        raise ValueError("w0 = 0 can only describe type-1 entries")
                    rows += f2.to_bytes(w[1], "big") + (f3.to_bytes(w[2], "big") if w[2] else b"")
            data, fname = encode_filter(rev.xref_filter, bytes(rows))
            d = dict(tr)
            d.update({"Type": Name("XRef"), "Size": size, "W": list(w), "Index": index})
            if fname:
                d["Filter"] = fname
            out += b"%d 0 obj\n" % xnum + ser(Stream(d, data)) + b"\nendobj\n"
            out += b"startxref\n%d\n%%%%EOF" % xoff + final_eol
        info["startxrefs"].append(xoff)
        info["revisions"].append({"table": dict(table), "size": size})
        prev = xoff
    return bytes(out), info


# -------------------------------------------------------------------------------------------------
# convenience: a minimal well-formed document around a set of extra objects

def minimal_catalog(pages_kids=None, first=1):
    """objects {num: value} for Catalog (first), Pages (first+1) and one empty page (first+2)"""
    cat, pages, page = first, first + 1, first + 2
    return {
        cat: {"Type": Name("Catalog"), "Pages": Ref(pages)},
        pages: {"Type": Name("Pages"), "Kids": [Ref(page)], "Count": 1},
        page: {"Type": Name("Page"), "Parent": Ref(pages), "MediaBox": [0, 0, 612, 792], "Resources": {}},
    }


def simple_file(objects, root=1, fmt="table", info=None, **kw):
    """one revision, all objects direct"""
    tr = {"Root": Ref(root)}
    if info is not None:
        tr["Info"] = Ref(info)
    rev = Revision({n: Obj(v) for n, v in objects.items()}, fmt=fmt, trailer=tr, **kw)
    return write_file([rev])
