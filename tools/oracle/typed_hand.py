"""tools/oracle/typed_hand.py — specification oracles and boundary-value generators for EVERY hand-written
`Object`/`ObjectWrite` pair of the crate (grep `impl ObjectWrite for` in pdf/src), used by props/C15.

For each type: (a) the written form the standard defines for the value an input denotes (`expected`), written from
ISO 32000-1 — not from the code; (b) generators that hit the boundary of every field; (c) the plugin judges two-sidedly
(sentence 1 of C15): the written form of the value read equals `expected` (= the input itself when the input is in the
writer's image) and the second write equals the first.

A hand case is a tuple (type name, input primitive, objects 1..n, expected written primitive | None, tags, kind):
  expected ANY   = only stability is demanded (second write = first) — used where the input is outside the standard
  kind: 'image' (input in the writer's image: expected == input), 'norm' (another legal spelling of the same value),
        'malformed' (outside the standard: judged against the Coq model only, where there is one)
"""
import struct

from .pdfwriter import Name, Ref, Stream

I32_MIN, I32_MAX = -2147483648, 2147483647
ANY = type("Any", (), {"__repr__": lambda self: "ANY"})()     # expected form: only stability is demanded


def real(x):
    """the real number of equal value at binary32 precision (what a typed f32 field holds)"""
    return struct.unpack(">f", struct.pack(">f", float(x)))[0]


def bits(b):
    return struct.unpack(">f", struct.pack(">I", b))[0]


def sort_keys(v):
    if isinstance(v, Stream):
        d = dict(v.d)
        d["Length"] = v.raw_len if v.raw_len is not None else len(v.data)
        return Stream(sort_keys(d), v.data, v.raw_len)
    if isinstance(v, dict):
        return {k: sort_keys(v[k]) for k in sorted(v)}
    if isinstance(v, list):
        return [sort_keys(x) for x in v]
    return v


# ------------------------------------------------------------------------------------------------ Encoding (9.6.6.1)

BASE_ENCODINGS = ["StandardEncoding", "SymbolEncoding", "MacRomanEncoding", "WinAnsiEncoding", "MacExpertEncoding", "Identity-H", "None"]
GLYPHS = ["space", "exclam", "A", "Adieresis", "dotlessi", "caron", "ring", "Euro", "bullet", "a", "quotesingle", "grave", "fi", ".notdef"]


def differences_read(arr):
    """ISO 32000-1 9.6.6.1 Table 114: a code, then the names of consecutive codes; a later entry replaces an earlier"""
    m, code = {}, 0
    for x in arr:
        if isinstance(x, Name):
            m[code] = x
            code += 1
        else:
            code = x
    return m


def differences_write(m):
    """the run-length form: each maximal run of consecutive codes is its first code followed by the names"""
    out, last = [], None
    for c in sorted(m):
        if last is None or c != last + 1:
            out.append(c)
        out.append(m[c])
        last = c
    return out


def encoding_expected(base, m):
    """written form of an encoding (base: predefined name or None = the font's built-in encoding, which this library
    spells /None — recorded in DESIGN.md §12.C15 as an observation, not judged)"""
    b = Name(base if base is not None else "None")
    if not m:
        return b
    return {"BaseEncoding": b, "Differences": differences_write(m)}


def encoding_cases(rng, n):
    """(input, objs, expected, tags, kind)"""
    names = lambda k: [Name(rng.choice(GLYPHS)) for _ in range(k)]
    out = []

    def add(base, arr, tag, kind="image", extra=None, objs=None, wrap=None):
        d = {}
        if base is not None:
            d["BaseEncoding"] = Name(base)
        if arr is not None:
            d["Differences"] = arr
        if extra:
            d.update(extra)
        m = differences_read(arr or [])
        exp = encoding_expected(base, m)
        p = d if wrap is None else wrap(d)
        if kind == "image" and (base is None or sort_keys(exp) != sort_keys(d)):
            kind = "norm"
        out.append((p, objs or [], exp, ["enc:" + tag], kind))

    bases = BASE_ENCODINGS + ["FooEncoding"]
    # every predefined name on its own (name form) and as the base of a one-entry table
    for b in bases:
        out.append((Name(b), [], Name(b), ["enc:name"], "image"))
        add(b, [65, Name("A")], "base:" + b)
    add(None, [65, Name("A")], "base-absent")
    add(None, None, "empty-dict")
    add("WinAnsiEncoding", None, "no-differences")
    add("WinAnsiEncoding", [], "empty-table")
    # first code of the table at every boundary; the code right after; the last code
    for first in (0, 1, 2, 3, 127, 128, 254, 255):
        for ln in (1, 2, 3):
            if first + ln - 1 <= 255:
                add(rng.choice(bases[:4]), [first] + names(ln), "first:%d" % first)
    # two runs: adjacent (the second code is redundant: another spelling), gap of one, gap of many, ending at 255
    for a, la, b, lb in ((0, 1, 1, 1), (1, 1, 2, 1), (1, 2, 3, 1), (0, 1, 2, 1), (1, 1, 3, 2), (1, 2, 5, 1), (5, 1, 1, 2), (250, 3, 255, 1),
                         (0, 2, 254, 2), (10, 1, 10, 1), (10, 2, 11, 2), (255, 1, 0, 1), (1, 1, 0, 1), (2, 1, 1, 1)):
        add(rng.choice(bases[:4]), [a] + names(la) + [b] + names(lb), "runs:%d+%d,%d+%d" % (a, la, b, lb))
    # single-entry runs only; names before any code (counting from 0); a code without names; the whole table
    add("MacRomanEncoding", sum(([c, Name("a")] for c in (1, 3, 5, 7, 255)), []), "singles")
    add("MacRomanEncoding", sum(([c, Name("a")] for c in (0, 2, 4)), []), "singles0")
    add("StandardEncoding", names(3), "no-leading-code")
    add("StandardEncoding", [7, 9] + names(2), "code-without-names")
    add("StandardEncoding", [9] + names(1) + [200], "trailing-code")
    add("WinAnsiEncoding", [0] + [Name("g%d" % i) for i in range(256)], "full-table")
    add("WinAnsiEncoding", [1] + [Name("g%d" % i) for i in range(255)], "full-table-from-1")
    # other legal spellings: /Type, an indirect /Differences, the whole dictionary indirect
    add("WinAnsiEncoding", [1] + names(2), "type-entry", extra={"Type": Name("Encoding")})
    arr = [1] + names(2) + [5] + names(1)
    out.append(({"BaseEncoding": Name("WinAnsiEncoding"), "Differences": Ref(1)}, [arr],
                encoding_expected("WinAnsiEncoding", differences_read(arr)), ["enc:indirect-differences"], "norm"))
    out.append((Ref(1), [{"BaseEncoding": Name("WinAnsiEncoding"), "Differences": arr}],
                encoding_expected("WinAnsiEncoding", differences_read(arr)), ["enc:indirect"], "norm"))
    # random tables
    for _ in range(n):
        arr = []
        for _ in range(rng.randrange(1, 5)):
            if rng.random() < 0.9 or not arr:
                arr.append(rng.choice([0, 1, 2, 254, 255, rng.randrange(256), rng.randrange(256)]))
            arr += names(rng.randrange(0, 4))
        add(rng.choice(bases + [None]), arr, "random")
    # outside the standard (codes beyond one byte, negative, other element kinds): model comparison only
    for arr in ([256, Name("a")], [65535, Name("a"), Name("b")], [I32_MAX, Name("a")], [-1, Name("a"), Name("b")], [I32_MIN, Name("a")],
                [1, Name("a"), 2.5], [1, b"s"], [None], [[1]]):
        out.append(({"BaseEncoding": Name("WinAnsiEncoding"), "Differences": arr}, [], ANY, ["enc:out-of-range"], "malformed"))
    for p in (None, 7, b"x", [], {"BaseEncoding": 7}, {"Differences": 7}, {"Differences": Name("x")}, Ref(9), Ref(1)):
        out.append((p, [Ref(1)], ANY, ["enc:ill-typed"], "malformed"))
    return out


# ------------------------------------------------------------------------------------------------ numbers, Rectangle, Matrix

F32_BOUNDS = [0.0, bits(0x80000000), bits(0x00000001), bits(0x7f7fffff), bits(0xff7fffff), 0.5, -0.25, 1e-3, 612.0, 3e9, 16777216.0]
INT_BOUNDS = [0, 1, -1, I32_MAX, I32_MIN, 16777217, -16777217, 255, 256]


def number(rng):
    return rng.choice(F32_BOUNDS) if rng.random() < 0.5 else rng.choice(INT_BOUNDS)


def numbers_cases(rng, k, n, extra_ok=False):
    out = []
    for v in F32_BOUNDS + INT_BOUNDS:
        arr = [v] + [rng.choice([0, 1.5]) for _ in range(k - 1)]
        rng.shuffle(arr)
        out.append((arr, [], [real(x) for x in arr], ["num:boundary"], "image" if all(isinstance(x, float) for x in arr) else "norm"))
    for _ in range(n):
        arr = [number(rng) for _ in range(k)]
        out.append((arr, [], [real(x) for x in arr], ["num:random"], "image" if all(isinstance(x, float) for x in arr) else "norm"))
    arr = [number(rng) for _ in range(k)]
    out.append((Ref(1), [arr], [real(x) for x in arr], ["num:indirect"], "norm"))
    if extra_ok:        # content.rs: the matrix reader takes the first six numbers
        arr = [number(rng) for _ in range(k + 2)]
        out.append((arr, [], ANY, ["num:extra"], "malformed"))
    for p in ([], [1] * (k - 1), [1] * (k + 1) if not extra_ok else [Name("a")] * k, [1] * (k - 1) + [Name("x")], None, 5, {}):
        out.append((p, [], ANY, ["num:ill-typed"], "malformed"))
    return out


# ------------------------------------------------------------------------------------------------ Date (7.9.4)

def date_parse(s):
    """D:YYYYMMDDHHmmSSOHH'mm — fields after the year optional (defaults 01 01 00 00 00), O in + - Z (absent: unknown,
    which this model spells Z), apostrophe after mm optional (PDF 1.7) or absent (PDF 2.0)"""
    t = s[2:].decode("ascii")
    pos = min([t.index(c) for c in "+-Z" if c in t] or [len(t)])
    body, zone = t[:pos], t[pos:]
    vals = [int(body[:4])] + [int(body[i:i + 2]) for i in range(4, len(body), 2)]
    vals += [1, 1, 0, 0, 0][len(vals) - 1:]
    o, hh, mm = "Z", 0, 0
    if zone:
        o = zone[0]
        z = zone[1:].replace("'", " ").split()
        hh = int(z[0]) if len(z) > 0 else 0
        mm = int(z[1]) if len(z) > 1 else 0
    return vals, o, hh, mm


def date_expected(s):
    vals, o, hh, mm = date_parse(s)
    return ("D:%04d%02d%02d%02d%02d%02d%s%02d'%02d" % (tuple(vals) + (o, hh, mm))).encode()


def date_cases(rng, n):
    out = []

    def add(s, tag):
        s = s.encode() if isinstance(s, str) else s
        e = date_expected(s)
        out.append((s, [], e, ["date:" + tag], "image" if e == s else "norm"))
    # every field at its first and last value, one at a time
    base = [2020, 6, 15, 12, 30, 30]
    lims = [(0, 9999), (1, 12), (1, 31), (0, 23), (0, 59), (0, 59)]
    for i, (lo, hi) in enumerate(lims):
        for v in (lo, hi):
            f = list(base)
            f[i] = v
            add("D:%04d%02d%02d%02d%02d%02d" % tuple(f) + "Z00'00", "field%d=%d" % (i, v))
    # truncated forms (every prefix), with and without a zone
    full = "%04d%02d%02d%02d%02d%02d" % tuple(base)
    for ln in (4, 6, 8, 10, 12, 14):
        add("D:" + full[:ln], "prefix%d" % ln)
        add("D:" + full[:ln] + "+05'30'", "prefix%d-zone" % ln)
    # zone: sign, hours 00/23, minutes 00/59, every apostrophe convention
    for z in ("Z", "Z00'00'", "Z00'00", "+00'00'", "-00'00'", "+23'59'", "-23'59", "+01", "-01'", "+12'00", "-12'30'"):
        add("D:" + full + z, "zone:" + z)
    for _ in range(n):
        f = [rng.randint(lo, hi) for lo, hi in lims]
        z = rng.choice(["", "Z", "+%02d'%02d'" % (rng.randint(0, 23), rng.randint(0, 59)), "-%02d'%02d" % (rng.randint(0, 23), rng.randint(0, 59))])
        add("D:%04d%02d%02d%02d%02d%02d" % tuple(f) + z, "random")
    s = b"D:19991231235959-08'00"
    out.append((Ref(1), [s], date_expected(s), ["date:indirect"], "norm"))
    return out


# ------------------------------------------------------------------------------------------------ destinations, actions (12.3.2, 12.6)

def num_or_null(rng):
    return rng.choice([None, 0, 1, -5, 612, 0.5, 100.25, I32_MAX])


def dest_array(rng, view=None):
    """-> (input array, expected written array)"""
    page = rng.choice([Ref(rng.randint(1, 30), rng.choice([0, 0, 1])), None])
    view = view or rng.choice(["XYZ", "XYZ4", "Fit", "FitH", "FitV", "FitR", "FitB", "FitBH"])
    num = lambda: rng.choice([0, 1, -5, 612, 0.5, 100.25, I32_MAX, I32_MIN, bits(0x7f7fffff)])
    if view == "XYZ":
        l, t, z = num_or_null(rng), num_or_null(rng), num_or_null(rng)
        r = lambda x: None if x is None else real(x)
        return [page, Name("XYZ"), l, t, z], [page, Name("XYZ"), r(l), r(t), real(z or 0)]
    if view == "XYZ4":      # the zoom left out: "null = unchanged"
        l, t = num_or_null(rng), num_or_null(rng)
        r = lambda x: None if x is None else real(x)
        return [page, Name("XYZ"), l, t], [page, Name("XYZ"), r(l), r(t), 0.0]
    if view in ("Fit", "FitB"):
        return [page, Name(view)], [page, Name(view)]
    if view in ("FitH", "FitV", "FitBH"):
        x = num()
        return [page, Name(view), x], [page, Name(view), real(x)]
    xs = [num() for _ in range(4)]
    return [page, Name("FitR")] + xs, [page, Name("FitR")] + [real(x) for x in xs]


def dest_cases(rng, n):
    out = []
    views = ["XYZ", "XYZ4", "Fit", "FitH", "FitV", "FitR", "FitB", "FitBH"]
    for i in range(n + 3 * len(views)):
        a, e = dest_array(rng, views[i % len(views)] if i < 3 * len(views) else None)
        k = "image" if sort_keys(a) == sort_keys(e) and all(not isinstance(x, int) or isinstance(x, bool) for x in a) else "norm"
        out.append(("Dest", a, [], e, ["dest:" + str(a[1])], k))
        out.append(("MaybeNamedDest", a, [], e, ["dest:" + str(a[1])], k))
        out.append(("Action", {"S": Name("GoTo"), "D": a}, [], {"S": Name("GoTo"), "D": e}, ["action:goto-explicit"], k))
        if i % 4 == 0:      # the dictionary form of a destination (12.3.2.3, value of a /Dests entry) and an indirect array
            out.append(("Dest", {"D": a}, [], e, ["dest:dict-form"], "norm"))
            out.append(("MaybeNamedDest", {"D": a}, [], e, ["dest:dict-form"], "norm"))
            out.append(("Dest", Ref(1), [a], e, ["dest:indirect"], "norm"))
    for s in (b"", b"chapter1", bytes(range(256))):
        out.append(("MaybeNamedDest", s, [], s, ["dest:named"], "image"))
        out.append(("Action", {"S": Name("GoTo"), "D": s}, [], {"S": Name("GoTo"), "D": s}, ["action:goto-named"], "image"))
    for d in ({"S": Name("URI"), "URI": b"http://example.org/"}, {"S": Name("Named"), "N": Name("NextPage")}, {"Type": Name("Action"), "S": Name("JavaScript"), "JS": b"1"},
              {"S": Name("Launch"), "F": {"F": b"x"}, "Next": [{"S": Name("URI"), "URI": b"u"}]}, {"S": Name("GoToR"), "D": [0, Name("Fit")], "F": b"o.pdf"}):
        out.append(("Action", d, [], d, ["action:other"], "image"))
        out.append(("Action", Ref(1), [d], d, ["action:indirect"], "norm"))
    for p in ([], [Ref(1)], [Ref(1), Name("Nope")], [Ref(1), Name("FitH")], [Ref(1), Name("XYZ"), 1], [Ref(1), Name("FitR"), 1, 2, 3], 5, None, {"X": 1}):
        out.append(("Dest", p, [], ANY, ["dest:ill-typed"], "malformed"))
    return out


# ------------------------------------------------------------------------------------------------ name trees, number trees (7.9.6, 7.9.7)

def tree_cases(rng, n, number, value, tname):
    """leaf / intermediate / root forms of one node, as read: /Limits, /Names|/Nums, /Kids"""
    out = []
    key = (lambda: rng.choice([0, 1, -1, I32_MAX, I32_MIN, rng.randint(-50, 50)])) if number else \
          (lambda: rng.choice([b"", b"a", b"zz", bytes([0, 255, 40, 41, 92]), bytes(rng.randrange(256) for _ in range(3))]))
    K = "Nums" if number else "Names"
    lim = (lambda: [rng.choice([I32_MIN, 0, 5]), rng.choice([5, I32_MAX])]) if number else (lambda: [rng.choice([b"", b"a"]), rng.choice([b"z", b"\xff\xff"])])

    def add(d, tag, kind="image", exp="same", objs=None):
        out.append((tname, d, objs or [], d if exp == "same" else exp, ["tree:" + tag], kind))
    for npairs in (0, 1, 2, 5):
        pairs = sum(([key(), value()] for _ in range(npairs)), [])
        add({K: pairs}, "leaf%d" % npairs)
        add({"Limits": lim(), K: pairs}, "leaf%d-limits" % npairs)
    for nk in (0, 1, 3):
        kids = [Ref(rng.randint(1, 40), rng.choice([0, 0, 2])) for _ in range(nk)]
        add({"Kids": kids}, "kids%d" % nk)
        add({"Limits": lim(), "Kids": kids}, "kids%d-limits" % nk)
    for _ in range(n):
        pairs = sum(([key(), value()] for _ in range(rng.randrange(4))), [])
        d = {K: pairs}
        if rng.random() < 0.5:
            d["Limits"] = lim()
        add(d, "random")
    pairs = [key(), value(), key(), value()]
    add(Ref(1), "indirect", "norm", {K: pairs}, [{K: pairs}])
    lim0 = lim()
    add({"Limits": Ref(1), K: pairs}, "indirect-limits", "norm", {"Limits": lim0, K: pairs}, [lim0])
    # outside the standard: neither /Kids nor /Names, both, an odd number of elements
    add({}, "neither", "malformed", ANY)
    add({"Kids": [Ref(3)], K: pairs}, "both", "malformed", ANY)
    add({K: pairs + [key()]}, "odd", "malformed", ANY)
    add({"Limits": [1], K: pairs}, "limits-short", "malformed", ANY)
    add({K: 5}, "ill-typed", "malformed", ANY)
    return out


# ------------------------------------------------------------------------------------------------ colour spaces (8.6)

def colorspace_cases(rng, n):
    """writable by the library: DeviceRGB, DeviceCMYK, Indexed over those (8.6.6.3: hival 0..255, lookup a string or a
    stream).  The other families are read but their writer is `unimplemented!()`: tagged cs:unwritable."""
    out = []
    for nm in ("DeviceRGB", "DeviceCMYK"):
        out.append((Name(nm), [], Name(nm), ["cs:" + nm], "image"))
        out.append((Ref(1), [Name(nm)], Name(nm), ["cs:indirect"], "norm"))

    def lookup_form(data):
        return bytes(data) if len(data) < 100 else Stream({}, data)

    def indexed(base, exp_base, hival, data, as_stream=None, tag=""):
        inp_l = Stream({}, data) if (as_stream if as_stream is not None else len(data) >= 100) else bytes(data)
        exp_l = lookup_form(data)
        tags = ["cs:indexed" + tag] + (["class:stream-direct"] if isinstance(exp_l, Stream) else [])
        a = [Name("Indexed"), base, hival, inp_l]
        e = [Name("Indexed"), exp_base, hival, exp_l]
        out.append((a, [], e, tags, "image" if type(inp_l) is type(exp_l) and base == exp_base else "norm"))
    for hival in (0, 1, 127, 254, 255):
        for ln in (0, 1, 3 * (hival + 1)):
            indexed(Name("DeviceRGB"), Name("DeviceRGB"), hival, bytes(rng.randrange(256) for _ in range(ln)), tag=":hival%d" % hival)
    for ln in (98, 99, 100, 101, 768):           # the writer's switch from a string to a stream
        data = bytes(rng.randrange(256) for _ in range(ln))
        indexed(Name("DeviceCMYK"), Name("DeviceCMYK"), 255, data, tag=":len%d" % ln)
        indexed(Name("DeviceCMYK"), Name("DeviceCMYK"), 255, data, as_stream=(ln < 100), tag=":len%d-other-form" % ln)
    out.append(([Name("Indexed"), Ref(1), 3, Ref(2)], [Name("DeviceRGB"), b"\x00" * 12], [Name("Indexed"), Name("DeviceRGB"), 3, b"\x00" * 12], ["cs:indexed-indirect"], "norm"))
    inner = [Name("Indexed"), Name("DeviceRGB"), 1, b"abcdef"]
    out.append(([Name("Indexed"), inner, 1, b"\x00\x01"], [], [Name("Indexed"), inner, 1, b"\x00\x01"], ["cs:indexed-nested"], "image"))
    for _ in range(n):
        hival = rng.randrange(256)
        indexed(Name(rng.choice(["DeviceRGB", "DeviceCMYK"])), None, hival, bytes(rng.randrange(256) for _ in range(rng.choice([0, 3, 50, 99, 100, 300]))), tag=":random")
        a = out[-1]
        out[-1] = (a[0], a[1], [a[2][0], a[0][1], a[2][2], a[2][3]], a[3], a[4] if a[4] == "norm" else "image")
    fn = {"FunctionType": 2, "Domain": [0, 1], "C0": [0], "C1": [1], "N": 1}
    for p, t in ((Name("DeviceGray"), "DeviceGray"), (Name("Pattern"), "Pattern"), (Name("Cs1"), "Named"), ([Name("CalGray"), {"WhitePoint": [1, 1, 1]}], "CalGray"),
                 ([Name("CalRGB"), {"WhitePoint": [1, 1, 1]}], "CalRGB"), ([Name("Lab"), {"WhitePoint": [1, 1, 1]}], "Other"), ([Name("Pattern"), Name("DeviceRGB")], "Pattern"),
                 ([Name("Separation"), Name("Spot"), Name("DeviceCMYK"), fn], "Separation"), ([Name("DeviceN"), [Name("a")], Name("DeviceCMYK"), fn], "DeviceN"),
                 ([Name("Indexed"), Name("DeviceGray"), 1, b"ab"], "Indexed-over-DeviceGray")):
        out.append((p, [], p, ["cs:unwritable", "cs:" + t], "image"))
    for p in ([Name("Indexed"), Name("DeviceRGB"), 256, b""], [Name("Indexed"), Name("DeviceRGB"), -1, b""], [Name("Indexed"), Name("DeviceRGB")], [], [5], 5, None,
              [Name("Indexed"), Name("DeviceRGB"), 1, 7]):
        out.append((p, [], ANY, ["cs:ill-typed"], "malformed"))
    return out


def function_cases(rng):
    """7.10: read as typed functions; the writer is `unimplemented!()`"""
    out = []
    for d in ({"FunctionType": 2, "Domain": [0, 1], "C0": [0], "N": 1}, {"FunctionType": 2, "Domain": [0, 1], "C0": [0, 0, 0], "C1": [1, 0.5, 0], "N": 2.5, "Range": [0, 1, 0, 1, 0, 1]}):
        out.append((d, [], d, ["fn:unwritable", "fn:type2"], "image"))
    s = Stream({"FunctionType": 4, "Domain": [0, 1], "Range": [0, 1]}, b"{ 2 mul }")
    out.append((s, [], s, ["fn:unwritable", "fn:type4"], "image"))
    s = Stream({"FunctionType": 0, "Domain": [0, 1], "Range": [0, 1], "Size": [2], "BitsPerSample": 8}, b"\x00\xff")
    out.append((s, [], s, ["fn:unwritable", "fn:type0"], "image"))
    return out


# ------------------------------------------------------------------------------------------------ streams as values

def cid_to_gid_cases(rng):
    """9.7.4 Table 117 /CIDToGIDMap: the name /Identity, or a stream of big-endian 16-bit glyph indices"""
    out = [(Name("Identity"), [], Name("Identity"), ["cidmap:identity"], "image")]
    for data in (b"", b"\x00\x00", b"\xff\xff", b"\x00\x01\xff\xfe", bytes(rng.randrange(256) for _ in range(64))):
        s = Stream({}, data)
        out.append((s, [], s, ["cidmap:table%d" % len(data), "class:stream-direct"], "image"))
        out.append((Ref(1), [s], s, ["cidmap:indirect", "class:stream-direct"], "norm"))
    out.append((Stream({}, b"\x00\x01\x02"), [], Stream({}, b"\x00\x01"), ["cidmap:odd", "class:stream-direct"], "malformed"))
    for p in (Name("Other"), 5, None, {}):
        out.append((p, [], ANY, ["cidmap:ill-typed"], "malformed"))
    return out


def scalar_cases(rng):
    """object/mod.rs, primitive.rs: the leaf types and wrappers, (type, input, objs, expected, tags, kind)"""
    out = []

    def add(t, p, exp="same", kind="image", objs=None, tag=""):
        out.append((t, p, objs or [], p if exp == "same" else exp, ["leaf:" + t + tag], kind))
    for v in INT_BOUNDS:
        add("i32", v)
        add("Box<i32>", v)
        add("Option<i32>", v)
        add("MaybeRef<i32>", v)
        add("Vec<i32>", v, [v], "norm")
        if v >= 0:
            add("u32", v)
            add("usize", v)
            add("Vec<u32>", [v, 0, v])
        else:
            add("u32", v, ANY, "malformed")
            add("usize", v, ANY, "malformed")
        add("f32", v, real(v), "norm")
        add("(i32,Name)", [v, Name("a")])
        add("(f32,f32)", [v, 1], [real(v), 1.0], "norm")
        add("HashMap<Name,i32>", {"a": v, "Zz": 0})
    add("i32", Ref(1), 7, "norm", [7])
    add("i32", Ref(1, 1), 7, "norm", [7], ":gen1")
    add("MaybeRef<i32>", Ref(1), Ref(1), "image", [7])
    add("MaybeRef<i32>", Ref(1, 0), Ref(1, 0), "image", [-1])
    for v in (2.5, Name("a"), None, True, b"s", [1], {}):
        add("i32", v, ANY, "malformed")
    for v in F32_BOUNDS + [bits(0x7f800000), bits(0xff800000)]:
        add("f32", v)
        add("Vec<f32>", [v, v])
        add("(f32,f32)", [v, 0.5])
    add("f32", Ref(1), 0.5, "norm", [0.5])
    add("Vec<f32>", [], [])
    add("Vec<f32>", None, [], "norm")
    add("Vec<f32>", Ref(1), [1.0, 2.0], "norm", [[1, 2.0]])
    add("Vec<i32>", [])
    add("Vec<i32>", None, [], "norm")
    add("Vec<i32>", [I32_MIN, I32_MAX, 0])
    add("Vec<Name>", [Name("a"), Name(""), Name("a")])
    add("Vec<Name>", Name("solo"), [Name("solo")], "norm")
    for v in (True, False):
        add("bool", v)
    add("bool", Ref(1), True, "norm", [True])
    for v in (Name(""), Name("A"), Name("Identity-H"), Name("a b#/()<>"), Name("x" * 200), Name("é中")):
        add("Name", v)
        add("Option<Name>", v)
    add("Name", Ref(1), Name("A"), "norm", [Name("A")])
    add("Option<Name>", None)
    add("Option<i32>", None)
    add("Option<i32>", Ref(9), None, "norm")            # 7.3.10: a reference to an undefined object is the null object
    for v in (b"", b"a", bytes(range(256)), b"(\\)", b"\xfe\xff\x00A"):
        add("PdfString", v)
    add("PdfString", Ref(1), b"abc", "norm", [b"abc"])
    for v in (None, 0, 2.5, True, Name("n"), b"s", Ref(3, 1), [], [None, [None]], {}, {"a": None, "b": [1, {"c": Ref(1)}]}, Stream({"K": 1}, b"data")):
        add("Primitive", v)
        add("Lazy<Dictionary>", v)
    for v in ({}, {"a": 1}, {"Type": Name("X"), "K": [None, 1.5], "D": {"E": {}}}):
        add("Dictionary", v)
        add("MaybeRef<Dictionary>", v)
        add("Dictionary", Ref(1), v, "norm", [v])
        add("MaybeRef<Dictionary>", Ref(1), Ref(1), "image", [v])
        add("RcRef<Dictionary>", Ref(1), Ref(1), "image", [v])
    for r in (Ref(1), Ref(1, 1), Ref(1, 65535), Ref(4000000)):
        add("PlainRef", r)
        add("Ref<Dictionary>", r)
    add("PlainRef", 5, ANY, "malformed")
    add("Ref<Dictionary>", {}, ANY, "malformed")
    add("RcRef<Dictionary>", {}, ANY, "malformed")
    for v in (None, 5, Name("x"), [1]):
        add("()", v, None, "image" if v is None else "norm")      # the unit type writes the null object
    add("HashMap<Name,i32>", {}, None, "norm")                    # an empty map is the omitted default
    add("HashMap<Name,i32>", None)
    add("HashMap<Name,i32>", Ref(1), {"k": 3}, "norm", [{"k": 3}])
    add("HashMap<Name,Option<i32>>", {"a": None, "b": 2})
    add("HashMap<Name,i32>", {"a": Name("x")}, ANY, "malformed")
    add("(i32,Name)", [1], ANY, "malformed")
    add("(i32,Name)", [1, Name("a"), 2], ANY, "malformed")
    add("(i32,Name)", Ref(1), [1, Name("a")], "norm", [[1, Name("a")]])
    return out



def name_enum_cases(S, names):
    out = []
    for e in S.nenums:
        if e["name"] not in names:
            continue
        for _, nm in e["pairs"]:
            out.append((e["name"], Name(nm), [], Name(nm), ["enum:" + e["name"]], "image"))
            out.append((e["name"], Ref(1), [Name(nm)], Name(nm), ["enum:" + e["name"], "enum:indirect"], "norm"))
        if e["other"]:
            for nm in ("Custom", "", "none"):
                out.append((e["name"], Name(nm), [], Name(nm), ["enum:" + e["name"], "enum:other"], "image"))
        else:
            out.append((e["name"], Name("NoSuchVariant"), [], ANY, ["enum:" + e["name"]], "malformed"))
        for p in (5, None, b"s", []):
            out.append((e["name"], p, [], ANY, ["enum:" + e["name"]], "malformed"))
    return out
