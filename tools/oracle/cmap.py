"""tools/oracle/cmap.py — specification side of property C19, written from the standards and independent of pdf-rs:

  * exact decimal / integer -> binary32 rounding (IEEE 754 round-to-nearest-even) for width values;
  * the meaning of a composite-font /W array and of simple-font /Widths (ISO 32000-1 §9.7.4.3, §9.6.2.1, Table 122);
  * ToUnicode CMaps (ISO 32000-1 §9.10.3, Adobe TN 5014 / 5411): an abstract text (sections of bfchar / bfrange
    entries), its denotation, a renderer with spelling choices, and a strict reader used to judge write_cmap's output.
"""
from fractions import Fraction


# ------------------------------------------------------------------------------------------------
# binary32

def f32_bits(x, negative_zero=False):
    """bit pattern of the binary32 nearest to the rational x (ties to even)"""
    x = Fraction(x)
    if x == 0:
        return 0x80000000 if negative_zero else 0
    sign = 0x80000000 if x < 0 else 0
    a = -x if x < 0 else x
    e = 0
    # 2^e <= a < 2^(e+1)
    while Fraction(2) ** (e + 1) <= a:
        e += 1
    while Fraction(2) ** e > a:
        e -= 1
    if e < -126:
        e = -126
    q = a / (Fraction(2) ** (e - 23))
    m = q.numerator // q.denominator
    rem = q - m
    if rem > Fraction(1, 2) or (rem == Fraction(1, 2) and m % 2 == 1):
        m += 1
    if m >= 1 << 24:
        m >>= 1
        e += 1
    if e > 127:
        return sign | 0x7f800000
    if m < 1 << 23:
        return sign | m                      # subnormal (e == -126)
    return sign | ((e + 127) << 23) | (m - (1 << 23))


def num_bits(tok):
    """f32 bit pattern pdf-rs must hold for the PDF number token `tok` (bytes): integers are i32 converted to f32,
    reals are parsed as decimal -> binary32"""
    t = tok.decode()
    neg = t.startswith("-")
    if "." in t:
        return f32_bits(Fraction(t if t[-1] != "." else t + "0"), negative_zero=neg)
    return f32_bits(int(t))


# ------------------------------------------------------------------------------------------------
# widths

class GList:
    """c [w1 … wn] — codes c … c+n-1"""
    def __init__(self, first, ws, byref=False):
        self.first, self.ws, self.byref = first, list(ws), byref

    def covers(self, c):
        return self.first <= c < self.first + len(self.ws)

    def width(self, c):
        return self.ws[c - self.first]

    def codes(self):
        return (self.first, self.first + len(self.ws) - 1)


class GRange:
    """cfirst clast w"""
    def __init__(self, first, last, w):
        self.first, self.last, self.w = first, last, w

    def covers(self, c):
        return self.first <= c <= self.last

    def width(self, c):
        return self.w

    def codes(self):
        return (self.first, self.last)


def w_spec(groups, dw, c):
    """ISO 32000-1 §9.7.4.3: the width the W array assigns to CID c, else DW (groups cover disjoint ranges)"""
    for g in groups:
        if g.covers(c):
            return g.width(c)
    return dw


def simple_spec(first, ws, missing, c):
    """§9.6.2.1 / Table 122: Widths[c - FirstChar] inside the table, MissingWidth (default 0) outside"""
    if first <= c < first + len(ws):
        return ws[c - first]
    return missing


# ------------------------------------------------------------------------------------------------
# ToUnicode CMaps: abstract text, denotation, rendering

class BfChar:
    def __init__(self, cid, text):
        self.cid, self.text = cid, text


class BfRangeS:
    """<lo> <hi> <dst>: lo+i -> dst with its last byte incremented by i"""
    def __init__(self, lo, hi, text):
        self.lo, self.hi, self.text = lo, hi, text


class BfRangeA:
    """<lo> <hi> [<d0> … <dn>]: lo+i -> di"""
    def __init__(self, lo, hi, texts):
        self.lo, self.hi, self.texts = lo, hi, list(texts)


def utf16be(s):
    return s.encode("utf-16-be")


def denote(sections):
    """code -> text; sections = list of ("char" | "range", [entries]); later entries replace earlier ones"""
    m = {}
    for kind, entries in sections:
        for e in entries:
            if isinstance(e, BfChar):
                m[e.cid] = e.text
            elif isinstance(e, BfRangeS):
                b = bytearray(utf16be(e.text))
                for i, c in enumerate(range(e.lo, e.hi + 1)):
                    bb = bytes(b[:-1]) + bytes([b[-1] + i])          # generator guarantees no overflow
                    m[c] = bb.decode("utf-16-be")
            else:
                for c, t in zip(range(e.lo, e.hi + 1), e.texts):
                    m[c] = t
    return m


class Spelling:
    """rendering choices, all conformant"""
    def __init__(self, rng=None):
        self.rng = rng

    def pick(self, xs):
        return xs[0] if self.rng is None else self.rng.choice(xs)

    def hexstr(self, b, allow_inner_ws=True):
        rng = self.rng
        out = bytearray(b"<")
        mode = self.pick(["U", "U", "l", "m"])
        for x in b:
            h = "%02X" % x
            if mode == "l":
                h = h.lower()
            elif mode == "m" and rng is not None:
                h = "".join(ch.lower() if rng.random() < 0.5 else ch for ch in h)
            out += h.encode()
            if rng is not None and allow_inner_ws and rng.random() < 0.03:
                out += rng.choice([b" ", b"\n", b"\r\n", b"\t", b"\x0c"])
        out += b">"
        return bytes(out)

    def sep(self, required=False):
        xs = [b" ", b" ", b"\n", b"\r\n", b"\t", b"  ", b" \n"] + ([] if required else [b""])
        if self.rng is not None and self.rng.random() < 0.04:
            return self.rng.choice([b" ", b"\n"]) + b"% a comment\n"
        return self.pick(xs)

    def cid(self, c):
        if c < 256 and self.rng is not None and self.rng.random() < 0.15:
            return self.hexstr(bytes([c]), allow_inner_ws=False)
        return self.hexstr(c.to_bytes(2, "big"))


HEADER = (b"/CIDInit /ProcSet findresource begin\n12 dict begin\nbegincmap\n/CIDSystemInfo\n<< /Registry (Adobe)\n"
          b"/Ordering (UCS)\n/Supplement 0\n>> def\n/CMapName /Adobe-Identity-UCS def\n/CMapType 2 def\n"
          b"1 begincodespacerange\n<0000> <FFFF>\nendcodespacerange\n")
FOOTER = b"endcmap\nCMapName currentdict /CMap defineresource pop\nend\nend\n"


def render(sections, sp=None, header=True, footer=True, counts=True):
    sp = sp or Spelling()
    out = bytearray(HEADER if header else b"")
    for kind, entries in sections:
        kw = b"bfchar" if kind == "char" else b"bfrange"
        if counts:
            out += b"%d " % len(entries)
        out += b"begin" + kw + sp.sep(required=False if entries else True)
        for e in entries:
            if isinstance(e, BfChar):
                out += sp.cid(e.cid) + sp.sep() + sp.hexstr(utf16be(e.text)) + sp.sep()
            elif isinstance(e, BfRangeS):
                out += sp.cid(e.lo) + sp.sep() + sp.cid(e.hi) + sp.sep() + sp.hexstr(utf16be(e.text)) + sp.sep()
            else:
                out += sp.cid(e.lo) + sp.sep() + sp.cid(e.hi) + sp.sep() + b"["
                for i, t in enumerate(e.texts):
                    out += sp.sep() + sp.hexstr(utf16be(t))
                out += sp.sep() + b"]" + sp.sep()
        out += b"end" + kw + b"\n"
    out += FOOTER if footer else b""
    return bytes(out)


# ------------------------------------------------------------------------------------------------
# strict reader (PDF / PostScript token syntax): judges the writer's output

WS = b"\x00\t\n\x0c\r "
DELIM = b"()<>[]{}/%"


class CMapSyntaxError(Exception):
    pass


def tokens(data):
    """('hex', bytes) | ('kw', bytes) | ('name', bytes) | ('[',) | (']',) | ('<<',) | ('>>',) | ('lit', bytes)"""
    i, n = 0, len(data)
    out = []
    while i < n:
        c = data[i]
        if c in WS:
            i += 1
        elif c == 0x25:
            while i < n and data[i] not in b"\r\n":
                i += 1
        elif data[i:i + 2] == b"<<":
            out.append(("<<",)); i += 2
        elif data[i:i + 2] == b">>":
            out.append((">>",)); i += 2
        elif c == 0x3c:
            j = data.find(b">", i)
            if j < 0:
                raise CMapSyntaxError("unterminated hex string")
            body = bytes(x for x in data[i + 1:j] if x not in WS)
            try:
                if len(body) % 2:
                    body += b"0"
                out.append(("hex", bytes.fromhex(body.decode("ascii"))))
            except ValueError:
                raise CMapSyntaxError("bad hex string %r" % data[i:j + 1])
            i = j + 1
        elif c == 0x28:
            depth, j = 1, i + 1
            while j < n and depth:
                if data[j] == 0x5c:
                    j += 1
                elif data[j] == 0x28:
                    depth += 1
                elif data[j] == 0x29:
                    depth -= 1
                j += 1
            out.append(("lit", data[i + 1:j - 1])); i = j
        elif c in b"[]":
            out.append((chr(c),)); i += 1
        elif c == 0x2f:
            j = i + 1
            while j < n and data[j] not in WS and data[j] not in DELIM:
                j += 1
            out.append(("name", data[i + 1:j])); i = j
        elif c in DELIM:
            raise CMapSyntaxError("stray delimiter %r at %d" % (chr(c), i))
        else:
            j = i
            while j < n and data[j] not in WS and data[j] not in DELIM:
                j += 1
            w = data[i:j]
            for ch in w:
                if not (0x21 <= ch <= 0x7e):
                    raise CMapSyntaxError("byte %#x in a keyword" % ch)
            if b"," in w:
                raise CMapSyntaxError("',' is not CMap syntax: %r" % w)
            out.append(("kw", w)); i = j
    return out


def cid_of(b):
    if len(b) not in (1, 2):
        raise CMapSyntaxError("source code of %d bytes" % len(b))
    return int.from_bytes(b, "big")


def read_strict(data):
    """code -> text for the bfchar / bfrange sections of a CMap text; raises CMapSyntaxError on anything that is
    not CMap syntax inside those sections"""
    toks = tokens(data)
    m = {}
    i = 0
    while i < len(toks):
        t = toks[i]
        i += 1
        if t == ("kw", b"beginbfchar"):
            while toks[i:i + 1] and toks[i] != ("kw", b"endbfchar"):
                if toks[i][0] != "hex" or i + 1 >= len(toks) or toks[i + 1][0] != "hex":
                    raise CMapSyntaxError("bfchar entry is not <src> <dst>: %r" % (toks[i:i + 2],))
                m[cid_of(toks[i][1])] = toks[i + 1][1].decode("utf-16-be")
                i += 2
            if not toks[i:i + 1]:
                raise CMapSyntaxError("endbfchar missing")
            i += 1
        elif t == ("kw", b"beginbfrange"):
            while toks[i:i + 1] and toks[i] != ("kw", b"endbfrange"):
                if toks[i][0] != "hex" or i + 2 >= len(toks) or toks[i + 1][0] != "hex":
                    raise CMapSyntaxError("bfrange entry does not start with <lo> <hi>: %r" % (toks[i:i + 3],))
                lo, hi = cid_of(toks[i][1]), cid_of(toks[i + 1][1])
                d = toks[i + 2]
                i += 3
                if d[0] == "hex":
                    b = d[1]
                    if not b or b[-1] + (hi - lo) > 255:
                        raise CMapSyntaxError("bfrange destination overflows its last byte")
                    for k, c in enumerate(range(lo, hi + 1)):
                        m[c] = (b[:-1] + bytes([b[-1] + k])).decode("utf-16-be")
                elif d == ("[",):
                    items = []
                    while toks[i:i + 1] and toks[i] != ("]",):
                        if toks[i][0] != "hex":
                            raise CMapSyntaxError("bfrange array item is not a hex string: %r" % (toks[i],))
                        items.append(toks[i][1])
                        i += 1
                    if not toks[i:i + 1]:
                        raise CMapSyntaxError("] missing")
                    i += 1
                    if len(items) != hi - lo + 1:
                        raise CMapSyntaxError("bfrange array has %d items for %d codes" % (len(items), hi - lo + 1))
                    for c, b in zip(range(lo, hi + 1), items):
                        m[c] = b.decode("utf-16-be")
                else:
                    raise CMapSyntaxError("bfrange destination is neither a string nor an array: %r" % (d,))
            if not toks[i:i + 1]:
                raise CMapSyntaxError("endbfrange missing")
            i += 1
    return m


# ------------------------------------------------------------------------------------------------
# harness encodings

def enc_entry(cid, text):
    return cid.to_bytes(2, "big") + b"".join(ord(ch).to_bytes(3, "big") for ch in text)


def dec_entry(f):
    return int.from_bytes(f[:2], "big"), "".join(chr(int.from_bytes(f[i:i + 3], "big")) for i in range(2, len(f), 3))


def enc_map(m):
    return [enc_entry(c, m[c]) for c in sorted(m)]
