"""tools/oracle/codecs.py — specification-side reference encoders/decoders, written from
ISO 32000-1 §7.4 (and PNG §9, TIFF 6.0 §14), independent of pdf-rs.  zlib comes from the stdlib."""
import zlib

WS = b"\x00\t\n\x0c\r "


class DecodeError(Exception):
    pass


# ---------------------------------------------------------------- ASCIIHex (§7.4.2)
def hex_decode(s):
    out = bytearray()
    hi = None
    for c in s:
        if c == 0x3e:
            break
        if c in WS:
            continue
        ch = chr(c)
        if ch not in "0123456789abcdefABCDEF":
            raise DecodeError("hex digit %r" % ch)
        v = int(ch, 16)
        if hi is None:
            hi = v
        else:
            out.append(hi * 16 + v)
            hi = None
    if hi is not None:
        out.append(hi * 16)          # "final digit assumed to be 0"
    return bytes(out)


def hex_encode(data, rng=None, odd_elide=False, eod=True):
    """a spelling of data; with rng: random case and white-space; odd_elide: drop a final 0 nibble"""
    digs = []
    for b in data:
        for v in (b >> 4, b & 15):
            c = "0123456789abcdef"[v]
            if rng and rng.random() < 0.5:
                c = c.upper()
            digs.append(c)
    if odd_elide and digs and digs[-1] == "0":
        digs.pop()
    out = bytearray()
    for d in digs:
        if rng and rng.random() < 0.15:
            out += bytes(rng.choice(WS) for _ in range(rng.randint(1, 3)))
        out.append(ord(d))
    if rng and rng.random() < 0.3:
        out += bytes(rng.choice(WS) for _ in range(rng.randint(1, 2)))
    if eod:
        out += b">"
    return bytes(out)


# ---------------------------------------------------------------- ASCII85 (§7.4.3)
def a85_decode(s):
    out = bytearray()
    grp = []
    i = 0
    n = len(s)
    while i < n:
        c = s[i]
        if c in WS:
            i += 1
            continue
        if c == 0x7e:
            if i + 1 < n and s[i + 1] == 0x3e:
                break
            raise DecodeError("~ without >")
        if c == 0x7a:
            if grp:
                raise DecodeError("z inside group")
            out += b"\0\0\0\0"
        elif 0x21 <= c <= 0x75:
            grp.append(c - 0x21)
            if len(grp) == 5:
                v = 0
                for g in grp:
                    v = v * 85 + g
                if v >= 1 << 32:
                    raise DecodeError("group overflow")
                out += v.to_bytes(4, "big")
                grp = []
        else:
            raise DecodeError("bad symbol %d" % c)
        i += 1
    else:
        raise DecodeError("no EOD")
    if grp:
        if len(grp) == 1:
            raise DecodeError("single symbol tail")
        k = len(grp)
        v = 0
        for g in grp + [84] * (5 - k):
            v = v * 85 + g
        if v >= 1 << 32:
            raise DecodeError("group overflow")
        out += v.to_bytes(4, "big")[:k - 1]
    return bytes(out)


def a85_encode(data, rng=None, use_z=True, ws=b" \n\r\t"):
    out = bytearray()
    syms = []
    for i in range(0, len(data) - len(data) % 4, 4):
        v = int.from_bytes(data[i:i + 4], "big")
        if v == 0 and (use_z if rng is None else (use_z and rng.random() < 0.8)):
            syms.append(b"z")
        else:
            g = []
            for _ in range(5):
                g.append(v % 85)
                v //= 85
            syms.append(bytes(x + 0x21 for x in reversed(g)))
    r = len(data) % 4
    if r:
        v = int.from_bytes(data[-r:] + b"\0" * (4 - r), "big")
        g = []
        for _ in range(5):
            g.append(v % 85)
            v //= 85
        syms.append(bytes(x + 0x21 for x in reversed(g))[:r + 1])
    for s in syms:
        for c in s:
            if rng and rng.random() < 0.1:
                out += bytes(rng.choice(ws) for _ in range(rng.randint(1, 2)))
            out.append(c)
    if rng and rng.random() < 0.3:
        out += bytes([rng.choice(ws)])
    out += b"~>"
    return bytes(out)


# ---------------------------------------------------------------- RunLength (§7.4.5)
def rle_decode(s):
    out = bytearray()
    i = 0
    while i < len(s):
        L = s[i]
        if L == 128:
            return bytes(out)
        if L < 128:
            if i + 1 + L + 1 > len(s):
                raise DecodeError("truncated literal run")
            out += s[i + 1:i + 2 + L]
            i += 2 + L
        else:
            if i + 1 >= len(s):
                raise DecodeError("truncated repeat run")
            out += bytes([s[i + 1]]) * (257 - L)
            i += 2
    return bytes(out)


def rle_encode(data, rng=None, eod=True):
    """any mix of literal runs (1..128) and repeat runs (2..128)"""
    out = bytearray()
    i = 0
    n = len(data)
    while i < n:
        j = i
        while j < n and data[j] == data[i] and j - i < 128:
            j += 1
        run = j - i
        if run >= 2 and (rng is None or rng.random() < 0.8):
            k = run if rng is None else rng.randint(2, run)
            out += bytes([257 - k, data[i]])
            i += k
        else:
            k = min(128, n - i) if rng is None else rng.randint(1, min(128, n - i))
            if rng is None:
                # stop the literal run before the next repeat of >= 3
                k = 1
                while i + k < n and k < 128 and not (i + k + 2 < n and data[i + k] == data[i + k + 1] == data[i + k + 2]):
                    k += 1
            out += bytes([k - 1]) + data[i:i + k]
            i += k
    if eod:
        out.append(128)
    return bytes(out)


# ---------------------------------------------------------------- LZW (§7.4.4.2)
def lzw_encode(data, early_change=1, rng=None):
    """MSB-first, 9..12 bit codes, clear=256, eod=257. early_change as in Table 8."""
    out_bits = []
    def emit(code, width):
        out_bits.append((code, width))
    table = {bytes([i]): i for i in range(256)}
    nxt = 258
    width = 9
    emit(256, width)
    w = b""
    for b in data:
        wb = w + bytes([b])
        if wb in table:
            w = wb
        else:
            emit(table[w], width)
            table[wb] = nxt
            nxt += 1
            # width switch
            if nxt + (1 if early_change else 0) > (1 << width) and width < 12:
                width += 1
            elif nxt + (1 if early_change else 0) > 4096 or (nxt >= 4095 and True):
                # table full: clear
                if nxt >= 4095:
                    emit(256, width)
                    table = {bytes([i]): i for i in range(256)}
                    nxt = 258
                    width = 9
            w = bytes([b])
    if w:
        emit(table[w], width)
        nxt += 1
        if nxt + (1 if early_change else 0) > (1 << width) and width < 12:
            width += 1
    emit(257, width)
    acc = 0
    nb = 0
    out = bytearray()
    for code, wd in out_bits:
        acc = (acc << wd) | code
        nb += wd
        while nb >= 8:
            out.append((acc >> (nb - 8)) & 255)
            nb -= 8
    if nb:
        out.append((acc << (8 - nb)) & 255)
    return bytes(out)


def lzw_decode(data, early_change=1):
    bits = 0
    nb = 0
    pos = 0
    width = 9
    table = [bytes([i]) for i in range(256)] + [None, None]
    out = bytearray()
    prev = None
    while True:
        while nb < width:
            if pos >= len(data):
                return bytes(out)          # ran out without EOD: tolerate
            bits = (bits << 8) | data[pos]
            pos += 1
            nb += 8
        code = (bits >> (nb - width)) & ((1 << width) - 1)
        nb -= width
        if code == 256:
            table = table[:258]
            width = 9
            prev = None
            continue
        if code == 257:
            return bytes(out)
        if prev is None:
            if code >= len(table) or table[code] is None:
                raise DecodeError("bad first code")
            entry = table[code]
        else:
            if code < len(table):
                entry = table[code]
                if entry is None:
                    raise DecodeError("bad code")
            elif code == len(table):
                entry = prev + prev[:1]
            else:
                raise DecodeError("code beyond table")
            if len(table) < 4096:
                table.append(prev + entry[:1])
        out += entry
        prev = entry
        if len(table) + (1 if early_change else 0) >= (1 << width) and width < 12:
            width += 1


# ---------------------------------------------------------------- predictors
def paeth(a, b, c):
    p = a + b - c
    pa, pb, pc = abs(p - a), abs(p - b), abs(p - c)
    if pa <= pb and pa <= pc:
        return a
    if pb <= pc:
        return b
    return c


def row_bytes(colors, bpc, columns):
    return (colors * bpc * columns + 7) // 8


def png_predict(data, colors, bpc, columns, fts):
    """data: concatenated rows of row_bytes each; fts: per-row filter types (cycled). Returns tagged rows."""
    rb = row_bytes(colors, bpc, columns)
    bpp = max(1, (colors * bpc) // 8) if (colors * bpc) % 8 == 0 else max(1, (colors * bpc + 7) // 8)
    assert len(data) % rb == 0
    out = bytearray()
    prev = bytes(rb)
    for r in range(len(data) // rb):
        row = data[r * rb:(r + 1) * rb]
        ft = fts[r % len(fts)]
        out.append(ft)
        for i in range(rb):
            a = row[i - bpp] if i >= bpp else 0
            b = prev[i]
            c = prev[i - bpp] if i >= bpp else 0
            if ft == 0:
                p = 0
            elif ft == 1:
                p = a
            elif ft == 2:
                p = b
            elif ft == 3:
                p = (a + b) // 2
            else:
                p = paeth(a, b, c)
            out.append((row[i] - p) & 255)
        prev = row
    return bytes(out)


def tiff_predict(data, colors, bpc, columns):
    """TIFF predictor 2 (horizontal differencing) for bpc = 8 and 16 (other depths: bit-level, bpc in 1,2,4)."""
    rb = row_bytes(colors, bpc, columns)
    assert len(data) % rb == 0
    out = bytearray()
    for r in range(len(data) // rb):
        row = data[r * rb:(r + 1) * rb]
        if bpc == 8:
            out += bytes((row[i] - (row[i - colors] if i >= colors else 0)) & 255 for i in range(rb))
        elif bpc == 16:
            vals = [int.from_bytes(row[2 * i:2 * i + 2], "big") for i in range(rb // 2)]
            d = [(vals[i] - (vals[i - colors] if i >= colors else 0)) & 0xffff for i in range(len(vals))]
            out += b"".join(v.to_bytes(2, "big") for v in d)
        else:
            nbits = colors * bpc * columns
            bits = int.from_bytes(row, "big") >> (rb * 8 - nbits)
            samples = [(bits >> (nbits - bpc * (i + 1))) & ((1 << bpc) - 1) for i in range(colors * columns)]
            d = [(samples[i] - (samples[i - colors] if i >= colors else 0)) & ((1 << bpc) - 1) for i in range(len(samples))]
            v = 0
            for x in d:
                v = (v << bpc) | x
            # bits after the last sample of the row are not samples: kept as they are
            v = (v << (rb * 8 - nbits)) | (int.from_bytes(row, "big") & ((1 << (rb * 8 - nbits)) - 1))
            out += v.to_bytes(rb, "big")
    return bytes(out)


def zlib_encode(data, level=6):
    return zlib.compress(data, level)


def deflate_raw_encode(data, level=6):
    c = zlib.compressobj(level, zlib.DEFLATED, -15)
    return c.compress(data) + c.flush()


def deflate_stored_block(data, final=False, pad=0):
    """RFC 1951 §3.2.4: one stored block starting at a byte boundary: BFINAL, BTYPE=00, then the bits up to the next byte
    boundary (five here; a decoder ignores them, `pad` chooses them), LEN, NLEN = ~LEN, LEN literal bytes"""
    assert len(data) <= 65535 and 0 <= pad < 32
    n = len(data)
    return bytes([(1 if final else 0) | (pad << 3), n & 255, n >> 8, (n & 255) ^ 255, (n >> 8) ^ 255]) + bytes(data)


def zlib_header_like(b0, b1):
    """RFC 1950 §2.2: CM = 8, CINFO <= 7, (CMF*256 + FLG) a multiple of 31"""
    return (b0 & 0x0f) == 8 and (b0 >> 4) <= 7 and (b0 * 256 + b1) % 31 == 0


def deflate_raw_zlib_lookalike(data, rng, tail="stored"):
    """a valid RAW deflate stream of `data` whose first two bytes satisfy the zlib header test: it starts with a non-final stored
    block whose ignored padding bits are 00001..01111 (low bit set) and whose LEN low byte completes the check; the rest of the data follows in
    stored blocks with random padding bits (tail="stored") or as Huffman blocks written by python zlib (tail="huffman").
    None if len(data) admits no such first block."""
    opts = []
    for pad in range(1, 16, 2):
        b0 = pad << 3
        for b1 in range(256):
            if zlib_header_like(b0, b1):
                ns = [n for n in range(b1, min(len(data), 65535) + 1, 256)]
                if ns:
                    opts.append((pad, ns))
    if not opts:
        return None
    pad, ns = rng.choice(opts)
    n = rng.choice(ns)
    out = deflate_stored_block(data[:n], False, pad)
    rest = data[n:]
    if tail == "huffman":
        return out + deflate_raw_encode(rest, rng.choice([1, 6, 9]))
    blocks = []
    while rest:
        k = rng.randint(0, min(len(rest), 300)) if rng.random() < 0.7 else min(len(rest), 65535)
        blocks.append(rest[:k])
        rest = rest[k:]
    if not blocks or rng.random() < 0.5:
        blocks.append(b"")                       # an empty final block
    for j, blk in enumerate(blocks):
        out += deflate_stored_block(blk, j == len(blocks) - 1, rng.randrange(32))
    return out


def zlib_decode(data):
    try:
        return zlib.decompress(data)
    except zlib.error as e:
        raise DecodeError(str(e))


def short_row_sweep():
    """hostile predictor input, exhaustive over the length: for a handful of geometries and every predictor that touches rows, data of
    EVERY length from 0 to three rows and two bytes (so: cut inside a row at every position, one byte short of a row, the tag alone,
    a byte beyond a row), every row starting with a valid PNG filter tag.  -> (pred, colors, columns, bpc, data)"""
    out = []
    for (c, b, w) in ((1, 8, 1), (1, 8, 3), (3, 8, 2), (1, 1, 9), (2, 16, 2), (3, 4, 3), (1, 8, 13)):
        rb = row_bytes(c, b, w)
        for pred in (2, 10, 11, 12, 13, 14, 15):
            step = rb + 1 if pred >= 10 else rb
            for n in range(0, 3 * step + 3):
                data = bytearray((37 * i + 11 * n + pred) % 256 for i in range(n))
                if pred >= 10:
                    for r, i in enumerate(range(0, n, step)):
                        data[i] = (r + n + pred) % 5
                out.append((pred, c, w, b, bytes(data)))
    return out
