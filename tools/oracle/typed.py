"""tools/oracle/typed.py — specification side of the typed-object properties (C15, C18).

  * parser of the canonical text form (the printer is oracle/canon.py), dictionary keys compared as a map;
  * generators of dictionaries that are well-typed for a declared schema (the *declaration* of the fields —
    key, type, optional/required — is the specification of the typed model; it is read from the Rust items
    by gen/extract_typed.py, the reader/writer *code* is not consulted);
  * the equivalences of the property text: integers vs reals of equal value, omitted defaults, a reference
    vs the object it designates, one-or-many, dates denoting the same instant (ISO 32000-1 §7.9.4).
"""
import os, struct, sys

from .pdfwriter import Name, Ref, Stream
from .canon import canon

HERE = os.path.dirname(os.path.abspath(__file__))
sys.path.insert(0, os.path.join(HERE, "..", "..", "gen"))


def schemas():
    import extract as X
    import extract_typed as T
    return T.schemas(X)


# ---------------------------------------------------------------------------------------------- canon parser

class F32(float):
    """a real number given by its binary32 bit pattern"""
    __slots__ = ("bits",)

    def __new__(cls, bits):
        o = float.__new__(cls, struct.unpack(">f", struct.pack(">I", bits))[0])
        o.bits = bits
        return o


def uncanon(b):
    v, i = _un(b, 0)
    if i != len(b):
        raise ValueError("trailing bytes")
    return v


def _until(b, i, stop):
    j = b.index(stop, i)
    return bytes.fromhex(b[i:j].decode()), j + 1


def _num(b, i):
    j = i
    while j < len(b) and (chr(b[j]).isdigit() or b[j] == 45):
        j += 1
    return int(b[i:j]), j


def _un(b, i):
    c = b[i:i + 1]
    i += 1
    if c == b"n":
        return None, i
    if c == b"t":
        return True, i
    if c == b"f":
        return False, i
    if c == b"i":
        return _num(b, i)
    if c == b"r":
        return F32(int(b[i:i + 8], 16)), i + 8
    if c == b"N":
        s, i = _until(b, i, b";")
        return Name(s), i
    if c == b"S":
        return _until(b, i, b";")
    if c == b"R":
        n, i = _num(b, i)
        g, i = _num(b, i + 1)
        return Ref(n, g), i
    if c == b"[":
        out = []
        while b[i:i + 1] != b"]":
            if b[i:i + 1] == b" ":
                i += 1
                continue
            v, i = _un(b, i)
            out.append(v)
        return out, i + 1
    if c == b"{":
        d = {}
        while b[i:i + 1] != b"}":
            if b[i:i + 1] == b" ":
                i += 1
                continue
            k, i = _until(b, i, b":")
            v, i = _un(b, i)
            d[k.decode("latin-1")] = v
        return d, i + 1
    if c == b"s":
        d, i = _un(b, i)
        if b[i:i + 1] == b"?":
            return Stream(d, b"", d.get("Length")), i + 2
        j = b.index(b";", i)
        d = dict(d)
        ln = d.pop("Length", None)
        return Stream(d, bytes.fromhex(b[i:j].decode()), ln), j + 1
    raise ValueError("bad canon at %d" % i)


# ---------------------------------------------------------------------------------------------- equivalences

def parse_date(s):
    """ISO 32000-1 §7.9.4: D:YYYYMMDDHHmmSSOHH'mm' — every field after the year optional, defaults 01 01 00 00 00,
    O in + - Z, missing O = unknown (taken as UT), apostrophes optional after mm"""
    if not s.startswith(b"D:"):
        raise ValueError("no D:")
    t = s[2:].decode("ascii")
    pos = min([t.index(c) for c in "+-Z" if c in t] or [len(t)])
    body, zone = t[:pos], t[pos:]
    if len(body) < 4 or len(body) % 2 or not body.isdigit():
        raise ValueError("date body")
    vals = [int(body[:4])] + [int(body[i:i + 2]) for i in range(4, len(body), 2)]
    vals += [1, 1, 0, 0, 0][len(vals) - 1:]
    o, hh, mm = "Z", 0, 0
    if zone:
        o = zone[0]
        z = zone[1:].replace("'", " ").split()
        if len(z) > 0:
            hh = int(z[0])
        if len(z) > 1:
            mm = int(z[1])
    if o == "Z" or (hh == 0 and mm == 0):
        o = "Z"
    return tuple(vals) + (o, hh, mm)


def f32r(x):
    try:
        return struct.unpack(">f", struct.pack(">f", x))[0]
    except OverflowError:
        return float("inf") if x > 0 else float("-inf")


def num_eq(a, b):
    """integers vs reals of equal value, at the precision the typed models declare (binary32)"""
    return (isinstance(a, (int, float)) and isinstance(b, (int, float)) and not isinstance(a, bool) and not isinstance(b, bool)
            and (float(a) == float(b) or f32r(a) == f32r(b)))


def equiv(a, b, objs, ty=None, S=None, depth=0):
    """a: value in the input dictionary, b: value in the written dictionary.  objs: number -> object (input side
    and objects created by the writer)."""
    if depth > 40:
        return False
    if isinstance(a, Ref) and isinstance(b, Ref):
        if a == b:
            return True
        return a.num in objs and b.num in objs and equiv(objs[a.num], objs[b.num], objs, ty, S, depth + 1)
    if isinstance(a, Ref) and a.num in objs:
        return equiv(objs[a.num], b, objs, ty, S, depth + 1)
    if isinstance(b, Ref) and b.num in objs:
        return equiv(a, objs[b.num], objs, ty, S, depth + 1)
    if num_eq(a, b):
        return True
    if isinstance(b, list) and not isinstance(a, list) and a is not None:
        return len(b) == 1 and equiv(a, b[0], objs, ty, S, depth + 1)        # one-or-many
    if isinstance(a, bool) or isinstance(b, bool) or a is None or b is None:
        return a is b
    if isinstance(a, Name) or isinstance(b, Name):
        return isinstance(a, Name) and isinstance(b, Name) and a == b
    if isinstance(a, (bytes, bytearray)) and isinstance(b, (bytes, bytearray)):
        if a == b:
            return True
        try:
            return parse_date(bytes(a)) == parse_date(bytes(b))
        except Exception:
            return False
    if isinstance(b, list) and not isinstance(a, list):
        return len(b) == 1 and equiv(a, b[0], objs, ty, S, depth + 1)        # one-or-many
    if isinstance(a, list) and isinstance(b, list):
        return len(a) == len(b) and all(equiv(x, y, objs, None, S, depth + 1) for x, y in zip(a, b))
    if isinstance(a, dict) and isinstance(b, dict):
        # nested typed dictionaries may drop null entries, empty maps and add defaults / type tags: require the
        # input's non-null entries (the output's extras are judged where the nested schema is known: top level only)
        for k, v in a.items():
            if v is None or v == {}:
                continue
            if k not in b or not equiv(v, b[k], objs, None, S, depth + 1):
                return False
        return True
    return False


# ---------------------------------------------------------------------------------------------- generators

MODELLED_HAND = {"Date": 0, "Rectangle": 1, "Matrix": 2, "Action": 3, "NameTree<Primitive>": 4, "PagesRc": 5, "Encoding": 6}


class Gen:
    """well-typed primitives for the type encodings of gen/extract_typed.py"""

    def __init__(self, S, rng):
        self.S, self.rng = S, rng
        self.objs = []            # objects 1..n of the case
        self.skip_hands = set()   # hand-written types this generator leaves out (treated as unmodelled)

    def obj(self, v):
        self.objs.append(v)
        return Ref(len(self.objs))

    def modelled(self, t, seen=()):
        """can the Coq model read this type"""
        c = t[0]
        if c <= 10:
            return True
        if c in (20, 21, 22, 24, 25, 26, 27):
            return self.modelled(t[1:], seen) if c != 27 else True
        if c == 23:
            a, rest = self.split(t[1:])
            return self.modelled(a, seen) and self.modelled(rest, seen)
        if c == 30:
            if t[1] in seen:
                return True
            return all(self.modelled(f["ty"], seen + (t[1],)) or self.optional(f) for f in self.S.structs[t[1]]["fields"] if not f["flags"] & 5)
        if c in (31, 32):
            return True
        return c == 33 and self.S.hands[t[1]] in MODELLED_HAND and self.S.hands[t[1]] not in self.skip_hands

    @staticmethod
    def optional(f):
        return f["ty"][0] in (20, 21, 22) or f["default"][0] != 0

    def split(self, t):
        """first complete type of the prefix encoding, rest"""
        n = self.tlen(t)
        return t[:n], t[n:]

    def tlen(self, t):
        c = t[0]
        if c <= 10:
            return 1
        if c in (20, 21, 22, 24, 25, 26, 27):
            return 1 + self.tlen(t[1:])
        if c == 23:
            a = self.tlen(t[1:])
            return 1 + a + self.tlen(t[1 + a:])
        return 2

    def f32(self):
        r = self.rng
        k = r.randrange(7)
        if k == 6:
            # whole numbers beyond the 32-bit integer range stay reals (they are not integers of the object model)
            return r.choice([3e9, -1e10, 2147483648.0, 4294967296.0, -4294967296.0, 1e12])
        if k == 0:
            return r.randint(-1000, 1000)
        if k == 1:
            return r.choice([0.5, -0.25, 1.5, 612.0, 1e-3, 3.25, 100.125, -7.75])
        if k == 2:
            return float(struct.unpack(">f", struct.pack(">f", r.uniform(-1e4, 1e4)))[0])
        if k == 3:
            return r.choice([16777217, -16777217, 2147483647, -2147483648, 33554435])     # integers that are rounded
        return r.randint(0, 9)

    def name(self):
        return Name(self.rng.choice(["A", "Foo", "X1", "DeviceRGB", "Zz", "q"]))

    def string(self):
        r = self.rng
        return bytes(r.randrange(256) for _ in range(r.choice([0, 1, 3, 8])))

    def date(self):
        r = self.rng
        y, mo, d, h, mi, s = r.randint(0, 9999), r.randint(1, 12), r.randint(1, 28), r.randint(0, 23), r.randint(0, 59), r.randint(0, 59)
        parts = ["%04d" % y, "%02d" % mo, "%02d" % d, "%02d" % h, "%02d" % mi, "%02d" % s]
        n = r.choice([1, 2, 3, 4, 5, 6, 6, 6])
        body = "".join(parts[:n])
        z = ""
        if n == 6 or r.random() < 0.3:
            z = r.choice(["", "Z", "Z00'00'", "Z00'00", "+%02d'%02d'" % (r.randint(0, 23), r.randint(0, 59)),
                          "-%02d'%02d" % (r.randint(0, 23), r.randint(0, 59)), "+%02d" % r.randint(0, 23), "-%02d'" % r.randint(0, 23)])
        return ("D:" + body + z).encode()

    def action(self, dests=False):
        """an action dictionary (ISO 32000-1 12.6): GoTo with a named destination (or, dests=True, an explicit
        destination array), or another action type kept as its dictionary"""
        r = self.rng
        k = r.randrange(4 if dests else 3)
        if k == 0:
            return {"S": Name("GoTo"), "D": self.string() or b"d"}
        if k == 1:
            return {"S": Name("URI"), "URI": b"http://example.org/" + bytes([97 + r.randrange(26)])}
        if k == 2:
            d = {"S": Name(r.choice(["Named", "JavaScript", "Launch"])), "N": Name("NextPage")}
            if r.random() < 0.5:
                d["Type"] = Name("Action")
            return d
        view = r.choice([[Name("Fit")], [Name("FitB")], [Name("XYZ"), self.f32(), None, r.choice([0, 1, 1.5, 2])], [Name("XYZ"), None, None, 0],
                         [Name("FitH"), self.f32()], [Name("FitV"), self.f32()], [Name("FitBH"), self.f32()],
                         [Name("FitR")] + [self.f32() for _ in range(4)]])
        return {"S": Name("GoTo"), "D": [r.choice([Ref(r.randint(1, 30)), None])] + view}

    def nametree(self):
        r = self.rng
        d = {}
        if r.random() < 0.4:
            d["Limits"] = [b"a", b"z"]
        if r.random() < 0.3:
            d["Kids"] = [Ref(r.randint(1, 30)) for _ in range(r.randrange(3))]
        else:
            names = []
            for _ in range(r.randrange(3)):
                names += [self.string() or b"n", self.any_prim(1)]
            d["Names"] = names
        return d

    def any_prim(self, depth=0):
        r = self.rng
        k = r.randrange(9 if depth < 2 else 7)
        if k == 0:
            return r.randint(-5, 5)
        if k == 1:
            return self.f32()
        if k == 2:
            return r.random() < 0.5
        if k == 3:
            return self.name()
        if k == 4:
            return self.string()
        if k == 5:
            return Ref(r.randint(1, 40))
        if k == 6:
            return r.choice([1, 2.5])
        if k == 7:
            # null is a legal array element and has to keep its position
            return [None if r.random() < 0.2 else self.any_prim(depth + 1) for _ in range(r.randrange(4))]
        return {k2: self.any_prim(depth + 1) for k2 in r.sample(["a", "b", "Type", "K"], r.randrange(3))}

    def prim(self, t, depth=0, allow_ref=True):
        """a primitive that is well-typed for t (None = leave the entry out)"""
        r = self.rng
        c = t[0]
        scal = None
        if c == 0:
            scal = r.choice([0, 1, -1, 2147483647, -2147483648, r.randint(-100000, 100000), r.randint(0, 300)])
        elif c in (1, 2):
            scal = r.choice([0, 1, 2147483647, r.randint(0, 100000), r.randint(0, 300)])
        elif c == 3:
            scal = self.f32()
        elif c == 4:
            scal = r.random() < 0.5
        elif c == 5:
            scal = self.name()
        elif c == 6:
            scal = self.string()
        if scal is not None:
            if allow_ref and r.random() < 0.08:
                return self.obj(scal)
            return scal
        if c == 7:
            return self.any_prim()
        if c == 8:
            d = {k2: self.any_prim(1) for k2 in r.sample(["a", "b", "c", "Type"], r.randrange(4))}
            return self.obj(d) if allow_ref and r.random() < 0.1 else d
        if c == 9:
            return Ref(r.randint(1, 60), r.choice([0, 0, 0, 1]))
        if c == 10:
            return None
        if c == 20:
            if r.random() < 0.4 or depth > 4:
                return None
            return self.prim(t[1:], depth + 1)
        if c == 21:
            k = r.randrange(5) if depth < 4 else 0
            if k == 0:
                return None if r.random() < 0.5 else []
            items = [self.prim(t[1:], depth + 1, allow_ref=False) for _ in range(r.choice([1, 1, 2, 3]))]
            if t[1] == 7:
                # an array of untyped primitives: null elements (top level and nested) keep their positions
                items = [None if r.random() < 0.3 else x for x in items]
                if r.random() < 0.3:
                    items.insert(r.randrange(len(items) + 1), [1, None, self.any_prim(1)])
                if not (k == 1 and len(items) == 1 and items[0] is not None and not isinstance(items[0], (list, Ref))):
                    return self.obj(items) if (k == 2 and allow_ref) else items
            items = [x for x in items if x is not None] if t[1] in (20, 10) else items
            if any(x is None for x in items):
                return []
            if k == 1 and len(items) == 1 and not isinstance(items[0], (list, Ref)) and items[0] is not None:
                return items[0]                                           # one-or-many: the bare element
            if k == 2 and allow_ref:
                return self.obj(items)
            return items
        if c == 22:
            k = r.randrange(4) if depth < 4 else 0
            if k == 0:
                return None if r.random() < 0.5 else {}
            d = {}
            for key in r.sample(["F1", "GS0", "Im1", "x"], r.choice([1, 2])):
                v = self.prim(t[1:], depth + 1)
                if v is not None:
                    d[key] = v
            return d
        if c == 23:
            a, b = self.split(t[1:])
            va, vb = self.prim(a, depth + 1, allow_ref=False), self.prim(b, depth + 1, allow_ref=False)
            return [va, vb]
        if c == 24:
            return self.prim(t[1:], depth)
        if c == 25:
            v = self.prim(t[1:], depth + 1, allow_ref=False)
            if v is None:
                return None
            return self.obj(v) if r.random() < 0.5 else v
        if c == 26:
            v = self.prim(t[1:], depth + 1, allow_ref=False)
            return None if v is None else self.obj(v)
        if c == 27:
            v = self.prim(t[1:], depth + 1)
            return v
        if c == 30:
            return self.struct(t[1], depth + 1)
        if c == 31:
            e = self.S.nenums[t[1]]
            if e["other"] and r.random() < 0.3:
                return self.name()
            return Name(r.choice(e["pairs"])[1])
        if c == 32:
            return r.choice(self.S.ienums[t[1]]["variants"])[1]
        if c == 33:
            h = self.S.hands[t[1]]
            if h in self.skip_hands:
                return None
            if h == "Date":
                return self.date()
            if h == "Rectangle":
                v = [self.f32() for _ in range(4)]
                return self.obj(v) if allow_ref and r.random() < 0.15 else v
            if h == "Matrix":
                return [self.f32() for _ in range(6)]
            if h == "Action":
                return self.action()
            if h == "NameTree<Primitive>":
                return self.nametree()
            if h == "PagesRc":
                return self.obj({"Type": Name("Pages"), "Kids": [], "Count": 0})
            return None
        raise ValueError(t)

    def struct(self, idx, depth=0, extras=True, force=None):
        """dictionary for schema idx; force = {field name: True/False} presence overrides"""
        s = self.S.structs[idx]
        r = self.rng
        d = {}
        a = s["attrs"]
        tn = a.get("Type")
        if tn is not None:
            if not tn.endswith("?") or r.random() < 0.6:
                d["Type"] = Name(tn.rstrip("?"))
        for k, v in a.items():
            if k not in ("Type", "is_stream", "key") and isinstance(v, str):
                d[k] = Name(v)
        has_other = any(f["flags"] & 1 for f in s["fields"])
        for f in s["fields"]:
            if f["flags"] & 5:
                continue
            want = None if force is None else force.get(f["name"])
            opt = self.optional(f)
            if want is False and opt:
                continue
            if not self.modelled(f["ty"]) and opt:
                continue                      # unmodelled type: left out when optional
            if depth > 3 and opt and want is not True:
                continue
            if opt and want is None and r.random() < 0.35:
                continue
            v = self.prim(f["ty"], depth)
            if want is True and v is None:
                for _ in range(8):
                    v = self.prim(f["ty"], 0)
                    if v is not None:
                        break
            if v is not None:
                d[f["key"]] = v
        # unknown entries: always where the model keeps them; in a model without catch-all only at the top level
        # (there nothing is claimed about them); never nested inside, where their loss would change an entry of
        # an enclosing catch-all model without that model being at fault
        if extras and (has_other or (depth == 0 and r.random() < 0.2)):
            for k in r.sample(["Zz1", "Custom", "AAPL:Key", "q"], r.randrange(3)):
                if k not in d:
                    d[k] = self.any_prim(1)
        # shuffle the key order (the order must not matter)
        keys = list(d)
        r.shuffle(keys)
        return {k: d[k] for k in keys}


def required_unmodelled(G, idx):
    """names of required fields whose type the model cannot read"""
    return [f["name"] for f in G.S.structs[idx]["fields"] if not f["flags"] & 5 and not G.optional(f) and not G.modelled(f["ty"])]


# default values of the standard (ISO 32000-1 tables 8, 11, 15, 20, 30, 89, 95, 117, 122, 153, 164, 218, 220, 232, 234, 321)
# for the entries the typed models declare a default for — written from the standard, not from the code
SPEC_DEFAULTS = {
    ("LZWFlateParams", "Predictor"): 1, ("LZWFlateParams", "Colors"): 1, ("LZWFlateParams", "BitsPerComponent"): 8,
    ("LZWFlateParams", "Columns"): 1, ("LZWFlateParams", "EarlyChange"): 1,
    ("CCITTFaxDecodeParams", "K"): 0, ("CCITTFaxDecodeParams", "EndOfLine"): False, ("CCITTFaxDecodeParams", "EncodedByteAlign"): False,
    ("CCITTFaxDecodeParams", "Columns"): 1728, ("CCITTFaxDecodeParams", "Rows"): 0, ("CCITTFaxDecodeParams", "EndOfBlock"): True,
    ("CCITTFaxDecodeParams", "BlackIs1"): False, ("CCITTFaxDecodeParams", "DamagedRowsBeforeError"): 0,
    ("CIDFont", "DW"): 1000, ("FontDescriptor", "Leading"): 0, ("FontDescriptor", "XHeight"): 0, ("FontDescriptor", "StemV"): 0,
    ("FontDescriptor", "StemH"): 0, ("FontDescriptor", "AvgWidth"): 0, ("FontDescriptor", "MaxWidth"): 0, ("FontDescriptor", "MissingWidth"): 0,
    ("Page", "Rotate"): 0, ("ImageDict", "ImageMask"): False, ("ImageDict", "Interpolate"): False, ("FormDict", "FormType"): 1,
    ("InteractiveFormDictionary", "NeedAppearances"): False, ("InteractiveFormDictionary", "SigFlags"): 0,
    ("SeedValueDictionary", "Ff"): 0, ("Annot", "F"): 0, ("FieldDictionary", "Ff"): 0, ("FieldDictionary", "SigFlags"): 0,
    ("Outlines", "Count"): 0, ("MarkInformation", "Marked"): False, ("MarkInformation", "UserProperties"): False,
    ("MarkInformation", "Suspects"): False, ("RawFunction", "Order"): 1,
}
