"""tools/oracle/validate.py — valid_pdf: an independent structural reading of PDF bytes (ISO 32000-1 §7.5).

Python twin of coq/theories/Storage/Valid.v (specification object of property C10).  The two files have the
same functions with the same names and the same logic; a Coq function taking the remaining bytes `s` is here a
function taking `(d, i)` (the file and a position) and returning the new position instead of the new suffix.
`None` is Coq's `None`; `raise Fail(code)` is Coq's `Err code`.

    valid_code(data) -> 0 if valid, else the number of the first failing check (see CODES)
    valid_pdf(data)  -> bool
    explain(code)    -> str

Usage:  python3 -m tools.oracle.validate file.pdf ...
"""
import sys

CODES = {
    0: "valid",
    1: "header: no %PDF- at the start of the file (within the first 1024 bytes)",
    2: "startxref: last 'startxref', digits, %%EOF missing or malformed, or offset >= file length",
    3: "startxref offset is not 'n g obj' followed by a dictionary",
    4: "xref stream dictionary has no /Type /XRef",
    5: "xref stream dictionary has no integer /Size",
    6: "/W is not an array of three integers <= 8 with a positive sum",
    7: "/Index is not an array of an even number of integers",
    8: "xref stream /Length is not a direct non-negative integer",
    9: "xref stream has a /Filter (only unfiltered xref streams are validated)",
    10: "xref stream: 'stream' EOL, /Length data bytes, optional EOL, 'endstream' not found",
    11: "xref stream: (sum of /Index counts) * (w0+w1+w2) differs from /Length",
    12: "/Index subsection exceeds /Size",
    13: "xref entry type other than 0, 1, 2, or an object number listed twice",
    14: "type-1 entry: offset is not the position of 'num gen obj' with these numbers",
    15: "the xref stream object itself is not a type-1 entry at the startxref offset",
    16: "type-2 entry: the object stream number is not a type-1 entry",
    17: "object body: malformed token, unbalanced brackets, stray 'stream'/'obj', or 'endobj' not reached",
    18: "reference to an undefined object",
    19: "stream dictionary has no direct non-negative integer /Length",
    20: "/Length differs from the byte count (no 'endstream' after /Length bytes)",
    21: "/Size is not greater than every object number",
    99: "internal: out of fuel (cannot happen)",
}


def explain(code):
    return CODES.get(code, "unknown code %d" % code)


class Fail(Exception):
    def __init__(self, code):
        Exception.__init__(self, code)
        self.code = code


def guard(c, code):
    if not c:
        raise Fail(code)


def need(o, code):
    if o is None:
        raise Fail(code)
    return o


# ---------------------------------------------------------------- character classes

WS = (0, 9, 10, 12, 13, 32)
DELIM = (40, 41, 60, 62, 91, 93, 123, 125, 47, 37)  # ( ) < > [ ] { } / %


def is_ws(c):
    return c in WS


def is_delim(c):
    return c in DELIM


def is_regular(c):
    return not is_ws(c) and not is_delim(c)


def is_digit(c):
    return 48 <= c <= 57


def all_digits(w):
    return all(is_digit(c) for c in w)


def N_of_dec(w):
    acc = 0
    for c in w:
        acc = acc * 10 + (c - 48)
    return acc


def canon_digits(ds):
    """a decimal spelling without leading zeros (other than the number 0 itself)"""
    if len(ds) == 0:
        return False
    if len(ds) == 1:
        return True
    return ds[0] != 48


# ---------------------------------------------------------------- byte-level helpers

def starts_with(p, d, i):
    return d[i:i + len(p)] == p


def skip_ws(d, i):
    while i < len(d) and is_ws(d[i]):
        i += 1
    return i


def ws1(d, i):
    """at least one white-space byte"""
    if i < len(d) and is_ws(d[i]):
        return skip_ws(d, i + 1)
    return None


def read_digits(d, i):
    j = i
    while j < len(d) and is_digit(d[j]):
        j += 1
    return d[i:j], j


def skip_eol_strict(d, i):
    """LF or CR LF (after the keyword stream)"""
    if i < len(d) and d[i] == 10:
        return i + 1
    if i + 1 < len(d) and d[i] == 13 and d[i + 1] == 10:
        return i + 2
    return None


def skip_eol_opt(d, i):
    """optional LF, CR LF or CR (before endstream)"""
    if i < len(d) and d[i] == 10:
        return i + 1
    if i < len(d) and d[i] == 13:
        if i + 1 < len(d) and d[i + 1] == 10:
            return i + 2
        return i + 1
    return i


def drop_exact(d, i, n):
    """position after exactly n more bytes, None if there are fewer"""
    if i + n <= len(d):
        return i + n
    return None


def find_last(p, d):
    """position just after the last occurrence of p"""
    acc = None
    for i in range(len(d)):
        if starts_with(p, d, i):
            acc = i + len(p)
    return acc


HEADER_WINDOW = 1020  # the header must lie within the first 1024 bytes; 1 = offset 0 only


def find_header(fuel, d):
    """position of the first %PDF- at an offset < fuel"""
    i = 0
    while fuel > 0:
        if starts_with(b"%PDF-", d, i):
            return i
        if i >= len(d):
            return None
        i += 1
        fuel -= 1
    return None


# ---------------------------------------------------------------- tokenizer

T_DICT_OPEN, T_DICT_CLOSE, T_ARR_OPEN, T_ARR_CLOSE, T_BRACE_OPEN, T_BRACE_CLOSE = "<<", ">>", "[", "]", "{", "}"
T_STR, T_HEX, T_NAME, T_INT, T_OTHER = "str", "hex", "name", "int", "other"


def skip_wsc(d, i):
    """skip white-space and comments"""
    in_comment = False
    while i < len(d):
        c = d[i]
        if in_comment:
            if c == 10 or c == 13:
                in_comment = False
        elif is_ws(c):
            pass
        elif c == 37:
            in_comment = True
        else:
            return i
        i += 1
    return i


def span_regular(d, i):
    j = i
    while j < len(d) and is_regular(d[j]):
        j += 1
    return d[i:j], j


def skip_lit(d, i):
    """i is just after '('; position after the matching ')'"""
    depth = 0
    while i < len(d):
        c = d[i]
        if c == 92:
            if i + 1 >= len(d):
                return None
            i += 2
        elif c == 40:
            depth += 1
            i += 1
        elif c == 41:
            if depth == 0:
                return i + 1
            depth -= 1
            i += 1
        else:
            i += 1
    return None


def skip_hex(d, i):
    while i < len(d):
        if d[i] == 62:
            return i + 1
        i += 1
    return None


def next_token(d, i):
    """((kind, payload), position after the token) or None at the end of the input / on a malformed token"""
    i = skip_wsc(d, i)
    if i >= len(d):
        return None
    c = d[i]
    t = i + 1
    if c == 60:
        if t >= len(d):
            return None
        if d[t] == 60:
            return (T_DICT_OPEN, None), t + 1
        r = skip_hex(d, t)
        return None if r is None else ((T_HEX, None), r)
    if c == 62:
        if t < len(d) and d[t] == 62:
            return (T_DICT_CLOSE, None), t + 1
        return None
    if c == 91:
        return (T_ARR_OPEN, None), t
    if c == 93:
        return (T_ARR_CLOSE, None), t
    if c == 123:
        return (T_BRACE_OPEN, None), t
    if c == 125:
        return (T_BRACE_CLOSE, None), t
    if c == 40:
        r = skip_lit(d, t)
        return None if r is None else ((T_STR, None), r)
    if c == 41:
        return None
    if c == 47:
        n, r = span_regular(d, t)
        return (T_NAME, n), r
    if c == 37:
        return None
    w, r = span_regular(d, i)
    if all_digits(w):
        return (T_INT, N_of_dec(w)), r
    return (T_OTHER, w), r


def open_kind(tok):
    """1, 2, 3 for << [ {; 0 otherwise"""
    return {T_DICT_OPEN: 1, T_ARR_OPEN: 2, T_BRACE_OPEN: 3}.get(tok[0], 0)


def close_kind(tok):
    return {T_DICT_CLOSE: 1, T_ARR_CLOSE: 2, T_BRACE_CLOSE: 3}.get(tok[0], 0)


def skip_group(d, i, stack):
    """skip tokens until the bracket stack (non-empty on entry) is empty"""
    while True:
        nt = next_token(d, i)
        if nt is None:
            return None
        tok, r = nt
        if open_kind(tok) != 0:
            stack = [open_kind(tok)] + stack
        elif close_kind(tok) != 0:
            if not stack or stack[0] != close_kind(tok):
                return None
            stack = stack[1:]
            if not stack:
                return r
        i = r


# ---------------------------------------------------------------- dictionaries (top-level entries)

V_NAME, V_INT, V_INTARR, V_REF, V_OTHER = "VName", "VInt", "VIntArr", "VRef", "VOther"


def read_int_array(d, i):
    """i is just after '['; (VIntArr l | VOther, position after the matching ']')"""
    acc = []
    pure = True
    while True:
        nt = next_token(d, i)
        if nt is None:
            return None
        tok, r = nt
        if tok[0] == T_ARR_CLOSE:
            return ((V_INTARR, acc) if pure else (V_OTHER, None)), r
        if tok[0] == T_INT:
            acc = acc + [tok[1]]
        elif open_kind(tok) != 0:
            r = skip_group(d, r, [open_kind(tok)])
            if r is None:
                return None
            pure = False
        elif close_kind(tok) != 0:
            return None
        else:
            pure = False
        i = r


def parse_value(d, i):
    nt = next_token(d, i)
    if nt is None:
        return None
    tok, r = nt
    if tok[0] == T_INT:
        nt2 = next_token(d, r)
        if nt2 is not None and nt2[0][0] == T_INT:
            nt3 = next_token(d, nt2[1])
            if nt3 is not None and nt3[0] == (T_OTHER, b"R"):
                return (V_REF, (tok[1], nt2[0][1])), nt3[1]
        return (V_INT, tok[1]), r
    if tok[0] == T_NAME:
        return (V_NAME, tok[1]), r
    if tok[0] == T_ARR_OPEN:
        return read_int_array(d, r)
    if open_kind(tok) != 0:
        r2 = skip_group(d, r, [open_kind(tok)])
        return None if r2 is None else ((V_OTHER, None), r2)
    if close_kind(tok) != 0:
        return None
    return (V_OTHER, None), r


def parse_dict_entries(d, i):
    """i is just after '<<'; ([(key, value)], position after the matching '>>')"""
    acc = []
    while True:
        nt = next_token(d, i)
        if nt is None:
            return None
        tok, r = nt
        if tok[0] == T_DICT_CLOSE:
            return acc, r
        if tok[0] != T_NAME:
            return None
        pv = parse_value(d, r)
        if pv is None:
            return None
        v, r2 = pv
        acc = acc + [(tok[1], v)]
        i = r2


def lookup(k, ents):
    for (k2, v) in ents:
        if k2 == k:
            return v
    return None


def as_int(o):
    if o is not None and o[0] == V_INT:
        return o[1]
    return None


def as_w(o):
    if o is not None and o[0] == V_INTARR and len(o[1]) == 3:
        w0, w1, w2 = o[1]
        if w0 <= 8 and w1 <= 8 and w2 <= 8 and w0 + w1 + w2 > 0:
            return (w0, w1, w2)
    return None


def pairs(l):
    acc = []
    while len(l) >= 2:
        acc = acc + [(l[0], l[1])]
        l = l[2:]
    if len(l) == 1:
        return None
    return acc


def as_index(size, o):
    if o is None:
        return [(0, size)]
    if o[0] == V_INTARR:
        return pairs(o[1])
    return None


# ---------------------------------------------------------------- objects and streams

def parse_obj_header(d, i):
    """digits ws+ digits ws+ 'obj' followed by a white-space or delimiter byte: (num digits, gen digits, position after obj)"""
    nd, r = read_digits(d, i)
    if len(nd) == 0:
        return None
    r1 = ws1(d, r)
    if r1 is None:
        return None
    gd, r2 = read_digits(d, r1)
    if len(gd) == 0:
        return None
    r3 = ws1(d, r2)
    if r3 is None:
        return None
    if not starts_with(b"obj", d, r3):
        return None
    r4 = r3 + 3
    if r4 < len(d) and (is_ws(d[r4]) or is_delim(d[r4])):
        return nd, gd, r4
    return None


def read_stream(d, i, length):
    """i is just after the keyword stream: (position of the data, position after endstream)"""
    ds = skip_eol_strict(d, i)
    if ds is None:
        return None
    e = drop_exact(d, ds, length)
    if e is None:
        return None
    e2 = skip_eol_opt(d, e)
    if not starts_with(b"endstream", d, e2):
        return None
    return ds, e2 + 9


def dict_length(d, i):
    """i is the start of an object body that is a dictionary: its direct /Length"""
    nt = next_token(d, i)
    if nt is None or nt[0][0] != T_DICT_OPEN:
        return None
    pe = parse_dict_entries(d, nt[1])
    if pe is None:
        return None
    return as_int(lookup(b"Length", pe[0]))


# ---------------------------------------------------------------- the cross-reference stream

def find_startxref(d):
    r = find_last(b"startxref", d)
    if r is None:
        return None
    r1 = skip_ws(d, r)
    ds, r2 = read_digits(d, r1)
    if len(ds) == 0:
        return None
    r3 = skip_ws(d, r2)
    if not starts_with(b"%%EOF", d, r3):
        return None
    return N_of_dec(ds)


def read_xref_object(d, i):
    """(xn, size, (w0, w1, w2), subsections, length, data)"""
    nd, gd, r = need(parse_obj_header(d, i), 3)
    nt = next_token(d, r)
    guard(nt is not None and nt[0][0] == T_DICT_OPEN, 3)
    ents, r2 = need(parse_dict_entries(d, nt[1]), 3)
    guard(lookup(b"Type", ents) == (V_NAME, b"XRef"), 4)
    size = need(as_int(lookup(b"Size", ents)), 5)
    w = need(as_w(lookup(b"W", ents)), 6)
    subs = need(as_index(size, lookup(b"Index", ents)), 7)
    length = need(as_int(lookup(b"Length", ents)), 8)
    guard(lookup(b"Filter", ents) is None, 9)
    nt = next_token(d, r2)
    guard(nt is not None and nt[0] == (T_OTHER, b"stream"), 10)
    ds, _ = need(read_stream(d, nt[1], length), 10)
    return N_of_dec(nd), size, w, subs, length, d[ds:ds + length]


def read_be(w, acc, d, i):
    while w > 0 and i < len(d):
        acc = acc * 256 + d[i]
        i += 1
        w -= 1
    return acc, i


def decode_rows(w0, w1, w2, d):
    rows = []
    i = 0
    while i < len(d):
        t, i = read_be(w0, 0, d, i)
        f2, i = read_be(w1, 0, d, i)
        f3, i = read_be(w2, 0, d, i)
        rows = rows + [(1 if w0 == 0 else t, f2, f3)]
    return rows


def drop_empty(subs):
    while subs and subs[0][1] == 0:
        subs = subs[1:]
    return subs


def assign(rows, subs):
    """number the rows: [(num, (type, f2, f3))]"""
    tbl = []
    for r in rows:
        subs = drop_empty(subs)
        if not subs:
            break
        f, c = subs[0]
        tbl = tbl + [(f, r)]
        subs = [(f + 1, c - 1)] + subs[1:]
    return tbl


def overlap(a, b):
    return a[1] != 0 and b[1] != 0 and a[0] < b[0] + b[1] and b[0] < a[0] + a[1]


def subs_disjoint(subs):
    for i in range(len(subs)):
        for j in range(i + 1, len(subs)):
            if overlap(subs[i], subs[j]):
                return False
    return True


def lookup_entry(n, tbl):
    for (n2, e) in tbl:
        if n2 == n:
            return e
    return None


def is_type1(o):
    return o is not None and o[0] == 1


# ---------------------------------------------------------------- checks over the table

def check_header(d, num, off, gen):
    """body position of the object at a type-1 entry's offset"""
    if not off < len(d):
        return None
    h = parse_obj_header(d, off)
    if h is None:
        return None
    nd, gd, r = h
    if canon_digits(nd) and canon_digits(gd) and N_of_dec(nd) == num and N_of_dec(gd) == gen:
        return r
    return None


def check_headers(d, tbl):
    """the body positions of all type-1 entries, in table order"""
    bodies = []
    for (num, (t, f2, f3)) in tbl:
        if t == 1:
            bodies = bodies + [need(check_header(d, num, f2, f3), 14)]
    return bodies


def check_objstms(tbl):
    for (num, (t, f2, f3)) in tbl:
        if t == 2 and not is_type1(lookup_entry(f2, tbl)):
            return False
    return True


def ref_ok(tbl, n, g):
    e = lookup_entry(n, tbl)
    if e is None:
        return False
    if e[0] == 1:
        return e[2] == g
    if e[0] == 2:
        return g == 0
    return False


def st_other(st):
    return 1 if st == 1 else 3


def scan_body(d, tbl, s0, hi):
    """scan an object body from s0 to endobj: (code, hi) with hi = max (n + 1) over the references seen.
    st: 0 nothing read yet; 1 inside the dictionary that is the object's value; 2 just after it; 3 otherwise."""
    i = s0
    stack = []
    p2 = p1 = None  # the two preceding tokens, when they are integers
    st = 0
    while True:
        nt = next_token(d, i)
        if nt is None:
            return 17, hi
        tok, r = nt
        if open_kind(tok) != 0:
            st = 1 if (st == 0 and open_kind(tok) == 1) else st_other(st)
            stack = [open_kind(tok)] + stack
            p2 = p1 = None
        elif close_kind(tok) != 0:
            if not stack or stack[0] != close_kind(tok):
                return 17, hi
            stack = stack[1:]
            st = 2 if (st == 1 and not stack) else st_other(st)
            p2 = p1 = None
        elif tok[0] == T_INT:
            st = st_other(st)
            p2, p1 = p1, tok[1]
        elif tok[0] == T_OTHER:
            w = tok[1]
            if w == b"R":
                if p2 is not None and p1 is not None:
                    if not ref_ok(tbl, p2, p1):
                        return 18, hi
                    hi = max(hi, p2 + 1)
                st = st_other(st)
                p2 = p1 = None
            elif w == b"endobj":
                return (0 if not stack else 17), hi
            elif w == b"stream":
                if st != 2:
                    return 17, hi
                length = dict_length(d, s0)
                if length is None:
                    return 19, hi
                rs = read_stream(d, r, length)
                if rs is None:
                    return 20, hi
                r = rs[1]
                st = 3
                p2 = p1 = None
            elif w == b"obj":
                return 17, hi
            else:
                st = st_other(st)
                p2 = p1 = None
        else:
            st = st_other(st)
            p2 = p1 = None
        i = r


def scan_bodies(d, tbl, bodies, hi):
    for s0 in bodies:
        code, hi = scan_body(d, tbl, s0, hi)
        if code != 0:
            raise Fail(code)
    return hi


# ---------------------------------------------------------------- top level

def valid_body(d):
    """d starts with the header; all offsets are relative to it"""
    x = need(find_startxref(d), 2)
    guard(x < len(d), 2)
    xn, size, (w0, w1, w2), subs, length, data = read_xref_object(d, x)
    guard(sum(c for (_, c) in subs) * (w0 + w1 + w2) == length, 11)
    guard(all(f + c <= size for (f, c) in subs), 12)
    tbl = assign(decode_rows(w0, w1, w2, data), subs)
    guard(all(t <= 2 for (_, (t, _, _)) in tbl) and subs_disjoint(subs), 13)
    bodies = check_headers(d, tbl)
    e = lookup_entry(xn, tbl)
    guard(is_type1(e) and e[1] == x, 15)
    guard(check_objstms(tbl), 16)
    hi = scan_bodies(d, tbl, bodies, 0)
    guard(all(n < size for (n, _) in tbl) and hi <= size, 21)
    return 0


def valid_code(data):
    data = bytes(data)
    h = find_header(HEADER_WINDOW, data)
    if h is None:
        return 1
    try:
        return valid_body(data[h:])
    except Fail as f:
        return f.code


def valid_pdf(data):
    return valid_code(data) == 0


if __name__ == "__main__":
    rc = 0
    for path in sys.argv[1:]:
        with open(path, "rb") as fh:
            c = valid_code(fh.read())
        print("%s: %d %s" % (path, c, explain(c)))
        rc = rc or (1 if c else 0)
    sys.exit(rc)
